"""bounded/canon.py -- canonical, UUID-free dump of an IR (used for round-trip, batch-vs-sequential, determinism)."""
import gtirb


def _node_key(n):
    if isinstance(n, gtirb.ProxyBlock):
        return ("proxy",)
    if isinstance(n, gtirb.ByteBlock):
        return (type(n).__name__, n.section.name if n.section else None, n.address, n.size)
    if isinstance(n, gtirb.ByteInterval):
        return ("interval", n.section.name if n.section else None, n.address, n.size)
    if isinstance(n, gtirb.Symbol):
        return ("symbol", n.name)
    if isinstance(n, gtirb.Section):
        return ("section", n.name)
    if isinstance(n, gtirb.Module):
        return ("module", n.name)
    return (type(n).__name__,)


def _val(x, uuid_names):
    import uuid
    if isinstance(x, gtirb.Node):
        return _node_key(x)
    if isinstance(x, gtirb.Offset):
        return ("offset", _val(x.element_id, uuid_names), x.displacement)
    if isinstance(x, uuid.UUID):
        return ("uuid", uuid_names.get(x, "null" if x.int == 0 else "some"))
    if isinstance(x, dict) or (hasattr(x, "items") and not isinstance(x, (str, bytes))):
        return sorted(((_val(k, uuid_names), _val(v, uuid_names)) for k, v in x.items()), key=repr)
    if isinstance(x, (set, frozenset)):
        return sorted((_val(v, uuid_names) for v in x), key=repr)
    if isinstance(x, (list, tuple)):
        return [_val(v, uuid_names) for v in x]
    if isinstance(x, (bytes, bytearray)):
        return bytes(x).hex()
    if hasattr(x, "name") and hasattr(x, "value") and not isinstance(x, (int, str)):
        return str(x)
    return x


def canon(ir, strip_temp_suffix=True):
    out = {}
    for m in ir.modules:
        d = {}
        fn = m.aux_data.get("functionNames")
        uuid_names = {}
        if fn is not None:
            for u, s in fn.data.items():
                uuid_names[u] = "fn:" + (s.name if hasattr(s, "name") else str(s))
        d["sections"] = sorted((s.name, sorted((i.address, i.size, bytes(i.contents).hex(), i.initialized_size,
                                                 sorted((k, type(e).__name__, tuple(x.name for x in e.symbols), getattr(e, "offset", None),
                                                         tuple(sorted(a.name for a in e.attributes))) for k, e in i.symbolic_expressions.items()),
                                                 sorted((type(b).__name__, b.offset, b.size) for b in i.blocks)) for i in s.byte_intervals))
                               for s in m.sections)
        d["symbols"] = sorted((s.name, _node_key(s.referent) if s.referent is not None else ("none", s.value), s.at_end) for s in m.symbols)
        d["proxies"] = len(m.proxies)
        d["aux"] = {name: _val(t.data, uuid_names) for name, t in sorted(m.aux_data.items())}
        d["entry"] = _node_key(m.entry_point) if m.entry_point is not None else None
        out[m.name] = d
    out["cfg"] = sorted(((_node_key(e.source), _node_key(e.target), e.label.type.name if e.label else None,
                          e.label.conditional if e.label else None, e.label.direct if e.label else None) for e in ir.cfg), key=repr)
    return out
