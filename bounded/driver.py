"""bounded/driver.py -- runs a scenario space through validators and produces a BResult (bounded stand-in)."""
import collections
import itertools
import random

from pyvc.run import BResult

from . import scen, validators, view as V


class KernelPreconditionMonitor:
    """run-time link between the deductive kernels and their call sites: the preconditions that contracts/kernel_join.py ASSUMES
    (derived from _cleanup_modified_blocks / insert) are checked at every real call of join_blocks made during a bounded run"""

    def __init__(self):
        self.problems = []
        self.calls = 0

    def __enter__(self):
        import importlib
        import gtirb
        self.ED = importlib.import_module("gtirb_rewriting._modify.edit")
        self.real = self.ED.join_blocks
        mon = self

        def checked(cache, block1, block2):
            mon.calls += 1
            try:
                rc = cache.reference_cache
                if isinstance(block1, gtirb.CodeBlock) and isinstance(block2, gtirb.CodeBlock):
                    for b, nm in ((block1, "block1"), (block2, "block2")):
                        outs = list(b.outgoing_edges)
                        if b.size == 0 and any(e.label.type != gtirb.EdgeType.Fallthrough for e in outs):
                            mon.problems.append("join_blocks called with an EMPTY %s that has non-fallthrough out-edges %s" % (nm, sorted(e.label.type.name for e in outs)))
                    if block1.size == 0:
                        f1, f2 = cache.functions_by_block.get(block1), cache.functions_by_block.get(block2)
                        if f1 != f2:
                            mon.problems.append("join_blocks called with an empty block1 in another function than block2")
                        elif f1 is not None and cache.is_entry_block(block2) and not cache.is_entry_block(block1):
                            mon.problems.append("join_blocks called with an empty block1 in front of an entry block")
                end_label = bool(block2.size and any(s.at_end for s in rc.get_references(block1)))
            except Exception as ex:      # noqa -- the monitor must never disturb the run
                mon.problems.append("monitor error %s: %s" % (type(ex).__name__, str(ex)[:80]))
                end_label = False
            res = mon.real(cache, block1, block2)          # raises UnjoinableBlocksError when refused
            if end_label:
                # only an ACCEPTED join would move the label past block2's bytes (the contract's precondition concerns accepted joins)
                mon.problems.append("join_blocks ACCEPTED a non-empty block2 while block1 carried an end-of-block label")
            return res
        self.ED.join_blocks = checked
        return self

    def __exit__(self, *e):
        self.ED.join_blocks = self.real
        return False


def execute(shape, edits):
    run = scen.run(shape, edits)
    m = run["m"]
    return run


def prepare_run(shape, edits):
    ir, m, bi, blocks, fl = scen.build(shape)
    return ir, m, bi, blocks, fl


def run_scenario(shape, edits, vals, expect_exception=None):
    ir, m, bi, blocks, fl = scen.build(shape)
    from gtirb_rewriting import RewritingContext, _auxdata
    v0 = V.view(ir, m)
    edits = [tuple(e) + ((1,) if len(e) == 4 else ()) for e in edits]
    text_blocks = [b for b in blocks if b.section.name == ".text"]
    info = {"ir": ir, "m": m, "blocks0": blocks, "view0": v0, "shape": shape, "edits": list(edits), "default_target": 1,
            "block_bases": {i: b.address - V.BASE for i, b in enumerate(blocks) if b.section.name == ".text"},
            "block_sizes0": {i: b.size for i, b in enumerate(blocks)},
            "block_index_at": {b.address - V.BASE: i for i, b in enumerate(text_blocks)},
            "label_kinds0": validators.label_kinds(m),
            "label_block0": {s.name: blocks.index(s.referent) for s in m.symbols if s.referent in text_blocks},
            "proxy_deleted": {e[4] for e in edits if e[0] == "delproxy"},
            "target": blocks[1], "target_offset": blocks[1].address - V.BASE, "target_size0": blocks[1].size}
    ct = _auxdata.cfi_directives.get(m) or {}
    info["endproc_positions"] = {k.element_id.address + k.displacement - V.BASE for k, ds in ct.items() if any(d[0] == ".cfi_endproc" for d in ds)}
    info["startproc_positions"] = {k.element_id.address + k.displacement - V.BASE for k, ds in ct.items() if any(d[0] == ".cfi_startproc" for d in ds)}
    flat = sorted(((k.element_id.address + k.displacement - V.BASE, i, d[0]) for k, ds in ct.items() for i, d in enumerate(ds)))
    procs, cur = [], None
    for pos, _, name in flat:
        if name == ".cfi_startproc":
            cur = [pos, None, []]
        elif name == ".cfi_endproc" and cur is not None:
            cur[1] = pos
            procs.append(tuple(cur))
            cur = None
        elif cur is not None and name in (".cfi_remember_state", ".cfi_restore_state"):
            cur[2].append(name)
    info["procedures"] = procs
    ctx = RewritingContext(m, fl)
    for e in edits:
        scen.register(ctx, blocks[e[4]], e[:4])
    exc = None
    with scen.PatchRecorder() as rec, KernelPreconditionMonitor() as kmon:
        try:
            ctx.apply()
        except Exception as ex:  # noqa
            exc = ex
    info["records"], info["exc"] = rec.records, exc
    info["kernel_precondition_problems"] = sorted(set(kmon.problems))
    info["join_calls"] = kmon.calls
    if exc is not None:
        return info, [("EXC/%s" % type(exc).__name__, str(exc)[:120])]
    v1 = V.view(ir, m)
    ed = V.Edits(info)
    problems = [("KERNEL/preconditions-of-the-join-kernel-hold-at-its-call-sites", p) for p in info["kernel_precondition_problems"]]
    for val in vals:
        problems += val(info, v1, ed)
    return info, problems


def scenario_space(tier, seed, kinds=None, funcs=(False, True), cfis=("none",), anns=("none",), patches=None, doubles=True, data_follows=(False,), multi=True, callee2=(False,), bare=(False,), gaps=(False,), pes=(False, True), ftflags=(False,)):
    kinds = kinds or list(scen.KINDS)
    patches = patches or ["plain", "jmpL2", "ret", "callg", "jcc", "lab", "lab0", "jmplab", "samehead", "samehead2", "selfloop", "twocalls"]
    rnd = random.Random(seed)
    for kind, fn, cfi, ann, df, c2, br1, gp, pe, ff in itertools.product(kinds, funcs, cfis, anns, data_follows, callee2, bare, gaps, pes, ftflags):
        if ff and (pe or gp or c2 or br1):
            continue                        # flagged fallthrough edges are crossed with the main dimensions only
        if pe and (gp or br1 or (tier == "quick" and (ann not in ("none", "block") or cfi not in ("none", "whole")))):
            continue                        # the file format is crossed with the main dimensions only (all of them in the thorough tier)
        shape = scen.Shape(kind, fn, cfi, ann, df, c2, br1, gp, pe, ff)
        singles = scen.single_edits(kind, [p_ for p_ in patches if p_ != "othersec" or df])
        for e in singles:
            yield shape, [e]
        if doubles and not (pe and tier == "quick"):
            size = len(scen.KINDS[kind][0])
            def labels(e):
                return set(scen.PATCHES[e[3]][1]) if e[3] else set()
            pairs = [p for p in itertools.combinations(singles, 2) if scen.compatible(p, size) and not (labels(p[0]) & labels(p[1]))]
            both = pairs + [(b, a) for a, b in pairs if a[1] == b[1] and a[0] == b[0] == "ins"]      # registration order at equal offsets
            if tier == "quick":
                rnd.shuffle(both)
                both = both[:40]
            for p in both:
                yield shape, list(p)
        # several blocks edited in one apply(): whole-block deletions of b0/b1/b2 in every combination (chains of adjacent
        # deletions, a function losing its entry and then more blocks), and an insertion in b2 combined with an edit of b1
        if multi:
            sizes = {0: 1, 1: len(scen.KINDS[kind][0]), 2: 2}
            for r in (2, 3):
                for combo in itertools.combinations((0, 1, 2), r):
                    for ops in itertools.product(("del", "delproxy"), repeat=r):
                        yield shape, [(op, 0, sizes[t], None, t) for op, t in zip(ops, combo)]
            # single insertions at the boundaries of the OTHER blocks (start of b2, end and start of b0) with the patches of this space
            for pn in patches:
                if pn in ("cfi", "plain", "selfloop", "lab0", "cficlob", "cfiscratch", "cfilab"):
                    yield shape, [("ins", 0, 0, pn, 2)]
                    yield shape, [("ins", sizes[0], 0, pn, 0)]
                    yield shape, [("ins", 0, 0, pn, 0)]
            # recursion: a call to the function itself put into its own returning block (b2 = "nop; ret") and, for the callee g, a
            # call to g put into g's own blocks; the call that b1 makes replaced by a call to the same function
            if "callg" in patches:
                for off in (0, 1, 2):
                    yield shape, [("ins", off, 0, "callf", 2)]
                for off in (0, 1):
                    # (a call as the very last instruction of a section would return to nowhere: apply() stops with an assertion of
                    # _cleanup_modified_blocks -- no result, outside the properties; so not behind g's ret when g ends the section)
                    if off == 0 or c2:
                        yield shape, [("ins", off, 0, "callg", 3)]
                    yield shape, [("ins", off, 0, "plain", 3)]
                if c2:
                    yield shape, [("ins", 0, 0, "callg", 4)]
                if kind == "call":
                    yield shape, [("rep", 1, sizes[1] - 1, "callg", 1)]
                    yield shape, [("rep", 0, sizes[1], "callg", 1)]
            for pn in ("plain", "callg", "ret"):
                for first in (("ins", sizes[1], 0, "plain", 1), ("del", 0, 1, None, 1), ("ins", 0, 0, "callg", 0)):
                    yield shape, [first, ("ins", 1, 0, pn, 2)]
                    yield shape, [first, ("ins", 0, 0, pn, 2)]


def bounded_job(vals, clauses, bound_text, **space):
    def make(tier, seed):
        def run():
            br = BResult()
            br.bound = bound_text
            br.clauses = list(clauses)
            distinct = set()
            seen_fail = collections.Counter()
            for shape, edits in scenario_space(tier, seed, **space):
                br.cases += 1
                distinct.add((repr(shape), tuple(edits)))
                try:
                    info, problems = run_scenario(shape, edits, vals)
                except Exception as e:
                    problems = [("HARNESS/%s" % type(e).__name__, str(e)[:200])]
                for clause, detail in problems:
                    if clause.startswith("EXC/"):
                        clause2 = "apply-does-not-raise/" + clause[4:]
                    else:
                        clause2 = clause
                    seen_fail[clause2] += 1
                    if seen_fail[clause2] <= 400:
                        br.failures.append({"clause": clause2, "witness": {"shape": repr(shape), "edits": [list(e) for e in edits]}, "detail": detail})
                if len(br.samples) < 3:
                    br.samples.append({"shape": repr(shape), "edits": [list(e) for e in edits]})
            br.nontrivial = len(distinct)
            return br
        return run
    return make
