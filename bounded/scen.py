"""bounded/scen.py -- small-scope scenario space for the apply-level bounded stand-ins (B back end).

A scenario = (module shape, list of registered modifications).  Everything is enumerated, nothing sampled, within
the stated bounds; VERIF_SEED only chooses which slice of the *double-edit* space is added in quick tier.

Module shapes (x86-64 ELF, one text section at 0x1000, optional data section at 0x2000):
    f:  b0 [nop]            -> falls through
    L1: b1 [<kind>]         kind in plain / jmp / ret / call / jcc   (E1 = end-of-block label of b1)
    L2: b2 [nop; ret]
    g:  g1 [ret]            callee of the call kind
  with / without function information, optional CFI layout, optional annotations (comments / padding /
  symbolicExpressionSizes keyed by block or by byte interval, symbolic expressions on branch operands).
Modifications on b1 at every instruction boundary: insert / replace / delete with a small patch vocabulary.
"""
import itertools
import logging

import capstone
import gtirb
import gtirb_functions
from gtirb_test_helpers import (add_code_block, add_data_block, add_data_section, add_edge, add_function, add_proxy_block, add_symbol,
                                add_text_section, create_test_module)

from gtirb_rewriting import Patch, RewritingContext, _auxdata, patch_constraints
from gtirb_rewriting._auxdata import NULL_UUID

logging.getLogger("gtirb_rewriting").setLevel(logging.CRITICAL)
MD = capstone.Cs(capstone.CS_ARCH_X86, capstone.CS_MODE_64)
MD.detail = True

KINDS = {"plain": (b"\x53\x56\x57", None), "jmp": (b"\x53\xeb\x00", "jmp"), "ret": (b"\x53\xc3", "ret"),
         "call": (b"\x53\xe8\x00\x00\x00\x00", "call"), "jcc": (b"\x53\x74\x00", "jcc")}

# name -> (assembly, labels defined {name: offset in patch bytes}, ends with: None|'jmp'|'ret'|'jcc'|'call')
PATCHES = {
    "plain": ("pushq %rax", {}, None),
    "two": ("pushq %rax\npopq %rax", {}, None),
    "jmpL2": ("jmp L2", {}, "jmp"),
    "ret": ("ret", {}, "ret"),
    "callg": ("call g", {}, "call"),
    # a call to the function the patch is inserted into (recursion)
    "callf": ("call f", {}, "call"),
    "jcc": ("je L2", {}, "jcc"),
    # a call to the function the patch is inserted into, then a return (the patch's ret and the callee's ret are rets of ONE function)
    "callfret": ("call f\nret", {}, "ret"),
    "lab": ("nop\nP1:\nnop", {"P1": 1}, None),
    "lab0": ("P0:\nnop", {"P0": 0}, None),
    "jmplab": ("jmp L2\nP2:", {"P2": 2}, "jmp"),
    "cfi": ("pushq %rax\n.cfi_adjust_cfa_offset 8\npopq %rax\n.cfi_adjust_cfa_offset -8", {}, None),
    # two IDENTICAL directives at one position (CFI directives are not idempotent), balanced by one directive
    "cfidup": ("pushq %rax\npushq %rax\n.cfi_adjust_cfa_offset 8\n.cfi_adjust_cfa_offset 8\npopq %rax\npopq %rax\n.cfi_adjust_cfa_offset -16", {}, None),
    # the balanced-CFI patch with stack-moving constraints (flags saved / a scratch register), and a CFI-less one
    "cficlob": ("pushq %rax\n.cfi_adjust_cfa_offset 8\npopq %rax\n.cfi_adjust_cfa_offset -8", {}, None),
    "cfiscratch": ("pushq %rax\n.cfi_adjust_cfa_offset 8\npopq %rax\n.cfi_adjust_cfa_offset -8", {}, None),
    "twoclob": ("pushq %rax\npopq %rax", {}, None),
    # balanced CFI whose LAST directive follows a label at the very end of the patch; several labels at one position each with a directive
    "cfilab": ("pushq %rax\n.cfi_adjust_cfa_offset 8\npopq %rax\nPX:\n.cfi_adjust_cfa_offset -8", {"PX": 2}, None),
    "cfistack": ("nop\nPA:\n.cfi_remember_state\nPB:\n.cfi_adjust_cfa_offset 16\nPC:\n.cfi_restore_state\nnop", {"PA": 1, "PB": 1, "PC": 1}, None),
    # data embedded in a code patch, jumped over
    "embdata": ("jmp PD\n.byte 1, 2\nPD:\nnop", {"PD": 4}, None),
    "symexpr": ("movq L2(%rip), %rax", {}, None),
    # a patch that also puts bytes into ANOTHER section (they are not part of what the patch inserts at its site)
    # (used on shapes that HAVE a .data section: a patch that creates a new section makes the final layout move every section)
    "othersec": ("pushq %rax\n.data\n.byte 7, 8, 9\n.text\npopq %rax", {}, None),
    # two calls to the same function in ONE patch
    "twocalls": ("call g\nnop\ncall g", {}, "call"),
    # a patch whose first block loops back to its own start
    "selfloop": ("PS:\ndecl %eax\njne PS", {"PS": 0}, "jcc"),
    # a RIP-relative operand FOLLOWED by an immediate (the PC-relative bias differs from the field's distance to the end of the
    # instruction), and an explicit addend
    # patches whose bytes are a PREFIX of the bytes they replace / of the bytes at the insertion point (b1 starts with 53 = push %rbx)
    "samehead": ("pushq %rbx", {}, None),
    "samehead2": ("pushq %rbx\npushq %rsi", {}, None),
    "symexprimm": ("addl $1, L2(%rip)", {}, None),
    "symexprimm4": ("movq $7, L2(%rip)", {}, None),
    "symexpradd": ("leaq L2+4(%rip), %rax", {}, None),
}

CFI_LAYOUTS = {
    "none": {},
    "whole": {(0, 0): ["start", "cfa8"], (1, 1): ["adj8"], (1, 2): ["adj-8"], (2, 2): ["end"]},
    "b1only": {(1, 0): ["start", "cfa8"], (1, 2): ["rem", "adj8"], (1, "end"): ["rest", "end"]},
    "endatb1": {(0, 0): ["start", "cfa8"], (1, "end"): ["end"], (2, 0): ["start", "cfa8"], (2, 2): ["end"]},
    # the procedure ends at the end of b1; b2 is NOT in any procedure (a CFI function directly followed by CFI-less code)
    "b0b1": {(0, 0): ["start", "cfa8"], (1, "end"): ["end"]},
    # b0 is outside; the procedure starts with b1 (CFI-less code directly followed by a CFI function)
    "b1b2": {(1, 0): ["start", "cfa8"], (2, 2): ["end"]},
}
CFI_D = {"start": (".cfi_startproc", [], NULL_UUID), "end": (".cfi_endproc", [], NULL_UUID), "cfa8": (".cfi_def_cfa", [7, 8], NULL_UUID),
         "adj8": (".cfi_adjust_cfa_offset", [8], NULL_UUID), "adj-8": (".cfi_adjust_cfa_offset", [-8], NULL_UUID),
         "rem": (".cfi_remember_state", [], NULL_UUID), "rest": (".cfi_restore_state", [], NULL_UUID)}


# patches whose Constraints are not the default ones (the ABI then wraps them in a prologue / epilogue that moves the stack pointer)
PATCH_CONSTRAINTS = {"cficlob": dict(clobbers_flags=True), "cfiscratch": dict(scratch_registers=1), "twoclob": dict(clobbers_flags=True)}


def mkpatch(txt, constraints=None):
    @patch_constraints(**(constraints or {}))
    def p(ctx):
        return txt
    return Patch.from_function(p)


def insn_bounds(data):
    out = [0]
    for i in MD.disasm(data, 0):
        out.append(out[-1] + i.size)
    return out


class Shape:
    def __init__(self, kind="plain", funcs=True, cfi="none", ann="none", data_follows=False, callee2=False, bare_b1=False, gap=False, pe=False, ftflags=False):
        self.ftflags = ftflags          # the module's fallthrough edges carry non-default label flags (conditional=True, as the not-taken edge of a jcc does)
        self.pe = pe                    # a PE module instead of an ELF one (same ISA, same bytes)
        self.kind, self.funcs, self.cfi, self.ann, self.data_follows, self.callee2 = kind, funcs, cfi, ann, data_follows, callee2
        self.gap = gap                  # two bytes covered by NO block at the start of the byte interval (the first block is not at interval offset 0)
        self.bare_b1 = bare_b1          # b1 carries no label of its own (labels reach it only by sliding from a deleted neighbour)

    def __repr__(self):
        return "shape(kind=%s funcs=%s cfi=%s ann=%s%s%s)" % (self.kind, self.funcs, self.cfi, self.ann, " data" if self.data_follows else "",
                                                             (" callee-of-two-blocks" if self.callee2 else "") + (" b1-without-labels" if self.bare_b1 else "") + (" leading-gap" if self.gap else "") + (" PE" if self.pe else "") + (" flagged-fallthroughs" if getattr(self, "ftflags", False) else ""))


def build(shape):
    ir, m = create_test_module(gtirb.Module.FileFormat.PE if getattr(shape, "pe", False) else gtirb.Module.FileFormat.ELF, gtirb.Module.ISA.X64)
    _, bi = add_text_section(m, address=0x1000)
    if shape.gap:
        bi.contents = b"\xcc\xcc"
        bi.size = 2
    data, term = KINDS[shape.kind]
    b0 = add_code_block(bi, b"\x90")
    b1 = add_code_block(bi, data)
    b2 = add_code_block(bi, b"\x90\xc3")
    g1 = add_code_block(bi, b"\x90" if shape.callee2 else b"\xc3")
    g2 = add_code_block(bi, b"\xc3") if shape.callee2 else None
    s0 = add_symbol(m, "f", b0)
    s2 = add_symbol(m, "L2", b2)
    sg = add_symbol(m, "g", g1)
    if not shape.bare_b1:
        add_symbol(m, "L1", b1)
        e1 = add_symbol(m, "E1", b1)
        e1.at_end = True
    add_edge(ir.cfg, b0, b1, gtirb.EdgeType.Fallthrough)
    if term is None:
        add_edge(ir.cfg, b1, b2, gtirb.EdgeType.Fallthrough)
    elif term == "jmp":
        bi.symbolic_expressions[b1.offset + 2] = gtirb.SymAddrConst(0, s2, {gtirb.SymbolicExpression.Attribute.PCREL} if hasattr(gtirb.SymbolicExpression.Attribute, "PCREL") else set())
        add_edge(ir.cfg, b1, b2, gtirb.EdgeType.Branch)
    elif term == "jcc":
        bi.symbolic_expressions[b1.offset + 2] = gtirb.SymAddrConst(0, s2)
        add_edge(ir.cfg, b1, b2, gtirb.EdgeType.Branch, conditional=True)
        add_edge(ir.cfg, b1, b2, gtirb.EdgeType.Fallthrough)
    elif term == "call":
        bi.symbolic_expressions[b1.offset + 2] = gtirb.SymAddrConst(0, sg)
        add_edge(ir.cfg, b1, g1, gtirb.EdgeType.Call)
        add_edge(ir.cfg, b1, b2, gtirb.EdgeType.Fallthrough)
    retproxy = add_proxy_block(m)
    if term == "ret":
        add_edge(ir.cfg, b1, retproxy, gtirb.EdgeType.Return)
    add_edge(ir.cfg, b2, retproxy, gtirb.EdgeType.Return)
    gret = g2 if shape.callee2 else g1
    if shape.callee2:
        add_edge(ir.cfg, g1, g2, gtirb.EdgeType.Fallthrough)
    if term == "call":
        add_edge(ir.cfg, gret, b2, gtirb.EdgeType.Return)
    else:
        add_edge(ir.cfg, gret, add_proxy_block(m), gtirb.EdgeType.Return)
    if getattr(shape, "ftflags", False):
        for e in [e for e in ir.cfg if e.label.type == gtirb.EdgeType.Fallthrough]:
            ir.cfg.discard(e)
            ir.cfg.add(gtirb.Edge(e.source, e.target, gtirb.EdgeLabel(gtirb.EdgeType.Fallthrough, conditional=True, direct=e.label.direct)))
    blocks = [b0, b1, b2, g1] + ([g2] if shape.callee2 else [])
    if shape.data_follows:
        _, dbi = add_data_section(m, address=0x2000)
        d0 = add_data_block(dbi, b"\x01\x02\x03\x04")
        add_symbol(m, "D0", d0)
        blocks.append(d0)
    fl = []
    if shape.funcs:
        add_function(m, s0, b0, {b1, b2})
        add_function(m, sg, g1, {g2} if shape.callee2 else set())
        fl = gtirb_functions.Function.build_functions(m)
    if shape.cfi != "none":
        tab = {}
        for (bidx, d), v in CFI_LAYOUTS[shape.cfi].items():
            b = blocks[bidx]
            tab[gtirb.Offset(b, b.size if d == "end" else d)] = [CFI_D[x] for x in v]
        _auxdata.cfi_directives.set(m, tab)
    if shape.ann != "none":
        comments, sizes, padding = {}, {}, {}
        for b in blocks[:3]:
            bnds = insn_bounds(bytes(b.contents))
            for o in bnds[:-1]:
                key = gtirb.Offset(bi, b.offset + o) if shape.ann.startswith("interval") else gtirb.Offset(b, o)
                p = b.offset + o
                comments[key] = "c%d" % p
                padding[key] = 200 + p
        for k in bi.symbolic_expressions:
            b = [x for x in blocks[:4] if x.offset <= k < x.offset + x.size][0]
            sizes[gtirb.Offset(bi, k) if shape.ann.startswith("interval") else gtirb.Offset(b, k - b.offset)] = 1 if shape.kind != "call" else 4
        if shape.ann.endswith("-rev"):
            # the same entries recorded in descending position order (aux data tables are plain dicts: no order is promised)
            comments, padding, sizes = (dict(reversed(list(d.items()))) for d in (comments, padding, sizes))
        _auxdata.comments.set(m, comments)
        _auxdata.padding.set(m, padding)
        _auxdata.symbolic_expression_sizes.set(m, sizes)
    return ir, m, bi, blocks, fl


def single_edits(kind, patches, with_proxy_delete=True):
    """every insert / replace / delete of b1 at instruction boundaries"""
    bounds = insn_bounds(KINDS[kind][0])
    out = []
    for o in bounds:
        for pn in patches:
            out.append(("ins", o, 0, pn))
    for i, o in enumerate(bounds):
        for o2 in bounds[i + 1:]:
            out.append(("del", o, o2 - o, None))
            for pn in patches:
                if pn in ("plain", "ret", "jmpL2", "lab", "two", "samehead", "samehead2"):
                    out.append(("rep", o, o2 - o, pn))
    if with_proxy_delete:
        out.append(("delproxy", 0, len(KINDS[kind][0]), None))
    return out


def compatible(edits, size):
    """modifications of one block must not overlap; a whole-block deletion cannot be combined (documented assert)"""
    last = 0
    for (op, o, l, pn) in sorted(edits, key=lambda e: (e[1], e[2])):
        if o < last:
            return False
        last = o + l
    if len(edits) > 1 and any(op in ("del", "delproxy") and o == 0 and l == size for op, o, l, pn in edits):
        return False
    return True


def register(ctx, block, edit):
    op, o, l, pn = edit
    if op == "ins":
        ctx.insert_at(block, o, mkpatch(PATCHES[pn][0], PATCH_CONSTRAINTS.get(pn)))
    elif op == "rep":
        ctx.replace_at(block, o, l, mkpatch(PATCHES[pn][0], PATCH_CONSTRAINTS.get(pn)))
    elif op == "del":
        ctx.delete_at(block, o, l)
    elif op == "delproxy":
        ctx.delete_at(block, 0, l, retarget_to_proxy=True)
    else:
        raise ValueError(op)


class PatchRecorder:
    """monitor on RewritingContext._invoke_patch: records, per invocation, the assembled bytes (what LLVM produced for
    prologue+patch+epilogue) -- the oracle takes the patch bytes from here (assumption A: LLVM)"""

    def __init__(self):
        self.records = []

    def __enter__(self):
        rec = self
        self.real = RewritingContext._invoke_patch

        def wrapped(self_, patch, actual_block, actual_offset, context, **kw):
            res = rec.real(self_, patch, actual_block, actual_offset, context, **kw)
            if res is not None:
                rec.records.append({"block": context.block, "offset": context.offset, "bytes": bytes(res.text_section.data),
                                    "nblocks": len(res.text_section.blocks)})
            return res
        RewritingContext._invoke_patch = wrapped
        return self

    def __exit__(self, *e):
        RewritingContext._invoke_patch = self.real
        return False


def run(shape, edits, target=1):
    """build, register, apply.  returns dict(ir, m, blocks0 (original block objects), view0, recorder, exc)"""
    from . import view as V
    ir, m, bi, blocks, fl = build(shape)
    v0 = V.view(ir, m)
    ctx = RewritingContext(m, fl)
    for e in edits:
        register(ctx, blocks[target], e)
    exc = None
    with PatchRecorder() as rec:
        try:
            ctx.apply()
        except Exception as ex:      # noqa
            exc = ex
    return {"ir": ir, "m": m, "blocks0": blocks, "view0": v0, "records": rec.records, "exc": exc, "shape": shape, "edits": list(edits),
            "target_offset": v0["block_offset"][blocks[target].uuid], "target": blocks[target]}
