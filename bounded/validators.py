"""bounded/validators.py -- independent validators of the listing view, one per property (B back end).
Each returns a list of (clause, detail) problems for one executed scenario."""
import collections
import io

import capstone
import gtirb

from gtirb_rewriting import _auxdata

from . import view as V
from .scen import KINDS, MD, PATCHES

BASE = V.BASE


def label_kinds(m):
    return {s.name: ("end" if s.at_end else "start") for s in m.symbols}


def c01_bytes(run, v1, ed):
    pr = []
    if not ed.complete:
        return [("C01/oracle-incomplete", "patch invocations do not line up with registrations")]
    if not v1["contiguous"]:
        pr.append(("C01/section-contiguous", "text intervals are not contiguous after the rewrite"))
    exp = ed.expected_bytes(run["view0"]["bytes"])
    if v1["bytes"] != exp:
        pr.append(("C01/bytes-are-the-listing-edit", "got %s expected %s" % (v1["bytes"].hex(), exp.hex())))
    return pr


def _slides_into_proxy_deleted(run, bidx):
    whole = {e[4]: e[0] for e in run["edits"] if e[0] in ("del", "delproxy") and e[1] == 0 and e[2] == run["block_sizes0"].get(e[4])}
    if whole.get(bidx) != "del":
        return False
    j = bidx + 1
    while whole.get(j) == "del":
        j += 1
    return whole.get(j) == "delproxy"


def _hits_proxy_deleted(run, bidx):
    whole = {e[4]: e[0] for e in run["edits"] if e[0] in ("del", "delproxy") and e[1] == 0 and e[2] == run["block_sizes0"].get(e[4])}
    j = bidx
    while whole.get(j) == "del":
        j += 1
    return whole.get(j) == "delproxy"


def c02_labels(run, v1, ed):
    pr = []
    v0 = run["view0"]
    kinds0 = run["label_kinds0"]
    for name, p in v0["labels"].items():
        if not isinstance(p, int) or name not in run["label_block0"]:
            continue
        got = v1["labels"].get(name)
        if got is None:
            pr.append(("C02/label-survives", "%s disappeared" % name))
            continue
        if got in ("dangling", "dangling-proxy", "none"):
            pr.append(("C02/no-dangling-referent", "%s -> %s" % (name, got)))
            continue
        bidx = run["label_block0"][name]
        if bidx in run["proxy_deleted"]:
            if got != "proxy":
                pr.append(("C02/retarget_to_proxy-makes-labels-external", "%s at %s" % (name, got)))
            continue
        want = ed.label_pos(p, kinds0[name], bidx)
        if _slides_into_proxy_deleted(run, bidx):
            # the label's own block was deleted (labels slide to the next position) and the block at that next position was
            # deleted with retarget_to_proxy (labels there become external).  Modifications take effect in address order (C09: a batch
            # equals one-at-a-time application in address order), so the label first slides onto that block and then shares the fate
            # of its labels: it becomes a reference to the proxy.  (Until wave 9 either outcome was accepted; that hid seed C02-8.)
            if got != "proxy":
                pr.append(("C02/retarget_to_proxy-makes-labels-external", "%s slid onto a block that was deleted with retarget_to_proxy but is at %s" % (name, got)))
            continue
        if got != want:
            pr.append(("C02/label-designates-the-same-listing-position", "%s (%s label of block %d, was %d) at %s expected %d" % (name, kinds0[name], bidx, p, got, want)))
    # labels defined by patches
    same_pos_before = collections.Counter()
    for (pos, l, pb, pn, i, t) in ed.mods:
        if pn is not None:
            for lab, off in PATCHES[pn][1].items():
                want = ed.out_before(pos) + same_pos_before[pos] + off
                got = v1["labels"].get(lab)
                later_same_pos = sum(len(m_[2]) for m_ in ed.mods[[x[4] for x in ed.mods].index(i) + 1:] if m_[0] == pos)
                if off == len(pb) and later_same_pos and got == want + later_same_pos:
                    continue        # a label at the very END of a patch followed by another insertion at the same position: the
                    #                 statement does not say on which side of the later patch it binds; both are accepted
                if got != want:
                    pr.append(("C02/patch-label-designates-its-position-in-the-patch", "%s at %s expected %d" % (lab, got, want)))
            same_pos_before[pos] += len(pb)
    return pr


def closure_problems(ir, m):
    pr = []
    live = set(m.byte_blocks) | set(m.proxies)
    for e in ir.cfg:
        if e.source not in live:
            pr.append(("C05/cfg-endpoints-in-module", "edge source %r left the module" % (e.source,)))
        if e.target not in live:
            pr.append(("C05/cfg-endpoints-in-module", "edge target %r left the module" % (e.target,)))
    for s in m.symbols:
        if s.referent is not None and s.referent not in live:
            pr.append(("C05/symbol-referents-in-module", "symbol %s refers to a removed block" % s.name))
    for i in m.byte_intervals:
        for k, x in i.symbolic_expressions.items():
            for s in x.symbols:
                if s.module is not m:
                    pr.append(("C05/symexpr-symbols-in-module", "expression at %d uses foreign symbol %s" % (k, s.name)))
    for name, t in m.aux_data.items():
        def walk(x, depth=0):
            if isinstance(x, gtirb.Node):
                if isinstance(x, gtirb.ByteBlock) and x not in live:
                    pr.append(("C05/aux-data-nodes-in-module", "table %s mentions a removed block" % name))
                if isinstance(x, gtirb.ProxyBlock) and x not in live:
                    pr.append(("C05/aux-data-nodes-in-module", "table %s mentions an unregistered proxy" % name))
                if isinstance(x, gtirb.Symbol) and x.module is not m:
                    pr.append(("C05/aux-data-nodes-in-module", "table %s mentions a foreign symbol" % name))
                if isinstance(x, gtirb.ByteInterval) and x.module is not m:
                    pr.append(("C05/aux-data-nodes-in-module", "table %s mentions a removed byte interval" % name))
            elif isinstance(x, gtirb.Offset):
                walk(x.element_id)
            elif isinstance(x, dict) or (hasattr(x, "items") and not isinstance(x, (str, bytes))):
                for k, v in x.items():
                    walk(k)
                    walk(v)
            elif isinstance(x, (list, tuple, set, frozenset)):
                for v in x:
                    walk(v)
        walk(t.data)
    blocks = sorted((b for b in m.byte_blocks), key=lambda b: (b.byte_interval.uuid.int, b.offset))
    for b in m.byte_blocks:
        bi = b.byte_interval
        if b.address is None:
            pr.append(("C05/every-block-has-an-address", "block without address"))
        if not (0 <= b.offset and b.offset + b.size <= bi.size):
            pr.append(("C05/blocks-inside-their-interval", "block %d+%d in interval of size %d" % (b.offset, b.size, bi.size)))
    return pr


def c05_closed(run, v1, ed, allow_zero_sized=()):
    pr = closure_problems(run["ir"], run["m"])
    m = run["m"]
    for b in m.byte_blocks:
        if b.size == 0 and b.section.name == ".text":
            pr.append(("C05/zero-sized-blocks-only-in-documented-cases", "zero-sized block left at %#x" % b.address))
    # serialisable and stable under a protobuf round trip
    try:
        buf = io.BytesIO()
        run["ir"].save_protobuf_file(buf)
        buf.seek(0)
        ir2 = gtirb.IR.load_protobuf_file(buf)
        c1, c2 = V_canon(run["ir"]), V_canon(ir2)
        if c1 != c2:
            pr.append(("C05/protobuf-round-trip-unchanged", "canonical dumps differ after save/load"))
    except Exception as e:
        pr.append(("C05/serialisable", "%s: %s" % (type(e).__name__, str(e)[:100])))
    return pr


def V_canon(ir):
    from .canon import canon
    return canon(ir)


def c03_cfg(run, v1, ed):
    ir, m = run["ir"], run["m"]
    pr = []
    live = set(m.byte_blocks) | set(m.proxies)
    blocks = sorted((b for b in m.code_blocks if b.section.name == ".text"), key=lambda b: (b.address, b.size))
    # output positions where a block deleted with retarget_to_proxy used to start (several blocks may be edited: original
    # positions are mapped to output positions; nothing is inserted at the start of a wholly deleted block)
    proxy_ends = {ed.out_before(run["block_bases"][t]) for t in run["proxy_deleted"]}
    for idx, b in enumerate(blocks):
        insns = list(MD.disasm(bytes(b.contents), b.address))
        if sum(i.size for i in insns) != b.size:
            pr.append(("C03/blocks-decode", "undecodable block at %#x" % b.address))
            continue
        for i in insns[:-1]:
            if i.group(capstone.CS_GRP_JUMP) or i.group(capstone.CS_GRP_CALL) or i.group(capstone.CS_GRP_RET):
                pr.append(("C03/no-control-transfer-buried-mid-block", "%s at %#x" % (i.mnemonic, i.address)))
        last = insns[-1] if insns else None
        out = list(b.outgoing_edges)
        for e in out:
            if e.target not in live:
                pr.append(("C03/no-edge-to-a-removed-block", "from %#x" % b.address))
        # (the conditional flag distinguishes branches only: a fallthrough is a fallthrough whatever flags the input's edge carried)
        kinds = collections.Counter(e.label.type.name + ("_c" if e.label.conditional and e.label.type != gtirb.EdgeType.Fallthrough else "") for e in out)
        nxt = None
        for c in blocks[idx + 1:]:
            if c.address == b.address + b.size:
                nxt = c
                break

        def ft_ok():
            fts = [e for e in out if e.label.type == gtirb.EdgeType.Fallthrough]
            if (b.address + b.size - V.base_of(m)) in proxy_ends:
                # doc/Deletion.md: with retarget_to_proxy the incoming fallthrough is redirected to the new proxy
                return len(fts) == 1 and (isinstance(fts[0].target, gtirb.ProxyBlock) or fts[0].target is nxt)
            if nxt is not None:
                return len(fts) == 1 and fts[0].target is nxt
            # nothing follows (or data follows): falls through to an unknown proxy at most (documented after retarget_to_proxy)
            return all(isinstance(e.target, gtirb.ProxyBlock) for e in fts)
        if last is None:
            continue
        is_ret = last.group(capstone.CS_GRP_RET)
        is_call = last.group(capstone.CS_GRP_CALL)
        is_jmp = last.group(capstone.CS_GRP_JUMP)
        uncond = last.mnemonic == "jmp"
        where = "%s at %#x" % (last.mnemonic, last.address)
        if is_ret:
            if kinds.get("Fallthrough"):
                pr.append(("C03/no-fallthrough-after-ret-or-jmp", where))
            if not kinds.get("Return"):
                pr.append(("C03/ret-has-return-edges", where))
        elif is_jmp and uncond:
            if kinds.get("Fallthrough"):
                pr.append(("C03/no-fallthrough-after-ret-or-jmp", where))
            if kinds.get("Branch", 0) != 1:
                pr.append(("C03/jmp-has-exactly-one-branch-edge", "%s: %s" % (where, dict(kinds))))
        elif is_jmp:
            if kinds.get("Branch_c", 0) != 1:
                pr.append(("C03/jcc-has-a-conditional-branch-edge", "%s: %s" % (where, dict(kinds))))
            if not ft_ok():
                pr.append(("C03/falls-through-to-the-physically-next-block", where))
        elif is_call:
            if kinds.get("Call", 0) != 1:
                pr.append(("C03/call-has-one-call-edge", "%s: %s" % (where, dict(kinds))))
            if not ft_ok():
                pr.append(("C03/falls-through-to-the-physically-next-block", where))
        else:
            if not ft_ok():
                pr.append(("C03/falls-through-to-the-physically-next-block", where))
            if set(kinds) - {"Fallthrough"}:
                pr.append(("C03/ordinary-instruction-has-only-a-fallthrough", "%s: %s" % (where, dict(kinds))))
        # direct branch / call edges lead to the referent of the operand's symbol
        bi = b.byte_interval
        for e in out:
            if e.label.type in (gtirb.EdgeType.Branch, gtirb.EdgeType.Call) and e.label.direct:
                syms = [list(x.symbols)[0] for k, x in bi.symbolic_expressions.items()
                        if b.offset + b.size - last.size <= k < b.offset + b.size and list(x.symbols)]
                if syms and syms[0].referent is not e.target:
                    pr.append(("C03/branch-edge-leads-to-its-target-label", "%s: operand symbol %s" % (where, syms[0].name)))
    # returns of a function lead to the return sites of the calls targeting it (or one unknown proxy)
    fb = _auxdata.function_blocks.get(m) or {}
    fe = _auxdata.function_entries.get(m) or {}
    for u, bs in fb.items():
        entries = set(fe.get(u, ()))
        sites = set()
        for e in ir.cfg:
            if e.label.type == gtirb.EdgeType.Call and e.target in entries and isinstance(e.source, gtirb.CodeBlock):
                for f in e.source.outgoing_edges:
                    if f.label.type == gtirb.EdgeType.Fallthrough:
                        sites.add(f.target)
        proxy_sites = {t for t in sites if isinstance(t, gtirb.ProxyBlock)}
        for b in bs:
            if b not in live:
                continue
            rets = {e.target for e in b.outgoing_edges if e.label.type == gtirb.EdgeType.Return}
            if not rets:
                continue
            real = {t for t in rets if not isinstance(t, gtirb.ProxyBlock)}
            # a call whose return site was deleted with retarget_to_proxy falls through to a proxy: the callee then returns to a proxy
            sites = {t for t in sites if not isinstance(t, gtirb.ProxyBlock)}
            if sites and real != sites:
                pr.append(("C03/returns-lead-to-the-return-sites-of-the-callers", "block %#x returns to %s, call sites %s" % (
                    b.address, sorted(t.address for t in real), sorted(t.address for t in sites if hasattr(t, "address")))))
            if not sites and real:
                pr.append(("C03/returns-lead-to-the-return-sites-of-the-callers", "block %#x returns to code although nothing calls the function" % b.address))
            # "... or to an unknown proxy when there are none": with known return sites (and no call that falls through to a proxy) a
            # return to an unknown proxy is one return too many (the scenario modules start without such mixed returns)
            if sites and not proxy_sites and rets - real:
                pr.append(("C03/returns-lead-to-the-return-sites-of-the-callers", "block %#x returns to its call sites %s AND to an unknown proxy" % (
                    b.address, sorted(t.address for t in real))))
    return pr


def c04_annotations(run, v1, ed):
    pr = []
    v0 = run["view0"]
    for name in ("comments", "padding", "sizes"):
        t0, t1 = v0["ann"][name], v1["ann"][name]
        if v1["ann"][name + "_dangling"]:
            pr.append(("C04/no-annotation-on-removed-nodes", "%s has %d dangling keys" % (name, v1["ann"][name + "_dangling"])))
        if "outside" in t1:
            pr.append(("C04/nothing-points-outside-its-element", "%s %s" % (name, t1["outside"])))
        exp = {}
        for p, vals in t0.items():
            if p == "outside":
                continue
            np_ = ed.newpos(p)
            if np_ is not None:
                exp.setdefault(np_, []).extend(vals)
        got = {k: v for k, v in t1.items() if k != "outside"}
        if name == "sizes":
            # sizes of expressions created by patches are checked with the expressions below
            got = {k: v for k, v in got.items() if k in {ed.newpos(p) for p in t0 if p != "outside"} or k not in run.get("patch_expr_positions", set())}
        exp = {k: sorted(v) for k, v in exp.items()}
        if got != exp and name != "sizes":
            pr.append(("C04/annotations-travel-with-their-byte", "%s got %s expected %s" % (name, sorted(got.items()), sorted(exp.items()))))
        if name == "sizes":
            for k, vv in exp.items():
                if got.get(k) != vv:
                    pr.append(("C04/annotations-travel-with-their-byte", "sizes at %d got %s expected %s" % (k, got.get(k), vv)))
    s0, s1 = v0["ann"]["symexpr"], v1["ann"]["symexpr"]
    if "outside" in s1:
        pr.append(("C04/nothing-points-outside-its-element", "symbolic expression at %s" % (s1["outside"],)))
    exp = {}
    for p, e in s0.items():
        np_ = ed.newpos(p) if p != "outside" else None
        if np_ is not None:
            exp[np_] = e
    # expressions created by patches
    same_pos_before = collections.Counter()
    created = {}
    for (pos, l, pb, pn, i, t) in ed.mods:
        if pn is not None:
            start = ed.out_before(pos) + same_pos_before[pos]
            if pn in ("jmpL2", "jcc", "jmplab"):
                created[start + 1] = ("SymAddrConst", ("L2",), 0)
            elif pn == "callg":
                created[start + 1] = ("SymAddrConst", ("g",), 0)
            elif pn == "embdata":
                created[start + 1] = ("SymAddrConst", ("PD",), 0)
            elif pn == "twocalls":
                created[start + 1] = ("SymAddrConst", ("g",), 0)
                created[start + 7] = ("SymAddrConst", ("g",), 0)
            elif pn == "symexpr":
                created[start + 3] = ("SymAddrConst", ("L2",), 0)
            elif pn == "symexprimm":
                created[start + 2] = ("SymAddrConst", ("L2",), 0)       # 83 05 <disp32> <imm8>
            elif pn == "symexprimm4":
                created[start + 3] = ("SymAddrConst", ("L2",), 0)       # 48 c7 05 <disp32> <imm32>
            elif pn == "symexpradd":
                created[start + 3] = ("SymAddrConst", ("L2",), 4)       # 48 8d 05 <disp32>, addend 4
            same_pos_before[pos] += len(pb)
    for k, (ty, syms, off) in created.items():
        g = s1.get(k)
        if g is None or g[0] != ty or g[1] != syms or g[2] != off or not g[4]:
            pr.append(("C04/patch-expression-at-its-offset-with-module-symbol", "at %d got %s expected %s %s+%d" % (k, g, ty, syms, off)))
        else:
            # its recorded size
            if v1["ann"]["sizes"] or v0["ann"]["sizes"]:
                pass
    got = {k: v for k, v in s1.items() if k != "outside" and k not in created}
    if got != exp:
        pr.append(("C04/symbolic-expressions-travel-with-their-byte", "got %s expected %s" % (sorted(got.items()), sorted(exp.items()))))
    names = collections.Counter(s.name for s in run["m"].symbols)
    dup = [n for n, c in names.items() if c > 1]
    if dup:
        pr.append(("C04/no-duplicate-symbols", "names defined twice: %s" % dup))
    return pr


def c06_functions(run, v1, ed):
    pr = [("C06/" + p.replace(" ", "-"), p) for p in v1["func_problems"]]
    v0 = run["view0"]
    if not v0["has_functions"]:
        return pr
    n0 = len(v0["bytes"])
    for p in range(n0):
        if p not in v0["func_of"]:
            continue
        np_ = ed.newpos(p)
        if np_ is None:
            continue
        if v1["func_of"].get(np_) != v0["func_of"][p]:
            pr.append(("C06/surviving-instruction-keeps-its-function", "byte %d (now %d): %s -> %s" % (p, np_, v0["func_of"][p], v1["func_of"].get(np_))))
    same_pos_before = collections.Counter()
    for (pos, l, pb, pn, i, t) in ed.mods:
        start = ed.out_before(pos) + same_pos_before[pos]
        tfunc = v0["func_of"].get(run["block_bases"][t])
        for k in range(len(pb)):
            if pn == "embdata" and k in (2, 3):
                if v1["func_of"].get(start + k) is not None:
                    pr.append(("C06/data-never-belongs-to-a-function", "data byte %d of the patch is in %s" % (start + k, v1["func_of"].get(start + k))))
                continue
            if v1["func_of"].get(start + k) != tfunc:
                pr.append(("C06/inserted-code-belongs-to-the-function-of-its-block", "inserted byte %d in %s, block's function %s" % (start + k, v1["func_of"].get(start + k), tfunc)))
                break
        same_pos_before[pos] += len(pb)
    # entries: a function's entry stays at the position of its first surviving byte
    for fname, ents in v0["func_entries"].items():
        exp_e = sorted({ed.label_pos(e, "start", run["block_index_at"].get(e, 0)) for e in ents})
        got = v1["func_entries"].get(fname)
        whole = all(ed.deleted(p) for p in range(n0) if v0["func_of"].get(p) == fname)
        if whole:
            if got is not None:
                pr.append(("C06/function-without-blocks-disappears", "%s still has entries %s" % (fname, got)))
            continue
        if not got and any(_hits_proxy_deleted(run, run["block_index_at"].get(e, 0)) for e in ents):
            # the entry block (or the block the entry role slid to) was deleted with retarget_to_proxy: its symbols and incoming
            # control flow become external (doc/Deletion.md) and the statement does not ask for a promotion in that case
            continue
        if got != exp_e:
            pr.append(("C06/entries-follow-the-code", "%s entries %s expected %s" % (fname, got, exp_e)))
    return pr


def c08_cfi(run, v1, ed):
    pr = []
    v0 = run["view0"]
    if v0["cfi_error"]:
        return []
    if v1["cfi_error"]:
        return [("C08/directives-still-evaluate-cleanly", v1["cfi_error"])]
    c0, c1 = v0["cfi"], v1["cfi"]
    n0 = len(v0["bytes"])
    nothing_deleted = all(l == 0 for (_, l, _, _, _, _) in ed.mods)
    for p in range(n0):
        np_ = ed.newpos(p)
        if np_ is None:
            continue
        a, b = c0[p], c1[np_]
        if (a is None) != (b is None):
            pr.append(("C08/instruction-inside-a-procedure-iff-it-was", "byte %d (now %d)" % (p, np_)))
        elif nothing_deleted and a != b:
            pr.append(("C08/unwind-state-unchanged-when-nothing-is-deleted", "byte %d (now %d): %s -> %s" % (p, np_, a, b)))
    k0, k1 = v0["cfi_counts"], v1["cfi_counts"]
    # a procedure whose start and end both lie inside one deleted range lost all its instructions: it may disappear as
    # a whole (balanced); every other startproc/endproc/remember/restore must survive
    droppable = collections.Counter()
    for (s_, e_, inner) in run.get("procedures", []):
        if s_ < e_ and all(ed.deleted(p) for p in range(s_, e_)):
            droppable[".cfi_startproc"] += 1
            droppable[".cfi_endproc"] += 1
            for d in inner:
                droppable[d] += 1
    # what the patches themselves bring (a patch inserted outside every procedure loses its directives: between 0 and all of them)
    from . import scen as _scen
    brought = collections.Counter()
    for (pos, l, pb, pn, i, t) in ed.mods:
        if pn is not None:
            for line in _scen.PATCHES[pn][0].split("\n"):
                if line.startswith(".cfi_"):
                    brought[line.split()[0]] += 1
    for d in (".cfi_startproc", ".cfi_endproc", ".cfi_remember_state", ".cfi_restore_state"):
        lo_, hi_ = k0.get(d, 0) - droppable.get(d, 0), k0.get(d, 0) + brought.get(d, 0)
        if not (lo_ <= k1.get(d, 0) <= hi_) or (droppable and k1.get(".cfi_startproc", 0) != k1.get(".cfi_endproc", 0)):
            pr.append(("C08/procedure-structure-directives-never-dropped", "%s: %d -> %d" % (d, k0.get(d, 0), k1.get(d, 0))))
    same_pos_before = collections.Counter()
    label_directive_tail = {}       # position -> an earlier patch there ends in 'label: <CFI directive>'
    for (pos, l, pb, pn, i, t) in ed.mods:
        if pn is None:
            continue
        start = ed.out_before(pos) + same_pos_before[pos]
        same_pos_before[pos] += len(pb)
        after_tail = label_directive_tail.get(pos, False)
        _lines = _scen.PATCHES[pn][0].split("\n")
        if len(_lines) >= 2 and _lines[-1].startswith(".cfi_") and _lines[-2].endswith(":"):
            label_directive_tail[pos] = True
        # inside iff the insertion point was inside a procedure: state just before pos, or at pos, is a procedure state;
        # an insertion at the very end of a procedure (position of its .cfi_endproc) is covered as well
        # code inserted at the END of the block that carries the .cfi_endproc (same position) is placed before the directive and
        # is covered; code inserted at offset 0 of the NEXT block at that position comes after it and is not
        at_block_end = (pos - run["block_bases"][t]) == run["block_sizes0"][t] and run["block_sizes0"][t] > 0
        at_endproc = bool(run.get("endproc_positions", set()) & {pos}) and at_block_end
        at_block_start_after_endproc = bool(run.get("endproc_positions", set()) & {pos}) and not at_block_end
        inside = (pos > 0 and c0.get(pos - 1) is not None and (c0.get(pos) is not None or at_endproc) and not at_block_start_after_endproc) or \
                 (c0.get(pos) is not None and pos not in run.get("startproc_positions", set()) and not at_block_start_after_endproc)
        if inside:
            for k in range(len(pb)):
                if c1.get(start + k) is None:
                    pr.append(("C08/inserted-code-covered-by-the-enclosing-procedure", "patch %s at %d: byte %d outside" % (pn, pos, start + k)))
                    break
            if pn == "cfidup" and len(pb) == 4 and all(c1.get(start + j) is not None for j in (0, 2)) and c1.get(start + 4) is not None:
                import re as _re
                offs = [_re.search(r"offset=(-?\d+)", c1[start + j][0]) for j in (0, 2, 4)]
                if all(offs):
                    o0, o2, o4 = (int(x.group(1)) for x in offs)
                    if o2 - o0 != 16 or o4 != o0:
                        pr.append(("C08/patch-directives-take-effect-inside-a-procedure", "patch at %d: CFA offset %d before, %d after two adjustments of 8, %d after the patch%s" % (
                            pos, o0, o2, o4, " [registered after a patch at the same position whose text ends in 'label: CFI directive']" if after_tail else "")))
            if pn == "cfi" and len(pb) >= 2 and c1.get(start) is not None and c1.get(start + 1) is not None:
                s0, s1 = c1[start], c1[start + 1]
                if s0[0] == s1[0]:
                    pr.append(("C08/patch-directives-take-effect-inside-a-procedure", "patch at %d: CFA rule did not change after the first instruction" % pos))
    return pr
