"""bounded/view.py -- the 'assembly listing' view of a module (independent of gtirb-rewriting's bookkeeping) and the
oracle computing the view the property statements demand after a set of listing edits."""
import collections

import capstone
import gtirb

from gtirb_rewriting import _auxdata
from gtirb_rewriting.dwarf.cfi_eval import evaluate_cfi_directives

from .scen import MD, PATCHES

BASE = 0x1000


def base_of(m):
    """lowest address of the text section: a rewrite that adds content to ANOTHER section makes the final layout move every section, so
    positions are taken relative to where the text section now starts (BASE for every module that was not moved)"""
    sec = [s_ for s_ in m.sections if s_.name == ".text"]
    addrs = [i.address for s_ in sec for i in s_.byte_intervals if i.address is not None]
    return min(addrs) if addrs else BASE


def text_intervals(m):
    sec = [s for s in m.sections if s.name == ".text"][0]
    return sorted(sec.byte_intervals, key=lambda i: (i.address, i.size))


def view(ir, m):
    v = {}
    ivs = text_intervals(m)
    data = bytearray()
    contiguous = True
    pos = base_of(m)
    for i in ivs:
        if i.address != pos:
            contiguous = False
        data += bytes(i.contents[: i.size])
        pos = i.address + i.size
    v["bytes"] = bytes(data)
    v["contiguous"] = contiguous
    live = set(m.byte_blocks) | set(m.proxies)
    labels = {}
    for s in m.symbols:
        r = s.referent
        if r is None:
            labels[s.name] = "none"
        elif isinstance(r, gtirb.ProxyBlock):
            labels[s.name] = "proxy" if r in live else "dangling-proxy"
        elif r not in live or r.address is None:
            labels[s.name] = "dangling"
        else:
            labels[s.name] = r.address + (r.size if s.at_end else 0) - base_of(m)
    v["labels"] = labels
    v["block_offset"] = {b.uuid: b.address - base_of(m) for b in m.byte_blocks if b.address is not None}
    v["blocks"] = sorted((b.address - base_of(m), b.size, "code" if isinstance(b, gtirb.CodeBlock) else "data") for b in m.byte_blocks
                         if b.address is not None and b.section.name == ".text")
    # annotations, absolute
    ann = {}
    for name, tdef in (("comments", _auxdata.comments), ("padding", _auxdata.padding), ("sizes", _auxdata.symbolic_expression_sizes)):
        t = tdef.get(m) or {}
        out = collections.defaultdict(list)
        dangling = 0
        for k, val in t.items():
            e = k.element_id
            alive = (e in live) or (isinstance(e, gtirb.ByteInterval) and e.module is m)
            if not alive or getattr(e, "address", None) is None:
                dangling += 1
                continue
            if getattr(e, "section", None) is not None and e.section.name != ".text":
                continue
            size = e.size
            out[e.address + k.displacement - base_of(m)].append(val)
            if not (0 <= k.displacement <= size):
                out["outside"].append((k.displacement, size))
        ann[name] = {k: sorted(map(str, x)) for k, x in out.items()}
        ann[name + "_dangling"] = dangling
    sx = {}
    for i in ivs:
        for k, e in i.symbolic_expressions.items():
            syms = [s.name for s in e.symbols]
            sx[i.address + k - base_of(m)] = (type(e).__name__, tuple(syms), getattr(e, "offset", None), tuple(sorted(a.name for a in e.attributes)),
                                       all(s.module is m for s in e.symbols))
            if not (0 <= k < i.size):
                sx["outside"] = (k, i.size)
    ann["symexpr"] = sx
    v["ann"] = ann
    # function of every code byte
    fb = _auxdata.function_blocks.get(m) or {}
    fn = _auxdata.function_names.get(m) or {}
    fe = _auxdata.function_entries.get(m) or {}
    owner = {}
    problems = []
    for u, bs in fb.items():
        for b in bs:
            if b in owner:
                problems.append("block in two functions")
            owner[b] = fn[u].name if u in fn else str(u)
            if b not in live:
                problems.append("functionBlocks mentions a removed block")
    for u, es in fe.items():
        if not set(es) <= set(fb.get(u, ())):
            problems.append("entries not a subset of blocks")
    for u in set(fb) | set(fe) | set(fn):
        if not (u in fb and u in fe and u in fn) or not fb.get(u):
            problems.append("function tables disagree about %s" % (fn[u].name if u in fn else u))
    fo = {}
    for b in m.code_blocks:
        if b.address is None or b.section.name != ".text":
            continue
        for a in range(b.address, b.address + b.size):
            fo[a - base_of(m)] = owner.get(b)
    v["func_of"] = fo
    v["func_entries"] = {fn[u].name: sorted(b.address - base_of(m) for b in es if b.address is not None) for u, es in fe.items() if u in fn}
    v["func_problems"] = problems
    v["has_functions"] = bool(fb)
    # CFI state in force at each byte
    try:
        ev = []
        for blk, off, st in evaluate_cfi_directives(m, [b for b in m.code_blocks if b.section.name == ".text"]):
            ev.append((blk.address + off - base_of(m), None if st is None else (repr(st.current.cfa), tuple(sorted((k, repr(x)) for k, x in st.current.registers.items())), len(st.save_stack))))
        cfi = {}
        for a in range(len(data) + 1):
            cur, seen = None, False
            for (p, st) in ev:
                if p <= a:
                    cur, seen = st, True
            cfi[a] = cur if seen else None
        v["cfi"] = cfi
        v["cfi_error"] = None
        ct = _auxdata.cfi_directives.get(m) or {}
        v["cfi_counts"] = collections.Counter(d[0] for ds in ct.values() for d in ds)
    except Exception as e:
        v["cfi"], v["cfi_error"], v["cfi_counts"] = None, "%s: %s" % (type(e).__name__, e), None
    return v


def inst_cfg(ir, m):
    """the CFG flattened to instructions: (address of instruction, successor address | 'proxy', edge type, conditional);
    two block partitions of the same listing with equivalent control flow flatten to the same set"""
    out = set()
    for b in m.code_blocks:
        if b.address is None or b.section.name != ".text" or b.size == 0:
            continue
        insns = list(MD.disasm(bytes(b.contents), b.address))
        for i, nxt in zip(insns, insns[1:]):
            out.add((i.address - base_of(m), nxt.address - base_of(m), "Fallthrough", False))
        if not insns:
            continue
        last = insns[-1].address - base_of(m)
        for e in b.outgoing_edges:
            t = e.target
            # an edge to an empty block continues with that block's own successors: not expected in final modules
            tgt = "proxy" if isinstance(t, gtirb.ProxyBlock) else (t.address - base_of(m) if t.address is not None else "noaddr")
            out.add((last, tgt, e.label.type.name, bool(e.label.conditional)))
    return out


def listing(ir, m):
    """partition-independent description of a module's text section (for comparing two rewrites of the same input)"""
    v = view(ir, m)
    return {"bytes": v["bytes"].hex(), "labels": v["labels"], "ann": v["ann"], "func_of": v["func_of"], "func_entries": v["func_entries"],
            "cfi": v["cfi"], "inst_cfg": sorted(inst_cfg(ir, m), key=repr)}


# ------------------------------------------------------------------------------------------------ the listing-edit oracle
class Edits:
    """modifications (possibly of several blocks), positions relative to the section start.
    run["edits"]: tuples (op, offset, length, patch name[, target block index]); run["block_bases"]: index -> original offset"""

    def __init__(self, run):
        recs = list(run["records"])
        bases = run["block_bases"]
        self.mods = []          # (pos, del_len, patch_bytes, name, registration index, target index)
        edits = [tuple(e) + ((run.get("default_target", 1),) if len(e) == 4 else ()) for e in run["edits"]]
        self.edits = edits
        # application order: blocks in address order, then offset, then registration order
        order = sorted(range(len(edits)), key=lambda i: (bases[edits[i][4]], edits[i][1], i))
        byidx = {}
        ri = 0
        for i in order:
            op, o, l, pn, t = edits[i]
            if pn is not None:
                byidx[i] = recs[ri]["bytes"] if ri < len(recs) else None
                ri += 1
        self.complete = ri == len(recs) and all(x is not None for x in byidx.values())
        for i in order:
            op, o, l, pn, t = edits[i]
            self.mods.append((bases[t] + o, l, byidx.get(i, b"") or b"", pn, i, t))

    def out_before(self, p):
        """number of output bytes produced by everything strictly before original position p"""
        n = p
        for (pos, l, pb, pn, i, t) in self.mods:
            if pos < p:
                n += len(pb) - min(l, p - pos)
        return n

    def inserted_at(self, p, pred=lambda t: True):
        return sum(len(pb) for (pos, l, pb, pn, i, t) in self.mods if pos == p and pred(t))

    def deleted(self, p):
        return any(pos <= p < pos + l for (pos, l, pb, pn, i, t) in self.mods)

    def lo(self, p):
        return self.out_before(p)

    def hi(self, p):
        return self.out_before(p) + self.inserted_at(p)

    def label_pos(self, p, kind, block_index):
        """a start label of block i at p: after the code inserted at the END of earlier blocks (same position), before code
        inserted at offset 0 of its own block; an end label of block i: after everything inserted at the end of block i"""
        if kind == "start":
            return self.out_before(p) + self.inserted_at(p, lambda t: t < block_index)
        return self.out_before(p) + self.inserted_at(p, lambda t: t <= block_index)

    def newpos(self, p):
        """new position of the surviving original byte p"""
        return None if self.deleted(p) else self.out_before(p) + self.inserted_at(p)

    def patch_start(self, reg_index):
        """output position where the patch of registration `reg_index` starts"""
        before = 0
        for (pos, l, pb, pn, i, t) in self.mods:
            if i == reg_index:
                return self.out_before(pos) + before
            # earlier mods at the same position precede it (mods are in application order)
            tgt = [m for m in self.mods if m[4] == reg_index][0]
            if pos == tgt[0]:
                before += len(pb)
        return None

    def expected_bytes(self, orig):
        out = bytearray()
        pos = 0
        for (p, l, pb, pn, i, t) in self.mods:
            out += orig[pos:p]
            out += pb
            pos = p + l
        out += orig[pos:]
        return bytes(out)
