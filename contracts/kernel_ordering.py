"""Heap kernel, part 7: _adt.block_ordering.BlockOrdering and _adt.linked_list.LinkedListNode (carry C09's "neighbouring blocks" clause).

Data structure against an abstract view.  view(ordering) = a set of disjoint sequences of blocks (chains); it is read off the REAL
object through its only query, adjacent_blocks, for every block the model says is ordered, in both directions, and has to equal the
model exactly (so a stale link to a removed block, a lost link, a block that is still known after its removal all show).  Contracts:

  remove_block(b)                 requires b ordered      ensures view' = view with b deleted from its chain (the chain closes up);
                                                                  b is no longer known (adjacent_blocks raises KeyError)
  insert_blocks_after(a, bs)      requires a ordered, bs fresh and distinct
                                                          ensures view' = view with bs spliced in right after a, in order
  add_detached_blocks(bs)         requires bs fresh       ensures view' = view + the new chain bs
  insert_* with a block that is already ordered           raises ValueError and view' = view
  adjacent_blocks(b)              pure                    ensures result = (predecessor, successor) of b in its chain
  LinkedListNode.unlink / insert_node_after               the same on bare nodes, read through .prev / .next

E family: the operations only ever look at the node of the named block and at the nodes one link away from it (entry.prev, entry.next
and their link fields), so their behaviour is a function of: does the node have a predecessor, a successor, and how many blocks are
inserted (0, 1, several).  The universe is a chain of 1..5 blocks x every position in it x 0..3 inserted blocks, next to a second
chain that nobody touches (the frame: everything not named by the operation keeps its neighbours); then every two-operation history
over chains of 1..3 blocks and 0..2 inserted blocks, so that the state one operation leaves is a state the next one accepts.
"""
import itertools

import gtirb
import z3

from gtirb_rewriting._adt.block_ordering import BlockOrdering
from gtirb_rewriting._adt.linked_list import LinkedListNode

from pyvc.run import Job


def _blk():
    return gtirb.CodeBlock(size=1)


def view_problems(order, chains, gone=()):
    """compare the real ordering with the model (list of lists); returns a list of discrepancies"""
    bad = []
    for ch in chains:
        for i, b in enumerate(ch):
            want = (ch[i - 1] if i > 0 else None, ch[i + 1] if i + 1 < len(ch) else None)
            try:
                got = order.adjacent_blocks(b)
            except KeyError:
                bad.append("block %d of a chain of %d is not known to the ordering" % (i, len(ch)))
                continue
            if got[0] is not want[0]:
                bad.append("predecessor of block %d of a chain of %d is %s" % (i, len(ch), _name(got[0], chains, gone)))
            if got[1] is not want[1]:
                bad.append("successor of block %d of a chain of %d is %s" % (i, len(ch), _name(got[1], chains, gone)))
    for g in gone:
        try:
            order.adjacent_blocks(g)
            bad.append("a removed block is still known to the ordering")
        except KeyError:
            pass
    return bad


def _name(x, chains, gone):
    if x is None:
        return "None"
    for g in gone:
        if x is g:
            return "a removed block"
    for ci, ch in enumerate(chains):
        for i, b in enumerate(ch):
            if b is x:
                return "block %d of chain %d" % (i, ci)
    return "an unknown block"


def _universe(ctx, maxlen=5):
    n = 1 + ctx.choose(maxlen, "chain-length")
    order = BlockOrdering()
    a = [_blk() for _ in range(n)]
    frame = [_blk(), _blk()]
    # built through the public operations themselves, in one of two ways (all at once / one by one after the first)
    if ctx.choose(2, "built-one-by-one"):
        order.add_detached_blocks([a[0]])
        for i in range(1, n):
            order.insert_blocks_after(a[i - 1], [a[i]])
    else:
        order.add_detached_blocks(a)
    order.add_detached_blocks(frame)
    return order, [a, frame]


OPS = ("remove", "insert-after", "add-detached", "insert-already-ordered")


def _apply_op(ctx, order, chains, gone, tag, maxins=4):
    """one demonic operation on chain 0 (chains[-1] or chains[1] is the frame); updates the model; returns problems of the operation itself"""
    a = chains[0]
    op = OPS[ctx.choose(len(OPS), tag + "operation")]
    bad = []
    if op == "remove":
        if not a:
            return bad
        i = ctx.choose(len(a), tag + "position")
        b = a[i]
        order.remove_block(b)
        del a[i]
        gone.append(b)
    elif op == "insert-after":
        if not a:
            return bad
        i = ctx.choose(len(a), tag + "position")
        k = ctx.choose(maxins, tag + "inserted-blocks")
        new = [_blk() for _ in range(k)]
        order.insert_blocks_after(a[i], new)
        a[i + 1:i + 1] = new
    elif op == "add-detached":
        k = ctx.choose(maxins, tag + "inserted-blocks")
        new = [_blk() for _ in range(k)]
        order.add_detached_blocks(new)
        if new:
            chains.append(new)
    else:
        if not a:
            return bad
        i = ctx.choose(len(a), tag + "position")
        j = ctx.choose(len(a), tag + "already-ordered-block")
        try:
            order.insert_blocks_after(a[i], [_blk(), a[j]])
            bad.append("inserting a block that is already ordered did not raise")
        except ValueError:
            pass
    return bad


def single_op_harness(ctx):
    order, chains = _universe(ctx)
    gone = []
    pre = view_problems(order, chains)
    ctx.prove("BlockOrdering/construction/view-is-the-chains-that-were-added", z3.BoolVal(not pre), note="; ".join(pre[:2]))
    bad = _apply_op(ctx, order, chains, gone, "")
    ctx.cover("enumerated")
    bad += view_problems(order, chains, gone)
    ctx.prove("BlockOrdering/view-after-the-operation-is-the-model-list-operation-and-the-rest-is-unchanged", z3.BoolVal(not bad), note="; ".join(bad[:2]))


def history_harness(ctx):
    order, chains = _universe(ctx, 3)
    gone = []
    bad = _apply_op(ctx, order, chains, gone, "first-", 3)
    bad += view_problems(order, chains, gone)
    bad2 = _apply_op(ctx, order, chains, gone, "second-", 3)
    ctx.cover("enumerated")
    bad2 += view_problems(order, chains, gone)
    ctx.prove("BlockOrdering/history/view-after-two-operations-is-the-model", z3.BoolVal(not bad and not bad2), note="; ".join((bad + bad2)[:2]))


def node_harness(ctx):
    """LinkedListNode on bare nodes: a chain of n nodes, unlink / insert_node_after at every position, read through .prev/.next"""
    n = 1 + ctx.choose(4, "chain-length")
    nodes = [LinkedListNode(i) for i in range(n)]
    for i in range(1, n):
        nodes[i - 1].insert_node_after(nodes[i])
    i = ctx.choose(n, "position")
    model = list(nodes)
    op = ctx.choose(3, "operation")
    loose = None
    bad = []
    if op == 0:
        loose = nodes[i]
        nodes[i].unlink()
        del model[i]
    elif op == 1:
        x = LinkedListNode("new")
        nodes[i].insert_node_after(x)
        model.insert(i + 1, x)
    else:
        if n >= 2:
            j = (i + 1) % n
            try:
                nodes[i].insert_node_after(nodes[j])
                bad.append("inserting a node that is part of a list did not raise")
            except ValueError:
                pass
    ctx.cover("enumerated")
    for k, nd in enumerate(model):
        if nd.prev is not (model[k - 1] if k else None) or nd.next is not (model[k + 1] if k + 1 < len(model) else None):
            bad.append("node %d of %d has wrong links" % (k, len(model)))
    if loose is not None and (loose.prev is not None or loose.next is not None):
        bad.append("the unlinked node keeps a link")
    ctx.prove("LinkedListNode/links-after-the-operation-are-those-of-the-model-list", z3.BoolVal(not bad), note="; ".join(bad[:2]))


def jobs(tier="quick", seed=0):
    P = "gtirb_rewriting._adt.block_ordering:BlockOrdering."
    yield Job("K/ordering/single-operation", single_op_harness, kind="E", func=P + "remove_block/insert_blocks_after/add_detached_blocks/adjacent_blocks", expect_cover=("enumerated",))
    yield Job("K/ordering/two-operation-histories", history_harness, kind="E", func=P + "* (histories)", expect_cover=("enumerated",))
    yield Job("K/ordering/linked-list-node", node_harness, kind="E", func="gtirb_rewriting._adt.linked_list:LinkedListNode.unlink/insert_node_after", expect_cover=("enumerated",))
