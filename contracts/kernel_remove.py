"""Heap kernel, part 5: _modify.remove:remove_block (carries C02 labels, C03 edges, C05 closure / zero-sized blocks, C06, C08).

E (exhaustive finite case splits on the REAL function, real gtirb objects, the real ModifyCache).  The contract is stated from the
properties and doc/Deletion.md, not from the code.  The block under removal sits between an optional previous and an optional
next block (each absent / code / data); the dimensions are explored in FOUR factored families (each family fixes the other
dimensions at a neutral value -- pairwise interactions across families are not explored here; the bounded apply-level runs cover
combinations):

  labels    kind x prev x next x retarget_to_proxy x labels {none, start, end, both}
  edges     code; prev x next x proxy x incoming {none, fallthrough, branch, both} x outgoing {fallthrough, jmp, ret, call, none}
  cfi       code; prev x next x proxy x six directive layouts
  special   code; next x proxy x {module entry point, DT_INIT, DT_FINI, safe SEH handler, alignment + per-block tables}

Contract:
  kept (returns False)  => only in a documented case (doc/Deletion.md): labels with no other block to move them to; incoming
                           control flow with no following code block; structural CFI with no neighbouring code block; an entry
                           point with no following code block -- and never when retarget_to_proxy could have taken them, except
                           for CFI.  The block is then empty, still in the module, falls through to a registered proxy, keeps its
                           labels and its structural CFI.
  removed (returns True) => the block left its interval and the ordering; every label has a home at the same listing position:
                           the new proxy / the start of the next block / the end of the previous block; incoming edges lead to the
                           proxy / the next code block / a registered proxy (fallthroughs with no code behind); no edge touches
                           the block; a call's callee returns per the RET invariant; structural CFI (startproc, endproc,
                           remember/restore, the rules at a startproc) moves in order to the next code block's offset 0 (before its
                           own) or the previous code block's end (after its own) and everything else is dropped (a procedure that
                           lies wholly inside the block may disappear as a whole); entry points move to the next code block or
                           are cleared; no aux table mentions the block.
"""
import importlib

import gtirb
import z3
from gtirb_test_helpers import add_code_block, add_data_block, add_edge, add_function, add_proxy_block, add_symbol, add_text_section, create_test_module

import gtirb_functions
from gtirb_rewriting import _auxdata
from gtirb_rewriting._auxdata import NULL_UUID
from gtirb_rewriting._modify import make_modify_cache

from pyvc.run import Job

RM = importlib.import_module("gtirb_rewriting._modify.remove")
ET = gtirb.EdgeType
D = lambda name, *args: (name, list(args), NULL_UUID)
START, END, REM, RES = D(".cfi_startproc"), D(".cfi_endproc"), D(".cfi_remember_state"), D(".cfi_restore_state")
CFA, ADJ, UND = D(".cfi_def_cfa", 7, 8), D(".cfi_adjust_cfa_offset", 8), D(".cfi_undefined", 3)
NEIGH = ["none", "code", "data"]


def build(kind, prev_k, next_k):
    ir, m = create_test_module(gtirb.Module.FileFormat.ELF, gtirb.Module.ISA.X64)
    _, bi = add_text_section(m, address=0x1000)
    mk = {"code": add_code_block, "data": add_data_block}
    prev = mk[prev_k](bi, b"\x90\x90") if prev_k != "none" else None
    blk = mk[kind](bi, b"\x90\x90\x90")
    nxt = mk[next_k](bi, b"\x90\xc3") if next_k != "none" else None
    _, obi = add_text_section(m, address=0x3000)          # helpers live in another section / interval
    other = add_code_block(obi, b"\xeb\x00")
    callee = add_code_block(obi, b"\xc3")
    return dict(ir=ir, m=m, bi=bi, prev=prev, blk=blk, nxt=nxt, other=other, callee=callee)


def common_post(ctx, H, cache, removed, tag):
    m, blk, prev, nxt = H["m"], H["blk"], H["prev"], H["nxt"]
    if removed:
        adj_ok = True
        if prev is not None:
            adj_ok = adj_ok and cache.adjacent_blocks(prev)[1] is nxt
        if nxt is not None:
            adj_ok = adj_ok and cache.adjacent_blocks(nxt)[0] is prev
        ctx.prove(tag + "/removed-block-left-its-interval-and-the-ordering", z3.BoolVal(blk.byte_interval is None and bool(adj_ok)))
        ctx.prove(tag + "/no-edge-touches-the-removed-block", z3.BoolVal(not any(e.source is blk or e.target is blk for e in H["ir"].cfg)))
    else:
        fts = [e for e in blk.outgoing_edges] if isinstance(blk, gtirb.CodeBlock) else []
        ok = blk.size == 0 and blk.byte_interval is H["bi"]
        if isinstance(blk, gtirb.CodeBlock):
            ok = ok and len(fts) == 1 and fts[0].label.type == ET.Fallthrough and isinstance(fts[0].target, gtirb.ProxyBlock) and fts[0].target in m.proxies
        ctx.prove(tag + "/a-kept-block-is-empty-stays-in-the-module-and-falls-through-to-a-registered-proxy", z3.BoolVal(bool(ok)))


def labels_harness(ctx):
    kind = ["code", "data"][ctx.choose(2, "kind")]
    prev_k, next_k = NEIGH[ctx.choose(3, "previous-block")], NEIGH[ctx.choose(3, "next-block")]
    proxy = bool(ctx.choose(2, "retarget_to_proxy"))
    labs = [(), ("start",), ("end",), ("start", "end")][ctx.choose(4, "labels")]
    H = build(kind, prev_k, next_k)
    m, blk, prev, nxt = H["m"], H["blk"], H["prev"], H["nxt"]
    syms = {}
    if "start" in labs:
        syms["S"] = add_symbol(m, "S", blk)
    if "end" in labs:
        syms["E"] = add_symbol(m, "E", blk)
        syms["E"].at_end = True
    if prev is not None:
        add_symbol(m, "P", prev)
    proxies0 = set(m.proxies)
    with make_modify_cache(m, []) as cache:
        removed = RM.remove_block(cache, blk, proxy)
        refs = {n: (cache.reference_cache.get_referent(s), s.at_end) for n, s in syms.items()}
        ctx.cover("removed" if removed else "kept")
        tag = "remove_block/labels"
        common_post(ctx, H, cache, removed, tag)
        if not removed:
            ctx.prove(tag + "/kept-only-in-a-documented-case", z3.BoolVal(bool(labs) and prev is None and nxt is None and not proxy),
                      note="labels with no other block of the section to move them to")
            ctx.prove(tag + "/a-kept-block-keeps-its-labels", z3.BoolVal(all(r is blk for r, _ in refs.values())))
            return
        bad = []
        for n, (r, at_end) in refs.items():
            if proxy:
                ok = isinstance(r, gtirb.ProxyBlock) and r in m.proxies and r not in proxies0
            elif nxt is not None:
                ok = r is nxt and not at_end
            elif prev is not None:
                ok = r is prev and at_end
            else:
                ok = False
            if not ok:
                bad.append("%s -> %s%s" % (n, type(r).__name__, " at_end" if at_end else ""))
        ctx.prove(tag + "/every-label-slides-to-the-same-listing-position-or-becomes-external", z3.BoolVal(not bad), note="; ".join(bad))
        ctx.prove(tag + "/one-registered-proxy-for-all-of-them", z3.BoolVal(len({id(r) for r, _ in refs.values()}) <= 1 and all(r.module is m for r, _ in refs.values())))


def edges_harness(ctx):
    prev_k, next_k = NEIGH[ctx.choose(3, "previous-block")], NEIGH[ctx.choose(3, "next-block")]
    proxy = bool(ctx.choose(2, "retarget_to_proxy"))
    inc = ["none", "fallthrough", "branch", "both"][ctx.choose(4, "incoming")]
    outk = ["fallthrough", "jmp", "ret", "call", "none", "self-call"][ctx.choose(6, "outgoing")]
    if inc in ("fallthrough", "both") and prev_k != "code":
        return
    if outk in ("fallthrough", "call", "self-call") and next_k != "code":
        return
    H = build("code", prev_k, next_k)
    ir, m, blk, prev, nxt, other, callee = H["ir"], H["m"], H["blk"], H["prev"], H["nxt"], H["other"], H["callee"]
    cfg = ir.cfg
    if inc in ("fallthrough", "both"):
        add_edge(cfg, prev, blk, ET.Fallthrough)
    if inc in ("branch", "both"):
        add_edge(cfg, other, blk, ET.Branch)
    if outk == "fallthrough":
        add_edge(cfg, blk, nxt, ET.Fallthrough)
    elif outk == "jmp":
        add_edge(cfg, blk, other, ET.Branch)
    elif outk == "ret":
        add_edge(cfg, blk, add_proxy_block(m), ET.Return)
    elif outk == "call":
        add_edge(cfg, blk, callee, ET.Call)
        add_edge(cfg, blk, nxt, ET.Fallthrough)
        add_edge(cfg, callee, nxt, ET.Return)
    elif outk == "self-call":
        # the block is the entry of a function f = {blk, nxt} and ends in a call to its own start (recursion); nxt holds f's ret,
        # which returns to the return site of that call: nxt itself
        add_edge(cfg, blk, blk, ET.Call)
        add_edge(cfg, blk, nxt, ET.Fallthrough)
        add_edge(cfg, nxt, nxt, ET.Return)
        add_function(m, add_symbol(m, "f", blk), blk, {nxt})
    if outk != "call":
        add_edge(cfg, callee, add_proxy_block(m), ET.Return)
    add_function(m, add_symbol(m, "g", callee), callee)
    fl = gtirb_functions.Function.build_functions(m)
    in0 = [(e.source, e.label.type, e.label.conditional) for e in blk.incoming_edges]
    proxies0 = set(m.proxies)
    with make_modify_cache(m, fl) as cache:
        removed = RM.remove_block(cache, blk, proxy)
        ctx.cover("removed" if removed else "kept")
        tag = "remove_block/edges"
        common_post(ctx, H, cache, removed, tag)
        if not removed:
            ctx.prove(tag + "/kept-only-in-a-documented-case", z3.BoolVal(inc != "none" and next_k != "code" and not proxy),
                      note="incoming control flow with no following code block")
            return
        if outk == "self-call":
            # RET: with the recursive call gone (and, without retarget_to_proxy, nxt the new entry) nobody calls f any more
            rets_f = [e.target for e in nxt.outgoing_edges if e.label.type == ET.Return]
            ctx.prove(tag + "/returns-of-a-function-whose-only-call-was-removed-lead-to-one-registered-proxy",
                      z3.BoolVal(len(rets_f) == 1 and isinstance(rets_f[0], gtirb.ProxyBlock) and rets_f[0] in m.proxies),
                      note="f's ret now returns to %s" % [type(t).__name__ for t in rets_f])
        # where did the incoming edges go?
        bad = []
        for (src, ty, cond) in in0:
            if src is blk:
                continue            # the block's edge to itself went away with it
            tg = [e.target for e in src.outgoing_edges if e.label.type == ty and e.label.conditional == cond]
            if len(tg) != 1:
                bad.append("edge from %s lost or duplicated" % type(src).__name__)
                continue
            t = tg[0]
            if proxy:
                ok = isinstance(t, gtirb.ProxyBlock) and t in m.proxies and t not in proxies0
            elif next_k == "code":
                ok = t is nxt
            else:
                ok = ty == ET.Fallthrough and isinstance(t, gtirb.ProxyBlock) and t in m.proxies     # runs off into data / the end
            if not ok:
                bad.append("%s edge now leads to %s" % (ty.name, type(t).__name__))
        ctx.prove(tag + "/incoming-edges-lead-to-the-proxy-or-the-next-code-block", z3.BoolVal(not bad), note="; ".join(bad))
        # callee returns (RET invariant): the removed call was the only caller
        rets = [e.target for e in callee.outgoing_edges if e.label.type == ET.Return]
        ctx.prove(tag + "/callee-of-a-removed-call-returns-to-one-registered-proxy",
                  z3.BoolVal(len(rets) == 1 and isinstance(rets[0], gtirb.ProxyBlock) and rets[0] in m.proxies))


CFI_LAYOUTS = {
    # name: (displacement map of the block (size 3), structural directives that must survive in this order, alternatives accepted)
    "ordinary": ({1: [ADJ]}, [[]]),
    "start": ({0: [START, CFA], 1: [ADJ]}, [[START, CFA]]),
    "end": ({1: [ADJ], 3: [END]}, [[END]]),
    "remember": ({1: [REM, ADJ], 2: [RES]}, [[REM, RES]]),
    "whole-procedure-inside": ({0: [START, CFA], 1: [ADJ], 3: [END]}, [[], [START, CFA, END]]),
    "end-then-start": ({0: [END, START, CFA], 2: [UND]}, [[END, START, CFA]]),
}


def cfi_harness(ctx):
    prev_k, next_k = NEIGH[ctx.choose(3, "previous-block")], NEIGH[ctx.choose(3, "next-block")]
    proxy = bool(ctx.choose(2, "retarget_to_proxy"))
    names = list(CFI_LAYOUTS)
    lay = names[ctx.choose(len(names), "directive-layout")]
    dmap, accepted = CFI_LAYOUTS[lay]
    H = build("code", prev_k, next_k)
    m, blk, prev, nxt = H["m"], H["blk"], H["prev"], H["nxt"]
    tab = {gtirb.Offset(blk, k): list(v) for k, v in dmap.items()}
    own_next, own_prev = [UND], [ADJ]
    if nxt is not None and next_k == "code":
        tab[gtirb.Offset(nxt, 0)] = list(own_next)
    if prev is not None and prev_k == "code":
        tab[gtirb.Offset(prev, prev.size)] = list(own_prev)
    _auxdata.cfi_directives.set(m, tab)
    with make_modify_cache(m, []) as cache:
        removed = RM.remove_block(cache, blk, proxy)
        ctx.cover("removed" if removed else "kept")
        tag = "remove_block/cfi"
        common_post(ctx, H, cache, removed, tag)
        now = {(k.element_id, k.displacement): list(v) for k, v in _auxdata.cfi_directives.get(m).items()}
        structural = accepted[0]
        if not removed:
            ctx.prove(tag + "/kept-only-in-a-documented-case", z3.BoolVal(bool(structural) and prev_k != "code" and next_k != "code"),
                      note="structural CFI directives with no neighbouring code block to carry them")
            ctx.prove(tag + "/a-kept-block-keeps-exactly-its-structural-directives", z3.BoolVal(any(now.get((blk, 0), []) == a for a in accepted) and
                                                                                        not any(b is blk and d != 0 for (b, d) in now)))
            return
        ctx.prove(tag + "/no-directive-is-left-on-the-removed-block", z3.BoolVal(not any(b is blk for (b, d) in now)))
        if next_k == "code":
            got = now.get((nxt, 0), [])
            ok = any(got == a + own_next for a in accepted)
            untouched = prev_k != "code" or now.get((prev, prev.size), []) == own_prev
            where = "the next block's offset 0, before its own"
        elif prev_k == "code":
            got = now.get((prev, prev.size), [])
            ok = any(got == own_prev + a for a in accepted)
            untouched = True
            where = "the previous block's end, after its own"
        else:
            got, ok, untouched, where = [], structural == [] or [] in accepted, True, "nowhere"
        ctx.prove(tag + "/structural-directives-move-in-order-to-a-neighbouring-code-block-and-the-rest-is-dropped", z3.BoolVal(bool(ok and untouched)),
                  note="layout %s: %s now holds %s" % (lay, where, [d[0] for d in got]))


def special_harness(ctx):
    next_k = NEIGH[ctx.choose(3, "next-block")]
    proxy = bool(ctx.choose(2, "retarget_to_proxy"))
    what = ["entry-point", "DT_INIT", "DT_FINI", "safe-SEH", "tables"][ctx.choose(5, "role-of-the-block")]
    kind = "code" if what != "tables" else ["code", "data"][ctx.choose(2, "kind")]
    first_table, second_table = (bool(ctx.choose(2, "types/profile-table-exists")), bool(ctx.choose(2, "encodings/SCCs-table-exists"))) if what == "tables" else (True, True)
    H = build(kind, "code", next_k)
    m, blk, prev, nxt = H["m"], H["blk"], H["prev"], H["nxt"]
    if what == "entry-point":
        m.entry_point = blk
    elif what == "DT_INIT":
        _auxdata.elf_dynamic_init.set(m, blk)
    elif what == "DT_FINI":
        _auxdata.elf_dynamic_fini.set(m, blk)
    elif what == "safe-SEH":
        _auxdata.pe_safe_exception_handlers.set(m, {blk, prev})
    else:
        _auxdata.alignment.set(m, {blk: 8, prev: 4})
        _auxdata.comments.set(m, {gtirb.Offset(blk, 0): "c", gtirb.Offset(prev, 0): "p"})
        _auxdata.padding.set(m, {gtirb.Offset(blk, 1): 3})
        _auxdata.symbolic_expression_sizes.set(m, {gtirb.Offset(blk, 1): 4})
        # each of the per-block tables may be missing (or empty) independently of the other
        if kind == "data":
            if first_table:
                _auxdata.types.set(m, {blk: "T"})
            if second_table:
                _auxdata.encodings.set(m, {blk: "string", prev: "x"})
        else:
            if first_table:
                _auxdata.profile.set(m, {blk: 5, prev: 1})
            if second_table:
                _auxdata.sccs.set(m, {blk: 2})
    with make_modify_cache(m, []) as cache:
        removed = RM.remove_block(cache, blk, proxy)
        ctx.cover("removed" if removed else "kept")
        tag = "remove_block/special"
        common_post(ctx, H, cache, removed, tag)
        is_entry = what in ("entry-point", "DT_INIT", "DT_FINI")
        if not removed:
            ctx.prove(tag + "/kept-only-in-a-documented-case", z3.BoolVal(is_entry and next_k != "code" and not proxy), note="an entry point with no following code block")
            return
        want = None if (proxy or next_k != "code") else nxt
        if what == "entry-point":
            ctx.prove(tag + "/module-entry-point-moves-to-the-next-code-block-or-is-cleared", z3.BoolVal(m.entry_point is want))
        elif what == "DT_INIT":
            ctx.prove(tag + "/DT_INIT-moves-to-the-next-code-block-or-is-cleared", z3.BoolVal(_auxdata.elf_dynamic_init.get(m) is want))
        elif what == "DT_FINI":
            ctx.prove(tag + "/DT_FINI-moves-to-the-next-code-block-or-is-cleared", z3.BoolVal(_auxdata.elf_dynamic_fini.get(m) is want))
        elif what == "safe-SEH":
            t = _auxdata.pe_safe_exception_handlers.get(m)
            ctx.prove(tag + "/safe-exception-handler-flag-moves-to-the-next-code-block", z3.BoolVal(blk not in t and prev in t and ((nxt in t) == (next_k == "code" and not proxy))))
        else:
            left = []
            for n, t in m.aux_data.items():
                def walk(x):
                    if x is blk:
                        left.append(n)
                    elif isinstance(x, gtirb.Offset):
                        walk(x.element_id)
                    elif isinstance(x, dict) or hasattr(x, "items"):
                        for k, v in x.items():
                            walk(k)
                            walk(v)
                    elif isinstance(x, (list, tuple, set, frozenset)):
                        for v in x:
                            walk(v)
                walk(t.data)
            ctx.prove(tag + "/no-aux-table-mentions-the-removed-block", z3.BoolVal(not left), note=str(sorted(set(left))))
            ctx.prove(tag + "/entries-of-other-blocks-untouched", z3.BoolVal(_auxdata.alignment.get(m).get(prev) == 4 and _auxdata.comments.get(m).get(gtirb.Offset(prev, 0)) == "p"))


def jobs(tier="quick", seed=0):
    F = "gtirb_rewriting._modify.remove:remove_block"
    yield Job("K/remove_block/labels", labels_harness, kind="E", func=F, expect_cover=("removed", "kept"))
    yield Job("K/remove_block/edges", edges_harness, kind="E", func=F, expect_cover=("removed", "kept"))
    yield Job("K/remove_block/cfi", cfi_harness, kind="E", func=F, expect_cover=("removed", "kept"))
    yield Job("K/remove_block/special", special_harness, kind="E", func=F, expect_cover=("removed", "kept"))
