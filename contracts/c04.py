"""C04 -- see contracts/registry.json for the clauses; D kernels + bounded apply-level stand-in."""
from pyvc.run import Job

from . import apply_bounded, kernels


def jobs(tier="quick", seed=0):
    yield from kernels.jobs_for("C04", tier, seed)
    yield apply_bounded.job("C04", tier, seed)
    # "expressions contributed by a patch ... keep their addend": a patch's expressions are the assembler's; every way of writing a
    # symbolic operand, with and without an addend, on every ISA (the apply-level family above is x86-64)
    from . import c12_13
    j = Job("C04/patch-operand-forms-bounded", c12_13.operand_forms(tier, seed), kind="B", func="gtirb_rewriting.assembler.assembler:_Streamer._fixup_to_symbolic_operand/_mcexpr_to_symbolic_operand")
    yield j
    # offset-keyed tables and symbolic expressions across split_byte_interval / join_byte_intervals (what prepare and the final layout do
    # to every annotation): the table clauses of the interval kernels
    from . import kernel_intervals
    for j in kernel_intervals.jobs(tier, seed):
        if "tables" in j.id:
            j.id = "C04/" + j.id
            yield j
