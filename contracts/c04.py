"""C04 -- see contracts/registry.json for the clauses; D kernels + bounded apply-level stand-in."""
from pyvc.run import Job

from . import apply_bounded, kernels


# symbolic DATA directives of a patch: (line, bytes it occupies, expression it must leave at its offset)  -- S0 / S1 are module symbols
# (a LEB128 of a difference of two module symbols cannot be resolved by the assembler: one placeholder byte carries the expression)
DATA_LINES = [
    (".quad S0 + 16", 8, ("const", 16, "S0")),
    (".long S1", 4, ("const", 0, "S1")),
    (".long S1 - S0", 4, ("diff", "S1", "S0")),
    (".uleb128 S1 - S0", 1, ("diff", "S1", "S0")),
    (".sleb128 S0 - S1", 1, ("diff", "S0", "S1")),
    (".byte 7", 1, None),
]


def data_patch_expressions(tier, seed):
    """C04 for patches made of DATA directives (tables such as an LSDA being extended): "expressions created by a patch appear at the patch
    position plus their offset inside the patch, refer by identity to the module's existing symbols and keep their addend"; expressions that
    were there move with their bytes.  Every directive that can carry a symbolic value, alone and in ordered pairs, at three positions."""
    def run():
        import itertools
        import logging
        import gtirb
        import gtirb_rewriting
        from bounded import scen
        from gtirb_test_helpers import add_data_block, add_data_section, add_symbol, create_test_module
        from pyvc.run import BResult
        logging.getLogger("gtirb_rewriting").setLevel(logging.CRITICAL)
        br = BResult()
        br.bound = "%d data directives (.quad / .long / .long difference / .uleb128 / .sleb128 / .byte), singly and in every ordered pair, inserted at offset 0, 4 (in front of an existing expression) and 12 (the end) of a 12-byte data block followed by another data block; x86-64 ELF" % len(DATA_LINES)
        br.clauses = ["C04/data-patch/apply-does-not-raise", "C04/data-patch/bytes-around-the-patch-are-kept", "C04/data-patch/every-expression-of-the-patch-at-its-offset-with-the-module-symbols-and-its-addend",
                      "C04/data-patch/existing-expression-moves-with-its-byte", "C04/data-patch/no-other-expression-appears", "C04/data-patch/no-symbol-is-added"]
        seqs = [(l,) for l in DATA_LINES] + list(itertools.product(DATA_LINES, repeat=2))
        distinct = set()
        for seq, pos in itertools.product(seqs, (0, 4, 12)):
            br.cases += 1
            desc = {"patch": [l[0] for l in seq], "inserted at offset": pos}
            distinct.add((tuple(desc["patch"]), pos))
            _, m = create_test_module(gtirb.Module.FileFormat.ELF, gtirb.Module.ISA.X64)
            _, bi = add_data_section(m, address=0x1000)
            table = add_data_block(bi, b"\x01\x02\x03\x04" + b"\x00" * 8)
            other = add_data_block(bi, b"\xaa\xbb")
            syms = {"S0": add_symbol(m, "S0", table), "S1": add_symbol(m, "S1", other)}
            bi.symbolic_expressions[4] = gtirb.SymAddrConst(2, syms["S1"])
            nsym = len(m.symbols)
            before = bytes(bi.contents)
            ctx = gtirb_rewriting.RewritingContext(m, [])
            ctx.insert_at(table, pos, scen.mkpatch("\n".join(l[0] for l in seq)))

            def fail(clause, detail):
                br.failures.append({"clause": clause, "witness": desc, "detail": detail})
            try:
                ctx.apply()
            except Exception as ex:      # noqa
                fail("C04/data-patch/apply-does-not-raise", "%s: %s" % (type(ex).__name__, str(ex)[:100]))
                continue
            plen = sum(l[1] for l in seq)
            after = bytes(bi.contents)
            if after[:pos] != before[:pos] or after[pos + plen:] != before[pos:] or bi.size != len(before) + plen:
                fail("C04/data-patch/bytes-around-the-patch-are-kept", "%s -> %s (patch of %d bytes at %d)" % (before.hex(), after.hex(), plen, pos))
                continue
            want = {}
            off = pos
            for line, size, ex in seq:
                if ex is not None:
                    want[off] = gtirb.SymAddrConst(ex[1], syms[ex[2]]) if ex[0] == "const" else gtirb.SymAddrAddr(1, 0, syms[ex[1]], syms[ex[2]])
                off += size
            old_at = 4 + plen if pos <= 4 else 4
            got = dict(bi.symbolic_expressions)
            for k, w in want.items():
                g = got.get(k)
                same = g is not None and type(g) is type(w) and g == w and all(a is b for a, b in zip(g.symbols, w.symbols))
                if not same:
                    fail("C04/data-patch/every-expression-of-the-patch-at-its-offset-with-the-module-symbols-and-its-addend", "offset %d: expected %r, found %r (all: %s)" % (k, w, g, sorted(got)))
            o = got.get(old_at)
            if not (isinstance(o, gtirb.SymAddrConst) and o.offset == 2 and o.symbol is syms["S1"]):
                fail("C04/data-patch/existing-expression-moves-with-its-byte", "expected SymAddrConst(2, S1) at %d, found %r (all: %s)" % (old_at, o, sorted(got)))
            extra = sorted(set(got) - set(want) - {old_at})
            if extra:
                fail("C04/data-patch/no-other-expression-appears", "unexpected expressions at %s" % extra)
            if len(m.symbols) != nsym:
                fail("C04/data-patch/no-symbol-is-added", "symbols: %s" % sorted(s.name for s in m.symbols))
            if len(br.samples) < 2:
                br.samples.append(desc)
        br.nontrivial = len(distinct)
        return br
    return run


def jobs(tier="quick", seed=0):
    yield Job("C04/data-patch-expressions-bounded", data_patch_expressions(tier, seed), kind="B", func="gtirb_rewriting._modify.edit:insert / assembler:_Streamer (data directives with symbolic values)")
    yield from kernels.jobs_for("C04", tier, seed)
    yield apply_bounded.job("C04", tier, seed)
    # "expressions contributed by a patch ... keep their addend": a patch's expressions are the assembler's; every way of writing a
    # symbolic operand, with and without an addend, on every ISA (the apply-level family above is x86-64)
    from . import c12_13
    j = Job("C04/patch-operand-forms-bounded", c12_13.operand_forms(tier, seed), kind="B", func="gtirb_rewriting.assembler.assembler:_Streamer._fixup_to_symbolic_operand/_mcexpr_to_symbolic_operand")
    yield j
    # offset-keyed tables and symbolic expressions across split_byte_interval / join_byte_intervals (what prepare and the final layout do
    # to every annotation): the table clauses of the interval kernels
    from . import kernel_intervals
    for j in kernel_intervals.jobs(tier, seed):
        if "tables" in j.id:
            j.id = "C04/" + j.id
            yield j
