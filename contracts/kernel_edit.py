"""Heap kernel, part 1: _modify.edit:edit_byte_interval  (carries C01 bytes, C04 annotations).

Real source, all offsets / lengths / contents / table contents symbolic:
  requires  0 <= offset, 0 <= length, offset + length <= len(bi.contents)
  ensures   bi.contents == old[:offset] + content + old[offset+length:]          (C01)
            bi.size     == old size + len(content) - length
            loop #0 (for b in bi.blocks), for-each: every block b with b.offset >= offset that is not static is shifted
                      by len(content) - length, every other block keeps its offset; nothing else of b changes
            bi.symbolic_expressions' and each of the three offset-keyed tables' sub-map for bi are
                      { rekey(k): v | (k, v) in old, not (offset <= k < offset+length) },
                      rekey(k) = k + delta if k >= offset else k                                     (C04)
                      -- stated on the comprehension's own code run on an arbitrary entry: condition, new key, value;
                      injective on the kept keys; kept keys stay inside [0, new size)
Dependency contract (assumed, DESIGN 3.3): gtirb ByteInterval / ByteBlock attributes are plain fields (duck-typed
stand-ins are used so that symbolic integers can be stored in them); OffsetMapping is the real class.
"""
import gtirb
import z3

from gtirb_rewriting import _auxdata, _auxdata_offsetmap
from gtirb_rewriting._adt import OffsetMapping
from gtirb_rewriting._modify import edit as ED

from pyvc import core, instrument, shims
from pyvc.containers import CompDict, MapBase, PDict
from pyvc.core import Unsupported
from pyvc.run import Job
from pyvc.sym import SymBool, SymBytes, SymInt, mk_int, zint

I_ = z3.IntSort()
VAL = z3.Function("entry_value", I_, I_, I_)            # (map id, key) -> opaque value id
HAS = z3.Function("entry_present", I_, I_, z3.BoolSort())
NONEMPTY = z3.Function("map_nonempty", I_, z3.BoolSort())
BLOCKS = object()

from collections.abc import MutableMapping  # noqa: E402
MutableMapping.register(CompDict)
MutableMapping.register(PDict)


class Opaque:
    def __init__(self, vid):
        self.vid = vid


def sym_map(ctx, mid):
    def has(k):
        ctx.assume(z3.Implies(HAS(mid, k), NONEMPTY(mid)))
        return HAS(mid, k)
    b = MapBase(has, lambda k: Opaque(VAL(mid, zint(k))), "map%s" % mid)
    b.nonempty = NONEMPTY(mid)
    b.mid = mid
    return PDict(base=b)


class FakeBlock:
    def __init__(self, offset, size):
        self.offset, self.size = offset, size


class FakeInterval:
    def __init__(self, module):
        self.module = module


class BlocksLoop(instrument.LoopSpec):
    local_names = ("b",)

    def __init__(self, ctx, iterable, env):
        super().__init__(ctx, iterable, env)
        self.not_applicable = iterable is not BLOCKS
        self.g = ctx.ghost

    def establish(self, env):
        pass

    def havoc(self, env):
        return {}

    def has_next(self):
        return SymBool(self.ctx.bool("more_blocks", inp=False))

    def element(self):
        ctx, g = self.ctx, self.g
        self.is_static = bool(ctx.choose(2, "element-is-the-static-block"))
        if self.is_static:
            b = g["static_block"]
        else:
            b = FakeBlock(SymInt(ctx.int("blk_offset")), SymInt(ctx.int("blk_size")))
        self.b, self.off0, self.size0 = b, b.offset, b.size
        return b

    def preserved(self, env):
        ctx, g = self.ctx, self.g
        o, l, delta = zint(g["offset"]), zint(g["length"]), zint(g["delta"])
        shifted = z3.And(zint(self.off0) >= o, z3.BoolVal(not self.is_static))
        ctx.prove("edit_byte_interval/blocks/shifted-iff-at-or-after-the-edit-and-not-static",
                  zint(self.b.offset) == z3.If(shifted, zint(self.off0) + delta, zint(self.off0)))
        ctx.prove("edit_byte_interval/blocks/size-untouched", zint(self.b.size) == zint(self.size0))
        ctx.prove("edit_byte_interval/frame/loop-touches-only-the-visited-block", z3.BoolVal(
            g["bi"].blocks is BLOCKS and g["static_block"].offset is g["static_offset0"] or self.is_static))


class setup:
    def __enter__(self):
        self.cms = [shims.installed([ED]),
                    instrument.instrumented({"edit:edit_byte_interval": (ED.edit_byte_interval, {0: BlocksLoop}, True)})]
        for c in self.cms:
            c.__enter__()
        return self

    def __exit__(self, *e):
        for c in reversed(self.cms):
            c.__exit__(*e)
        return False


def check_rekey(ctx, tag, new, old_mid, offset, length, delta, size_new, size_old):
    if isinstance(new, PDict) and not new.log and new.base is not None and new.base.mid.eq(old_mid):
        # left alone: only correct if there was nothing to re-key (the code skips empty tables)
        ctx.prove(tag + "/untouched-only-if-empty", z3.Not(NONEMPTY(old_mid)))
        return
    ok = isinstance(new, CompDict) and getattr(new.src.base, "mid", None) is not None and new.src.base.mid.eq(old_mid) if isinstance(new, CompDict) else False
    ctx.prove(tag + "/is-a-re-keying-of-the-old-entries", z3.BoolVal(bool(ok)))
    if not ok:
        return
    o, l, d = zint(offset), zint(length), zint(delta)
    k = ctx.int("k_entry")
    key, val, cond, v0 = new.entry(SymInt(k))
    kept = z3.Or(k < o, k >= o + l)
    ct = cond.term if isinstance(cond, SymBool) else z3.BoolVal(bool(cond))
    ctx.prove(tag + "/kept-iff-outside-the-replaced-range", ct == kept)
    ctx.prove(tag + "/new-key", z3.Implies(kept, zint(key) == z3.If(k >= o, k + d, k)))
    ctx.prove(tag + "/value-unchanged", z3.BoolVal(val is v0))
    # injective on kept keys, and inside the new interval
    k2 = ctx.int("k_other")
    key2, _, cond2, _ = new.entry(SymInt(k2))
    kept2 = z3.Or(k2 < o, k2 >= o + l)
    ctx.prove(tag + "/injective-on-kept-keys", z3.Implies(z3.And(kept, kept2, k != k2), zint(key) != zint(key2)))
    ctx.prove(tag + "/kept-keys-stay-inside-the-interval", z3.Implies(z3.And(kept, k >= 0, k < zint(size_old)), z3.And(zint(key) >= 0, zint(key) < zint(size_new))))


def harness(ctx):
    g = ctx.ghost
    ir = gtirb.IR()
    m = gtirb.Module(isa=gtirb.Module.ISA.X64, file_format=gtirb.Module.FileFormat.ELF, name="m", ir=ir)
    bi = FakeInterval(m)
    n = ctx.int("contents_len")
    ctx.assume(n >= 0)
    old = SymBytes.sym(SymInt(n), ctx.array("contents"))
    bi.contents = old
    S = ctx.int("interval_size")
    ctx.assume(S >= n)
    bi.size = SymInt(S)
    bi.blocks = BLOCKS
    sx_id = ctx.int("symexpr_map", inp=False)
    bi.symbolic_expressions = sym_map(ctx, sx_id)
    tabs = {}
    which = ctx.choose(3, "tables-present")          # none / all three with entries for bi / tables exist but no entry for bi
    if which:
        for k, tdef in enumerate(_auxdata_offsetmap.OFFSETMAP_AUX_DATA_TABLES):
            om = OffsetMapping()
            mid = ctx.int("table%d_map" % k, inp=False)
            if which == 1:
                om._data[bi] = sym_map(ctx, mid)
            else:
                om._data[FakeInterval(m)] = sym_map(ctx, ctx.int("other_map", inp=False))
            m.aux_data[tdef.name] = gtirb.AuxData(type_name=tdef.type_name, data=om)
            tabs[tdef.name] = (om, mid)
    offset, length = ctx.int("offset"), ctx.int("length")
    ctx.assume(z3.And(offset >= 0, length >= 0, offset + length <= n))
    cn = ctx.int("content_len")
    ctx.assume(cn >= 0)
    content = SymBytes.sym(SymInt(cn), ctx.array("content"))
    static = FakeBlock(SymInt(ctx.int("static_offset")), SymInt(ctx.int("static_size")))
    delta = cn - length
    g.update(offset=SymInt(offset), length=SymInt(length), delta=mk_int(delta), static_block=static, static_offset0=static.offset, bi=bi)
    ED.edit_byte_interval(bi, SymInt(offset), SymInt(length), content, {static})
    ctx.cover("returned")
    P = ctx.prove
    new = SymBytes.of(bi.contents)
    P("edit_byte_interval/C01/length", new.zlen() == n + delta)
    j = ctx.int("j_byte")
    want = z3.If(j < offset, old.at(j), z3.If(j < offset + cn, content.at(j - offset), old.at(j - delta)))
    P("edit_byte_interval/C01/contents-are-the-splice", z3.Implies(z3.And(j >= 0, j < n + delta), new.at(j) == want))
    P("edit_byte_interval/C01/size", zint(bi.size) == S + delta)
    P("edit_byte_interval/frame/blocks-collection-and-module-untouched", z3.BoolVal(bi.blocks is BLOCKS and bi.module is m))
    check_rekey(ctx, "edit_byte_interval/C04/symbolic-expressions", bi.symbolic_expressions, sx_id, offset, length, delta, S + delta, S)
    for name, (om, mid) in tabs.items():
        if which == 1:
            check_rekey(ctx, "edit_byte_interval/C04/offset-keyed-table", om._data.get(bi), mid, offset, length, delta, S + delta, S)
            P("edit_byte_interval/frame/no-other-element-of-the-table-touched", z3.BoolVal(list(om._data) == [bi]))
        else:
            P("edit_byte_interval/frame/tables-without-entries-for-the-interval-untouched",
              z3.BoolVal(bi not in om._data and all(isinstance(v, PDict) and not v.log for v in om._data.values())))


def replay(clause, model):
    """native: real edit_byte_interval on a real gtirb interval built from the model; the listing oracle is a plain splice"""
    import gtirb_rewriting._modify.edit as E2
    from gtirb_test_helpers import add_data_block, add_data_section, create_test_module

    def val(prefix, d=0):
        k = [x for x in model if x.startswith(prefix + "!")]
        return model[k[0]] if k else d
    n = max(min(val("contents_len", 4), 12), 0)
    off = max(0, min(val("offset", 1), n))
    ln = max(0, min(val("length", 1), n - off))
    cn = max(0, min(val("content_len", 2), 6))
    ir, m = create_test_module(gtirb.Module.FileFormat.ELF, gtirb.Module.ISA.X64)
    _, bi = add_data_section(m, address=0x2000)
    blocks = [add_data_block(bi, bytes([0x10 + i])) for i in range(n)]
    for p in range(n):
        bi.symbolic_expressions[p] = gtirb.SymAddrConst(p, gtirb.Symbol("s%d" % p, module=m))
    _auxdata.comments.set(m, {gtirb.Offset(bi, p): "c%d" % p for p in range(n)})
    old = bytes(bi.contents)
    content = bytes(0xA0 + i for i in range(cn))
    static = blocks[off] if off < n else None
    E2.edit_byte_interval(bi, off, ln, content, {static} if static else ())
    want = old[:off] + content + old[off + ln:]
    exp_keys = {(p + cn - ln if p >= off else p): p for p in range(n) if p < off or p >= off + ln}
    got_sx = {k: v.offset for k, v in bi.symbolic_expressions.items()}
    got_c = {k.displacement: v for k, v in (_auxdata.comments.get(m) or {}).items()}
    exp_off = [(i + (cn - ln if (i >= off and blocks[i] is not static) else 0)) for i in range(n)]
    bad = []
    if bytes(bi.contents) != want:
        bad.append("contents %s expected %s" % (bytes(bi.contents).hex(), want.hex()))
    if got_sx != exp_keys:
        bad.append("symbolic expressions %s expected %s" % (got_sx, exp_keys))
    if got_c != {k: "c%d" % p for k, p in exp_keys.items()}:
        bad.append("comments %s" % got_c)
    if [b.offset for b in blocks] != exp_off:
        bad.append("block offsets %s expected %s" % ([b.offset for b in blocks], exp_off))
    return {"confirmed": bool(bad), "input": {"contents_len": n, "offset": off, "length": ln, "content_len": cn}, "observed": bad[:3]}


def jobs(tier="quick", seed=0):
    yield Job("K/edit_byte_interval", harness, setup=setup, replay=replay, kind="D", func="gtirb_rewriting._modify.edit:edit_byte_interval",
              expect_cover=("returned", "loop-preserved:edit:edit_byte_interval#0"), timeout_ms=30000)
