"""C06 -- see contracts/registry.json for the clauses; D kernels + bounded apply-level stand-in + inserted functions."""
import itertools

import gtirb

from pyvc.run import BResult, Job

from . import apply_bounded, kernels


def inserted_functions(tier, seed):
    """C06, last clause: "a function inserted with register_insert_function appears in all three [tables] with its symbol as name and
    entry" -- together with the clauses that hold for every function: entries are a subset of blocks, the entry is the block the symbol
    designates, every block of the inserted code belongs to it, no block is in two functions, other functions are untouched"""
    def run():
        import logging
        from gtirb_rewriting import RewritingContext, _auxdata
        from bounded import scen
        logging.getLogger("gtirb_rewriting").setLevel(logging.CRITICAL)
        br = BResult()
        bodies = {"one-block": "nop\nret", "branch+label": "cmpq $0, %rdi\nje .Lz\nnop\n.Lz:\nret", "two-labels": "nop\n.La:\njmp .Lb\n.Lb:\nret",
                  "call": "call g\nret", "loop": ".Ltop:\ndecq %rdi\njne .Ltop\nret"}
        br.bound = ("module shapes of bounded/scen.py (kinds plain/call, with function info, with empty function tables, without any function table) x 1 or 2 functions inserted with register_insert_function x 5 bodies "
                    "(one block, branch + label, two labels, a call, a loop) x optionally an ordinary edit in the same apply()")
        br.clauses = ["C06/inserted-function-in-all-three-tables-with-its-symbol-as-name-and-entry", "C06/entries-are-the-blocks-the-function-symbols-designate",
                      "C06/every-block-of-the-inserted-code-belongs-to-the-function", "C06/no-block-in-two-functions-and-entries-subset-of-blocks",
                      "C06/existing-functions-untouched-by-an-inserted-function"]
        distinct = set()
        for kind, funcs, names, with_edit in itertools.product(("plain", "call"), (False, True, "no-tables"), (("one-block",), ("branch+label",), ("two-labels", "call"), ("loop", "one-block")), (False, True)):
            ir, m, bi, blocks, fl = scen.build(scen.Shape(kind, funcs is True))
            if funcs == "no-tables":
                # a module that has no function tables at all (the test helper pre-creates empty ones)
                for nm in ("functionBlocks", "functionEntries", "functionNames"):
                    m.aux_data.pop(nm, None)
            fb0 = {u: set(v) for u, v in (_auxdata.function_blocks.get(m) or {}).items()}
            fe0 = {u: set(v) for u, v in (_auxdata.function_entries.get(m) or {}).items()}
            rc = RewritingContext(m, fl)
            syms = [rc.register_insert_function("newfn%d" % i, scen.mkpatch(bodies[b])) for i, b in enumerate(names)]
            if with_edit:
                rc.insert_at(blocks[1], 0, scen.mkpatch("nop"))
            br.cases += 1
            distinct.add((kind, funcs, names, with_edit))
            desc = {"shape": "kind=%s funcs=%s" % (kind, funcs), "inserted function bodies": [bodies[b].splitlines() for b in names], "ordinary edit too": with_edit}
            try:
                rc.apply()
            except Exception as ex:      # noqa
                br.failures.append({"clause": "C06/inserted-function-in-all-three-tables-with-its-symbol-as-name-and-entry", "witness": desc, "detail": "%s: %s" % (type(ex).__name__, str(ex)[:100])})
                continue
            fb, fe, fn = _auxdata.function_blocks.get(m) or {}, _auxdata.function_entries.get(m) or {}, _auxdata.function_names.get(m) or {}
            for s in syms:
                us = [u for u, n in fn.items() if n is s]
                if len(us) != 1 or us[0] not in fb or us[0] not in fe:
                    br.failures.append({"clause": "C06/inserted-function-in-all-three-tables-with-its-symbol-as-name-and-entry", "witness": desc, "detail": "%s: %d name entries" % (s.name, len(us))})
                    continue
                u = us[0]
                if fe[u] != {s.referent}:
                    br.failures.append({"clause": "C06/entries-are-the-blocks-the-function-symbols-designate", "witness": desc,
                                        "detail": "%s: %d entries %s, its symbol designates the block at %#x" % (s.name, len(fe[u]), sorted(hex(b.address) for b in fe[u]), s.referent.address)})
                # blocks of the inserted code: everything reachable by fallthrough / branch edges from the entry inside the new byte interval(s)
                seen, todo = set(), [s.referent]
                while todo:
                    b = todo.pop()
                    if b in seen or not isinstance(b, gtirb.CodeBlock):
                        continue
                    seen.add(b)
                    for e in b.outgoing_edges:
                        if e.label.type in (gtirb.EdgeType.Fallthrough, gtirb.EdgeType.Branch) and isinstance(e.target, gtirb.CodeBlock) and e.target not in blocks:
                            todo.append(e.target)
                if not seen <= fb[u]:
                    br.failures.append({"clause": "C06/every-block-of-the-inserted-code-belongs-to-the-function", "witness": desc, "detail": "%s: %d of its %d blocks are not in functionBlocks" % (s.name, len(seen - fb[u]), len(seen))})
            allb = [b for bs in fb.values() for b in bs]
            if len(allb) != len(set(allb)) or any(not fe.get(u, set()) <= fb.get(u, set()) for u in fe):
                br.failures.append({"clause": "C06/no-block-in-two-functions-and-entries-subset-of-blocks", "witness": desc, "detail": "tables inconsistent"})
            if not with_edit and any(fb.get(u) != v for u, v in fb0.items()) or any(fe.get(u) != v for u, v in fe0.items()):
                br.failures.append({"clause": "C06/existing-functions-untouched-by-an-inserted-function", "witness": desc, "detail": "an existing function's blocks or entries changed"})
            if len(br.samples) < 2:
                br.samples.append(desc)
        br.nontrivial = len(distinct)
        return br
    return run


def jobs(tier="quick", seed=0):
    yield from kernels.jobs_for("C06", tier, seed)
    yield apply_bounded.job("C06", tier, seed)
    yield Job("C06/inserted-functions-bounded", inserted_functions(tier, seed), kind="B", func="gtirb_rewriting.rewriting:RewritingContext.register_insert_function / _insert_function_stub")
