"""C07 -- each registered insertion lands exactly once, exactly where asked (and C01's "registration order at equal offsets").

D (real source):
  rewriting:_ModificationStore.resolve_offsets   for n = 0..4 modifications (E) with SYMBOLIC ids, offsets and replacement
        lengths in an arbitrary list order: the result is a permutation of the input (each modification exactly once, paired
        with its first potential offset), sorted by (offset, registration id); AssertionError iff two consecutive ones overlap
  scopes:_potential_offsets_in_block            loop #0 (ANYWHERE) by invariant over an abstract instruction sequence of
        symbolic length and sizes: yields exactly the instruction boundaries 0, s0, s0+s1, ... of the non-terminator
        instructions and the boundary after them; ENTRY yields 0; EXIT yields the sum of the non-terminator sizes
        (= block size minus the terminator's size when the disassembly is complete), partial disassembly -> AssertionError
  utils:_nonterminator_instructions              all instructions iff every out-edge is a fallthrough, else all but the last
E (finite case split, concrete):
  _ModificationStore.add / modifications_for_block   a modification with known targets is stored per target, otherwise in the
        scope list; for a block the result is [block-keyed ... , matching scope-keyed ...] each once
  scopes: AllBlocksScope / SingleBlockScope / AllFunctionsScope / _SpecificLocationScope._block_matches and pattern_match
        against predicates written from the statement
  passes:PassManager.run                         begin_module of every pass in order -> one apply() -> end_module in order
B: apply-level: marker patches through scopes (every code block outside excluded functions, entry / exit blocks, ENTRY /
  EXIT / ANYWHERE offsets, InsertionContext naming the original block/offset/function, registration order across passes).
"""
import itertools
import re

import capstone
import gtirb
import z3
from gtirb_test_helpers import (add_code_block, add_data_block, add_edge, add_function, add_proxy_block, add_symbol, add_text_section,
                                create_test_module)

import gtirb_functions
from gtirb_rewriting import passes as PS
from gtirb_rewriting import rewriting as RW
from gtirb_rewriting import scopes as SC
from gtirb_rewriting import utils as UT
from gtirb_rewriting.patch import Patch, patch_constraints

from pyvc import core, instrument, shims
from pyvc.core import PathEnd, Unsupported
from pyvc.run import BResult, Job
from pyvc.sym import SymBool, SymInt, mk_int, zint


# ------------------------------------------------------------------------------------------------ resolve_offsets
class FakeScope(SC.Scope):
    def __init__(self, offset, length):
        self.offset, self.length = offset, length

    def _needs_disassembly(self):
        return False

    def _replacement_length(self):
        return self.length

    def _potential_offsets(self, block, disassembly):
        yield self.offset
        yield "second potential offset must not be used"


def resolve_harness(ctx):
    n = ctx.choose(5, "n-modifications")
    mods = []
    for i in range(n):
        mid, off, ln = ctx.int("id%d" % i), ctx.int("off%d" % i), ctx.int("len%d" % i)
        ctx.assume(z3.And(off >= 0, ln >= 0, mid >= 0))
        mods.append(RW._Modification(SymInt(mid), FakeScope(SymInt(off), SymInt(ln))))
    ids = [zint(m.id) for m in mods]
    if n > 1:
        ctx.assume(z3.Distinct(ids))                       # itertools.count: registration ids are pairwise distinct
    store = RW._ModificationStore()
    blk = gtirb.DataBlock(offset=0, size=4)
    tag = "resolve_offsets"
    try:
        res = store.resolve_offsets(blk, None, list(mods))
    except AssertionError:
        # overlap reported loudly: there really are two modifications whose ranges overlap (or a later one starts before an earlier ends)
        ov = []
        for a, b in itertools.permutations(mods, 2):
            ao, al, bo = zint(a.scope.offset), zint(a.scope.length), zint(b.scope.offset)
            before = z3.Or(ao < bo, z3.And(ao == bo, zint(a.id) < zint(b.id)))
            ov.append(z3.And(before, bo < ao + al))
        ctx.prove(tag + "/AssertionError-only-when-modifications-overlap", z3.Or(ov + [z3.BoolVal(False)]))
        ctx.cover("overlap")
        return
    ctx.cover("resolved")
    P = ctx.prove
    ok = isinstance(res, list) and len(res) == n and all(isinstance(x, tuple) and len(x) == 2 for x in res)
    P(tag + "/one-pair-per-modification", z3.BoolVal(bool(ok)))
    if not ok:
        return
    P(tag + "/is-a-permutation-of-the-input", z3.BoolVal(sorted(id(m) for m, _ in res) == sorted(id(m) for m in mods)))
    P(tag + "/paired-with-its-first-potential-offset", z3.And([z3.BoolVal(o is m.scope.offset) for m, o in res] + [z3.BoolVal(True)]))
    srt = []
    for (m1, o1), (m2, o2) in zip(res, res[1:]):
        srt.append(z3.Or(zint(o1) < zint(o2), z3.And(zint(o1) == zint(o2), zint(m1.id) < zint(m2.id))))
    P(tag + "/sorted-by-offset-then-registration-order", z3.And(srt + [z3.BoolVal(True)]))
    P(tag + "/non-overlapping-when-accepted", z3.And([zint(o2) >= zint(o1) + zint(m1.scope.length) for (m1, o1), (m2, o2) in zip(res, res[1:])] + [z3.BoolVal(True)]))


def resolve_replay(clause, model):
    def val(p, d=0):
        k = [x for x in model if x.startswith(p + "!")]
        return model[k[0]] if k else d
    n = len([x for x in model if x.startswith("id")])
    mods = [RW._Modification(val("id%d" % i, i), FakeScope(val("off%d" % i), val("len%d" % i))) for i in range(n)]
    store = RW._ModificationStore()
    try:
        res = store.resolve_offsets(gtirb.DataBlock(offset=0, size=4), None, list(mods))
    except AssertionError:
        srt = sorted(mods, key=lambda m: (m.scope.offset, m.id))
        overlap = any(b.scope.offset < a.scope.offset + a.scope.length for a, b in zip(srt, srt[1:]))
        return {"confirmed": not overlap, "observed": "AssertionError", "modifications": [(m.id, m.scope.offset, m.scope.length) for m in mods]}
    got = [(m.id, o) for m, o in res]
    want = sorted(((m.id, m.scope.offset) for m in mods), key=lambda t: (t[1], t[0]))
    return {"confirmed": got != want, "modifications(id,offset,len) in list order": [(m.id, m.scope.offset, m.scope.length) for m in mods],
            "observed": got, "expected": want}


# ------------------------------------------------------------------------------------------------ potential offsets
INSTS = object()
ISIZE = z3.Function("insn_size", z3.IntSort(), z3.IntSort())
_s, _k = z3.Ints("s k")
PSUM = z3.RecFunction("insn_prefix_sum", z3.IntSort(), z3.IntSort())
z3.RecAddDefinition(PSUM, [_k], z3.If(_k <= 0, 0, PSUM(_k - 1) + ISIZE(_k - 1)))


class FakeInsn:
    def __init__(self, idx):
        self.idx = idx
        self.size = SymInt(ISIZE(zint(idx)))


class AnywhereLoop(instrument.LoopSpec):
    """for inst in _nonterminator_instructions(...): yield offset; offset += inst.size
    invariant: k instructions visited, offset == PSUM(k), k offsets yielded (the k-th being PSUM(k-1))"""
    local_names = ("inst",)

    def __init__(self, ctx, iterable, env):
        super().__init__(ctx, iterable, env)
        self.not_applicable = iterable is not INSTS
        self.g = ctx.ghost

    def establish(self, env):
        self.ctx.prove("potential_offsets/ANYWHERE/loop-established", zint(env["offset"]) == 0)

    def havoc(self, env):
        c = self.ctx
        k = c.int("k_visited", inp=False)
        c.assume(z3.And(k >= 0, k <= zint(self.g["n_nonterm"])))
        self.k = k
        self.g["k"] = k
        return {"offset": mk_int(PSUM(k))}

    def has_next(self):
        return mk_bool_(self.k < zint(self.g["n_nonterm"]))

    def element(self):
        return FakeInsn(SymInt(self.k))

    def preserved(self, env):
        self.ctx.prove("potential_offsets/ANYWHERE/loop-preserved", zint(env["offset"]) == PSUM(self.k + 1))
        self.ctx.prove("potential_offsets/ANYWHERE/one-yield-per-instruction", z3.BoolVal(self.g.get("yields_in_iteration") == 1))

    def at_exit(self, env):
        self.g["k_exit"] = self.k


def mk_bool_(t):
    from pyvc.sym import mk_bool
    return mk_bool(t)


def anywhere_harness(ctx):
    g = ctx.ghost
    n = ctx.int("n_nonterminator_instructions")
    ctx.assume(n >= 0)
    g["n_nonterm"] = SymInt(n)
    g["yields_in_iteration"] = 0
    blk = gtirb.CodeBlock(offset=0, size=4)
    real = UT._nonterminator_instructions
    SC._nonterminator_instructions = lambda block, dis: INSTS           # callee by contract: "the non-terminator instructions, in order"
    try:
        gen = SC._potential_offsets_in_block(SC.BlockPosition.ANYWHERE, blk, ("disassembly",))
        got = []
        try:
            for off in gen:
                got.append(off)
                g["yields_in_iteration"] = g.get("yields_in_iteration", 0) + 1
                k = g.get("k")
                if "k_exit" in g:
                    ctx.prove("potential_offsets/ANYWHERE/last-yield-is-the-boundary-after-the-last-non-terminator", zint(off) == PSUM(n))
                else:
                    ctx.prove("potential_offsets/ANYWHERE/k-th-yield-is-the-k-th-instruction-boundary", zint(off) == PSUM(k))
        except PathEnd:
            ctx.cover("iteration")
            raise
        ctx.cover("exhausted")
        ctx.prove("potential_offsets/ANYWHERE/exactly-one-final-yield", z3.BoolVal(len(got) == 1))
    finally:
        SC._nonterminator_instructions = real


def entry_exit_harness(ctx):
    """ENTRY -> 0.  EXIT (E over 0..4 instructions, sizes symbolic, terminator or not): sum of the non-terminator sizes; with a
    complete disassembly that is block.size - size(terminator) (block.size when there is none); partial -> AssertionError."""
    blk = gtirb.CodeBlock(offset=0, size=4)
    ctx.prove("potential_offsets/ENTRY/yields-exactly-0", z3.BoolVal(list(SC._potential_offsets_in_block(SC.BlockPosition.ENTRY, blk, None)) == [0]))
    n = ctx.choose(5, "n-instructions")
    has_term = bool(ctx.choose(2, "has-terminator"))
    sizes = [ctx.int("size%d" % i) for i in range(n)]
    for s in sizes:
        ctx.assume(s >= 1)
    insns = [type("I", (), {"size": SymInt(s)})() for s in sizes]
    bsize = ctx.int("block_size")
    blk = type("B", (), {})()
    blk.size = SymInt(bsize)
    blk.outgoing_edges = [type("E", (), {"label": gtirb.Edge.Label(gtirb.EdgeType.Branch if has_term else gtirb.EdgeType.Fallthrough)})()]
    total = z3.Sum(sizes) if sizes else z3.IntVal(0)
    try:
        got = list(SC._potential_offsets_in_block(SC.BlockPosition.EXIT, blk, tuple(insns)))
    except AssertionError:
        ctx.prove("potential_offsets/EXIT/AssertionError-only-for-partial-disassembly", total != bsize)
        return
    ctx.cover("exit-offset")
    ctx.prove("potential_offsets/EXIT/accepted-only-with-complete-disassembly", total == bsize)
    term = sizes[-1] if (has_term and sizes) else z3.IntVal(0)
    ctx.prove("potential_offsets/EXIT/immediately-before-the-terminator-else-at-the-end",
              z3.And(z3.BoolVal(len(got) == 1), zint(got[0]) == bsize - term) if len(got) == 1 else z3.BoolVal(False))


def nonterminator_harness(ctx):
    # every edge type gtirb knows (a Syscall / Sysret edge also means the last instruction transfers control), pairs of them, and no edge
    kinds = [None] + list(gtirb.EdgeType)
    assert {t.name for t in gtirb.EdgeType} >= {"Branch", "Call", "Fallthrough", "Return", "Syscall", "Sysret"}
    for labels in itertools.product(kinds, repeat=2):
        edges = [type("E", (), {"label": gtirb.Edge.Label(t)})() for t in labels if t is not None]
        blk = type("B", (), {"outgoing_edges": edges})()
        dis = ("i0", "i1", "i2")
        got = list(UT._nonterminator_instructions(blk, dis))
        only_ft = all(t == gtirb.EdgeType.Fallthrough for t in labels if t is not None)
        ctx.prove("nonterminator_instructions/all-iff-only-fallthrough-edges-else-all-but-the-last",
                  z3.BoolVal(got == (list(dis) if only_ft else list(dis[:-1]))), note=str(labels))


# ------------------------------------------------------------------------------------------------ store + scopes (E)
def store_harness(ctx):
    ir, m = create_test_module(gtirb.Module.FileFormat.ELF, gtirb.Module.ISA.X64)
    _, bi = add_text_section(m, address=0x1000)
    b0, b1 = add_code_block(bi, b"\x90"), add_code_block(bi, b"\x90")
    d0 = add_data_block(bi, b"\x00")
    for order in itertools.permutations(range(4)):
        store = RW._ModificationStore()
        mk = [lambda i: RW._Modification(i, SC._SpecificLocationScope(b0, 0)), lambda i: RW._Modification(i, SC.AllBlocksScope(SC.BlockPosition.ENTRY)),
              lambda i: RW._Modification(i, SC.SingleBlockScope(b1, SC.BlockPosition.ENTRY)), lambda i: RW._Modification(i, SC._SpecificLocationScope(b0, 1))]
        mods = {}
        for rid, which in enumerate(order):
            mods[which] = mk[which](rid)
            store.add(mods[which])
        for blk, want in ((b0, {0, 1, 3}), (b1, {1, 2}), (d0, set())):
            got = store.modifications_for_block(m, blk, None)
            ctx.prove("store/each-applicable-modification-exactly-once-and-no-other",
                      z3.BoolVal(sorted(id(x) for x in got) == sorted(id(mods[w]) for w in want)), note="registration order %s" % (order,))
    ctx.cover("enumerated")


def scopes_harness(ctx):
    ir, m = create_test_module(gtirb.Module.FileFormat.ELF, gtirb.Module.ISA.X64)
    _, bi = add_text_section(m, address=0x1000)
    e1, x1 = add_code_block(bi, b"\x90"), add_code_block(bi, b"\xc3")
    e2 = add_code_block(bi, b"\xc3")
    d0 = add_data_block(bi, b"\x00")
    add_edge(ir.cfg, e1, x1, gtirb.EdgeType.Fallthrough)
    add_edge(ir.cfg, x1, add_proxy_block(m), gtirb.EdgeType.Return)
    add_edge(ir.cfg, e2, add_proxy_block(m), gtirb.EdgeType.Return)
    add_function(m, add_symbol(m, "main", e1), e1, {x1})
    add_function(m, add_symbol(m, "helper", e2), e2)
    m.entry_point = e2
    fns = {f.get_name(): f for f in gtirb_functions.Function.build_functions(m)}
    blocks = {"e1": (e1, "main"), "x1": (x1, "main"), "e2": (e2, "helper"), "d0": (d0, None)}
    P = ctx.prove
    pats = [None, set(), {"main"}, {re.compile("hel.*")}, {SC.MAIN_NAME}, {SC.ENTRYPOINT_NAME}, {"nomatch", re.compile("ma")},
            # ordered alternation and lazy quantifiers: "matches the whole name" is fullmatch, which backtracks; a prefix match that
            # happens to stop early is not the same thing
            {re.compile("help|helper")}, {re.compile("m.*?")}, {re.compile("ma|main|x")}, {re.compile("(?:he)+?lper|main$")}, {re.compile("hel")}, {re.compile("")}]

    def matches(fname, pat):
        if fname is None:
            return False
        for p in pat:
            if p == SC.MAIN_NAME and fname == "main":
                return True
            if p == SC.ENTRYPOINT_NAME and fname == "helper":            # the module entry point is helper's entry block
                return True
            if isinstance(p, re.Pattern) and p.fullmatch(fname):
                return True
            if isinstance(p, str) and p not in (SC.MAIN_NAME, SC.ENTRYPOINT_NAME) and p == fname:
                return True
        return False
    for pat in pats:
        for bname, (blk, fname) in blocks.items():
            for with_func in (True, False):
                func = fns[fname] if (fname and with_func) else None
                # AllBlocksScope: every code block outside the excluded functions
                want = isinstance(blk, gtirb.CodeBlock) and not (func is not None and pat is not None and matches(fname, pat))
                got = SC.AllBlocksScope(SC.BlockPosition.ENTRY, pat)._block_matches(m, func, blk)
                P("scopes/AllBlocksScope/every-code-block-outside-the-excluded-functions", z3.BoolVal(got == want), note="%s exclude=%s func=%s" % (bname, pat, func and fname))
                for pos in SC.FunctionPosition:
                    inpos = {"e1": pos == SC.FunctionPosition.ENTRY, "x1": pos == SC.FunctionPosition.EXIT, "e2": True, "d0": False}[bname]
                    want = func is not None and (pat is None or matches(fname, pat)) and inpos
                    got = SC.AllFunctionsScope(pos, SC.BlockPosition.ENTRY, pat)._block_matches(m, func, blk)
                    P("scopes/AllFunctionsScope/entry-or-exit-blocks-of-the-selected-functions", z3.BoolVal(bool(got) == bool(want)), note="%s %s functions=%s func=%s" % (bname, pos.name, pat, func and fname))
    for bname, (blk, fname) in blocks.items():
        for oname, (other, _) in blocks.items():
            if isinstance(other, gtirb.CodeBlock):
                P("scopes/SingleBlockScope/only-the-named-block", z3.BoolVal(SC.SingleBlockScope(other, SC.BlockPosition.ENTRY)._block_matches(m, None, blk) == (blk is other)))
            s = SC._SpecificLocationScope(other, 0, 0)
            P("scopes/_SpecificLocationScope/only-the-named-block", z3.BoolVal(s._block_matches(m, None, blk) == (blk is other) and s._known_targets() == {other}))
    o, l = ctx.int("offset"), ctx.int("length")
    s = SC._SpecificLocationScope(e1, SymInt(o), SymInt(l))
    P("scopes/_SpecificLocationScope/offset-and-length-as-requested", z3.And(zint(next(s._potential_offsets(e1, None))) == o, zint(s._replacement_length()) == l,
                                                                         z3.BoolVal(len(list(s._potential_offsets(e1, None))) == 1)))
    ctx.cover("enumerated")


def passmanager_harness(ctx):
    log = []

    class P1(PS.Pass):
        def __init__(self, n):
            self.n = n

        def begin_module(self, module, functions, rewriting_ctx):
            log.append(("begin", self.n, module.name, id(rewriting_ctx)))

        def end_module(self, module, functions):
            log.append(("end", self.n, module.name))

    class FakeContext:
        def __init__(self, mod, functions, **kw):
            log.append(("ctx", mod.name))

        def apply(self):
            log.append(("apply", id(self)))
    ir = gtirb.IR()
    for nm in ("m1", "m2"):
        gtirb.Module(isa=gtirb.Module.ISA.X64, file_format=gtirb.Module.FileFormat.ELF, name=nm, ir=ir)
    pm = PS.PassManager()
    for i in range(3):
        pm.add(P1(i))
    real = PS.RewritingContext
    PS.RewritingContext = FakeContext
    try:
        pm.run(ir)
    finally:
        PS.RewritingContext = real
    ok = True
    per = {}
    for e in log:
        per.setdefault(e[2] if e[0] in ("begin", "end") else None, []).append(e)
    seq = [e[0] + (str(e[1]) if e[0] in ("begin", "end") else "") for e in log]
    one = ["ctx", "begin0", "begin1", "begin2", "apply", "end0", "end1", "end2"]
    ctx.prove("PassManager.run/begin-in-order-then-one-apply-then-end-in-order-per-module", z3.BoolVal(seq == one + one))
    ctxids = {e[3] for e in log if e[0] == "begin"}
    applied = [e[1] for e in log if e[0] == "apply"]
    ctx.prove("PassManager.run/all-passes-share-the-context-that-is-applied", z3.BoolVal(len(ctxids) == 2 and sorted(ctxids) == sorted(applied)))


def passmanager_real_harness(ctx):
    """PassManager.run with the REAL RewritingContext (E over what the passes register): whatever kinds of registrations the passes make
    -- only named-block ones (insert_at / SingleBlockScope), only scope-wide ones, both, or a deletion only -- every registered patch lands
    exactly once, and the context is applied once per module"""
    from gtirb_rewriting import AllBlocksScope, BlockPosition, Patch, SingleBlockScope, patch_constraints
    kinds = [ctx.choose(5, "pass%d-registers" % i) for i in range(2)]        # 0 nothing, 1 insert_at, 2 SingleBlockScope, 3 AllBlocksScope, 4 delete_at

    def marker(byte):
        @patch_constraints()
        def p(c):
            return ".byte %d" % byte
        return Patch.from_function(p)
    ir, m = create_test_module(gtirb.Module.FileFormat.ELF, gtirb.Module.ISA.X64)
    _, bi = add_text_section(m, address=0x1000)
    b0 = add_code_block(bi, b"\x50\x51\x52\x53\xc3")
    add_function(m, add_symbol(m, "f", b0), b0)

    class P(PS.Pass):
        def __init__(self, k, byte, idx):
            self.k, self.byte, self.idx = k, byte, idx

        def begin_module(self, module, functions, rc):
            if self.k == 1:
                rc.insert_at(b0, 1, marker(self.byte))
            elif self.k == 2:
                rc.register_insert(SingleBlockScope(b0, BlockPosition.ENTRY), marker(self.byte))
            elif self.k == 3:
                rc.register_insert(AllBlocksScope(BlockPosition.ENTRY), marker(self.byte))
            elif self.k == 4:
                rc.delete_at(b0, 2 + self.idx, 1)         # pass 0 deletes the byte 0x52, pass 1 the byte 0x53 (no overlap with the insertions at 0 / 1)
    pm = PS.PassManager()
    for i, k in enumerate(kinds):
        pm.add(P(k, 0xF1 + i, i))
    import logging
    logging.getLogger("gtirb_rewriting").setLevel(logging.CRITICAL)
    pm.run(ir)
    data = b"".join(bytes(i.contents) for i in sorted(bi.section.byte_intervals, key=lambda i: i.address))
    want_counts = {0xF1 + i: (1 if k in (1, 2, 3) else 0) for i, k in enumerate(kinds)}
    got_counts = {b: data.count(bytes([b])) for b in want_counts}
    ctx.prove("PassManager.run/every-registered-patch-lands-exactly-once-whatever-the-kinds-of-registration", z3.BoolVal(got_counts == want_counts),
              note="markers %s expected %s in %s" % (got_counts, want_counts, data.hex()))
    ctx.prove("PassManager.run/registered-deletions-are-applied", z3.BoolVal((0x52 in data) == (kinds[0] != 4) and (0x53 in data) == (kinds[1] != 4)), note=data.hex())


# ------------------------------------------------------------------------------------------------ bounded apply-level
def bounded(tier, seed):
    def run():
        import logging
        logging.getLogger("gtirb_rewriting").setLevel(logging.CRITICAL)
        from gtirb_rewriting import RewritingContext
        br = BResult()
        br.bound = ("x86-64 module with functions main (entry [push; jne], exit [nop; ret]), helper ([ret], module entry point) and a code block outside any "
                    "function; marker patches (int3 / ud2 / hlt ...) registered through AllBlocksScope (exclusions), AllFunctionsScope ENTRY/EXIT, SingleBlockScope and "
                    "insert_at in several registration orders, BlockPosition ENTRY/EXIT/ANYWHERE; markers located in the output bytes")
        br.clauses = ["C07/marker-exactly-once-in-each-designated-block-and-nowhere-else", "C07/placed-at-the-requested-position",
                      "C07/InsertionContext-names-the-original-block-offset-function", "C07/same-location-patches-in-registration-order"]
        markers = [b"\xcc", b"\x0f\x0b", b"\xf4", b"\xfa", b"\xfb"]
        texts = ["int3", "ud2", "hlt", "cli", "sti"]
        distinct = set()

        def build():
            ir, m = create_test_module(gtirb.Module.FileFormat.ELF, gtirb.Module.ISA.X64)
            _, bi = add_text_section(m, address=0x1000)
            e1 = add_code_block(bi, b"\x50\x75\x00")          # push rax ; jne
            x1 = add_code_block(bi, b"\x90\xc3")              # nop ; ret
            e2 = add_code_block(bi, b"\xc3")
            lone = add_code_block(bi, b"\x51\x52")            # outside any function, falls through
            tail = add_code_block(bi, b"\xc3")
            add_edge(ir.cfg, e1, x1, gtirb.EdgeType.Branch, conditional=True)
            add_edge(ir.cfg, e1, x1, gtirb.EdgeType.Fallthrough)
            add_edge(ir.cfg, x1, add_proxy_block(m), gtirb.EdgeType.Return)
            add_edge(ir.cfg, e2, add_proxy_block(m), gtirb.EdgeType.Return)
            add_edge(ir.cfg, lone, tail, gtirb.EdgeType.Fallthrough)
            add_edge(ir.cfg, tail, add_proxy_block(m), gtirb.EdgeType.Return)
            bi.symbolic_expressions[2] = gtirb.SymAddrConst(0, add_symbol(m, "x1", x1))
            add_function(m, add_symbol(m, "main", e1), e1, {x1})
            add_function(m, add_symbol(m, "helper", e2), e2)
            m.entry_point = e2
            fl = gtirb_functions.Function.build_functions(m)
            return ir, m, bi, dict(e1=e1, x1=x1, e2=e2, lone=lone, tail=tail), fl
        orig = {"e1": b"\x50\x75\x00", "x1": b"\x90\xc3", "e2": b"\xc3", "lone": b"\x51\x52", "tail": b"\xc3"}
        order = ["e1", "x1", "e2", "lone", "tail"]
        exit_off = {"e1": 1, "x1": 1, "e2": 0, "lone": 2, "tail": 0}
        fn_of = {"e1": "main", "x1": "main", "e2": "helper", "lone": None, "tail": None}
        regs = [
            ("AllBlocks/ENTRY", lambda B: SC.AllBlocksScope(SC.BlockPosition.ENTRY), lambda b: True, "ENTRY"),
            ("AllBlocks/EXIT/exclude-main", lambda B: SC.AllBlocksScope(SC.BlockPosition.EXIT, {"main"}), lambda b: fn_of[b] != "main", "EXIT"),
            ("AllBlocks/ANYWHERE/exclude-entrypoint", lambda B: SC.AllBlocksScope(SC.BlockPosition.ANYWHERE, {SC.ENTRYPOINT_NAME}), lambda b: b != "e2", "ANYWHERE"),
            ("AllFunctions/ENTRY", lambda B: SC.AllFunctionsScope(SC.FunctionPosition.ENTRY, SC.BlockPosition.ENTRY), lambda b: b in ("e1", "e2"), "ENTRY"),
            ("AllFunctions/EXIT/main", lambda B: SC.AllFunctionsScope(SC.FunctionPosition.EXIT, SC.BlockPosition.EXIT, {SC.MAIN_NAME}), lambda b: b == "x1", "EXIT"),
            ("SingleBlock/lone/EXIT", lambda B: SC.SingleBlockScope(B["lone"], SC.BlockPosition.EXIT), lambda b: b == "lone", "EXIT"),
            ("insert_at/e1/0", None, lambda b: b == "e1", "ENTRY"),
            ("insert_at/lone/2", None, lambda b: b == "lone", "EXIT"),
        ]
        combos = [c for r in (1, 2, 3) for c in itertools.permutations(range(len(regs)), r)]
        import random
        rnd = random.Random(seed)
        if tier == "quick":
            rnd.shuffle(combos)
            combos = [c for c in combos if len(c) == 1] + combos[:160]
        for combo, hook in [(c, h) for c in combos for h in ((False, True) if len(c) <= 2 else (False,))]:
            ir, m, bi, B, fl = build()
            rc = RewritingContext(m, fl)
            hooksym = None
            if hook:
                # a function inserted in the same round: the scopes designate blocks of the module as it was handed in, never the new function
                hooksym = rc.register_insert_function("hook", Patch.from_function(patch_constraints()(lambda ictx: "nop\nret")))
            seen = []
            for k, ri in enumerate(combo):
                name, mk, pred, pos = regs[ri]

                def mkpatch(k=k, name=name):
                    @patch_constraints()
                    def p(ictx):
                        seen.append((k, ictx.block, ictx.offset, ictx.function.get_name() if ictx.function else None))
                        return texts[k]
                    return Patch.from_function(p)
                if mk is None:
                    blk = B[name.split("/")[1]]
                    rc.insert_at(blk, int(name.split("/")[2]), mkpatch())
                else:
                    rc.register_insert(mk(B), mkpatch())
            br.cases += 1
            distinct.add((combo, hook))
            desc = {"registrations in order": [regs[i][0] for i in combo], "a function inserted in the same round": hook}
            try:
                rc.apply()
            except Exception as e:
                br.failures.append({"clause": "C07/marker-exactly-once-in-each-designated-block-and-nowhere-else", "witness": desc, "detail": "%s: %s" % (type(e).__name__, str(e)[:80])})
                continue
            # expected listing: per block, per offset, markers in registration order
            want = b""
            for b in order:
                ins = {}
                for k, ri in enumerate(combo):
                    name, mk, pred, pos = regs[ri]
                    if pred(b):
                        off = 0 if pos in ("ENTRY", "ANYWHERE") else exit_off[b]
                        ins.setdefault(off, []).append(markers[k])
                data = orig[b]
                out = b""
                for o in range(len(data) + 1):
                    out += b"".join(ins.get(o, []))
                    out += data[o:o + 1]
                want += out
            hook_ivs = set()
            if hook:
                hb = hooksym.referent
                hook_ivs = {hb.byte_interval}
                hbytes = b"".join(bytes(b_.contents) for b_ in sorted(hb.byte_interval.blocks, key=lambda b_: b_.offset))
                if hbytes.rstrip(b"\x90\xcc\x00") != b"\x90\xc3" and hbytes != b"\x90\xc3":
                    br.failures.append({"clause": "C07/marker-exactly-once-in-each-designated-block-and-nowhere-else", "witness": desc,
                                        "detail": "the function inserted in the same round was itself instrumented: its bytes are %s" % hbytes.hex()})
            got = b"".join(bytes(i.contents) for i in sorted(m.byte_intervals, key=lambda i: i.address) if i not in hook_ivs)
            if got != want:
                # classify
                cnt_ok = all(got.count(markers[k]) == sum(1 for b in order if regs[ri][2](b)) for k, ri in enumerate(combo))
                cl = "C07/marker-exactly-once-in-each-designated-block-and-nowhere-else" if not cnt_ok else \
                    ("C07/same-location-patches-in-registration-order" if sorted(got) == sorted(want) else "C07/placed-at-the-requested-position")
                br.failures.append({"clause": cl, "witness": desc, "detail": "bytes %s expected %s" % (got.hex(), want.hex())})
            for k, blk, off, fname in seen:
                name, mk, pred, pos = regs[combo[k]]
                bn = [n for n, x in B.items() if x is blk]
                ok = bool(bn) and pred(bn[0]) and fname == fn_of[bn[0]] and off == (0 if pos in ("ENTRY", "ANYWHERE") else exit_off[bn[0]])
                if not ok:
                    br.failures.append({"clause": "C07/InsertionContext-names-the-original-block-offset-function", "witness": desc,
                                        "detail": "patch %d saw block %s offset %s function %s" % (k, bn, off, fname)})
            if len(br.samples) < 2:
                br.samples.append(desc)
        br.nontrivial = len(distinct)
        return br
    return run


class _anywhere_setup:
    def __enter__(self):
        self.cms = [shims.installed([SC]), instrument.instrumented({"scopes:_potential_offsets_in_block": (SC._potential_offsets_in_block, {0: AnywhereLoop}, False)})]
        for c in self.cms:
            c.__enter__()
        return self

    def __exit__(self, *e):
        for c in reversed(self.cms):
            c.__exit__(*e)
        return False


def jobs(tier="quick", seed=0):
    yield Job("C07/resolve_offsets", resolve_harness, setup=lambda: shims.installed([RW]), replay=resolve_replay, kind="D",
              func="gtirb_rewriting.rewriting:_ModificationStore.resolve_offsets", expect_cover=("resolved", "overlap"), max_seconds=900)
    yield Job("C07/potential_offsets/ANYWHERE", anywhere_harness, setup=_anywhere_setup, kind="D", func="gtirb_rewriting.scopes:_potential_offsets_in_block",
              expect_cover=("iteration", "exhausted"))
    yield Job("C07/potential_offsets/ENTRY-EXIT", entry_exit_harness, setup=lambda: shims.installed([SC, UT]), kind="D",
              func="gtirb_rewriting.scopes:_potential_offsets_in_block", expect_cover=("exit-offset",))
    yield Job("C07/nonterminator_instructions", nonterminator_harness, kind="E", func="gtirb_rewriting.utils:_nonterminator_instructions")
    yield Job("C07/store", store_harness, kind="E", func="gtirb_rewriting.rewriting:_ModificationStore.add/modifications_for_block", expect_cover=("enumerated",))
    yield Job("C07/scopes", scopes_harness, setup=lambda: shims.installed([SC]), kind="E", func="gtirb_rewriting.scopes:*._block_matches/pattern_match", expect_cover=("enumerated",))
    yield Job("C07/PassManager.run-real-context", passmanager_real_harness, kind="E", func="gtirb_rewriting.passes:PassManager.run")
    yield Job("C07/PassManager.run", passmanager_harness, kind="D", func="gtirb_rewriting.passes:PassManager.run")
    yield Job("C07/apply-bounded", bounded(tier, seed), kind="B", func="gtirb_rewriting.rewriting:RewritingContext.apply")
