"""Heap kernel, part 2: _modify.split:split_block (carries C01 geometry, C02 labels, C03 edges, C04 tables, C06, C08).

The real split_block runs on REAL gtirb objects (module, interval, blocks, symbols, CFG, aux tables) and the real
ModifyCache; block offset / size and the split offset are symbolic integers (gtirb stores them in plain fields, its
lazy interval index is never queried), the offset-keyed tables hold arbitrary (symbolic) content.  Shapes are enumerated
(E): block kind x out-edge configuration x function information x CFI directives at the split offset.
  G  block keeps offset, size' = k; new block: same class, same interval, offset + k, size - k; contents untouched
  L  start labels stay on the head; end labels move to the tail and stay end labels
  E  k < size: all out-edges move to the tail unchanged, head gets exactly one Fallthrough to the tail
     k = size: only fallthrough out-edges move; connecting fallthrough iff the block fell through
  T  every offset-keyed table: head keeps the entries < k, tail gets the entries >= k re-keyed by -k (absolute position kept)
  C  cfiDirectives likewise with the endproc rule at k: directives before the first .cfi_endproc stay on the head
  F  the tail is in the function of the head (table and cache);   O  the tail directly follows the head in the ordering
"""
import itertools

import gtirb
import z3
from gtirb_test_helpers import add_code_block, add_data_block, add_edge, add_function, add_proxy_block, add_symbol, add_text_section, create_test_module

import gtirb_functions
from gtirb_rewriting import _auxdata, _auxdata_offsetmap
from gtirb_rewriting._adt import OffsetMapping
from gtirb_rewriting._auxdata import NULL_UUID
from gtirb_rewriting._modify import make_modify_cache
from gtirb_rewriting._modify import split as SP

from pyvc import core, instrument, shims
from pyvc.containers import CompDict, MapBase, PDict
from pyvc.run import Job
from pyvc.sym import SymBool, SymInt, mk_int, zint

from .kernel_edit import HAS, NONEMPTY, VAL, Opaque

EDGE_CONFIGS = ["none", "fallthrough", "branch", "call+fallthrough", "cond-branch+fallthrough"]
CFI_AT_SPLIT = [None, [], ["x"], ["end"], ["x", "end", "y"], ["start", "x"]]
DIR = {"x": (".cfi_undefined", [1], NULL_UUID), "y": (".cfi_undefined", [2], NULL_UUID), "end": (".cfi_endproc", [], NULL_UUID),
       "start": (".cfi_startproc", [], NULL_UUID)}


def table_map(ctx, mid, special_key=None, special_value=None):
    """arbitrary displacement map; the entry at `special_key` (the split offset), if requested, is a concrete list"""
    def has(k):
        ctx.assume(z3.Implies(HAS(mid, k), NONEMPTY(mid)))
        if special_key is not None and z3.simplify(k).eq(z3.simplify(special_key)):
            return z3.BoolVal(special_value is not None)
        return HAS(mid, k)

    def get(k):
        if special_key is not None and z3.simplify(zint(k)).eq(z3.simplify(special_key)):
            return list(special_value)
        return Opaque(VAL(mid, zint(k)))
    b = MapBase(has, get, "map%s" % mid)
    b.nonempty = NONEMPTY(mid)
    b.mid = mid
    return PDict(base=b)


def build(kind, edges, funcs, ff=gtirb.Module.FileFormat.ELF):
    ir, m = create_test_module(ff, gtirb.Module.ISA.X64)
    _, bi = add_text_section(m, address=0x1000)
    mk = add_code_block if kind == "code" else add_data_block
    prev = mk(bi, b"\x90")
    blk = mk(bi, b"\x90\x90\x90\x90")
    nxt = mk(bi, b"\x90\xc3")
    tgt = add_code_block(bi, b"\xc3")
    s_start = add_symbol(m, "S", blk)
    s_end = add_symbol(m, "E", blk)
    s_end.at_end = True
    cfg = ir.cfg
    if kind == "code":
        add_edge(cfg, prev, blk, gtirb.EdgeType.Fallthrough)
        if "fallthrough" in edges:
            add_edge(cfg, blk, nxt, gtirb.EdgeType.Fallthrough)
        if edges == "branch":
            add_edge(cfg, blk, tgt, gtirb.EdgeType.Branch)
        if edges.startswith("cond-branch"):
            add_edge(cfg, blk, tgt, gtirb.EdgeType.Branch, conditional=True)
        if edges.startswith("call"):
            add_edge(cfg, blk, tgt, gtirb.EdgeType.Call)
            add_edge(cfg, tgt, nxt, gtirb.EdgeType.Return)
        else:
            add_edge(cfg, tgt, add_proxy_block(m), gtirb.EdgeType.Return)
    fl = []
    if funcs and kind == "code":
        add_function(m, add_symbol(m, "f", prev), prev, {blk, nxt})
        add_function(m, add_symbol(m, "g", tgt), tgt)
        fl = gtirb_functions.Function.build_functions(m)
    return ir, m, bi, prev, blk, nxt, tgt, s_start, s_end, fl


def make_harness(kind, edges, funcs, cfi_at):
    def harness(ctx):
        ir, m, bi, prev, blk, nxt, tgt, s_start, s_end, fl = build(kind, edges, funcs)
        o, s, k = ctx.int("block_offset"), ctx.int("block_size"), ctx.int("split_offset")
        ctx.assume(z3.And(o >= 0, s >= 0, k >= 0, k <= s))
        contents0 = bi.contents
        # symbolic tables
        tabs = {}
        for i, tdef in enumerate(_auxdata_offsetmap.OFFSETMAP_AUX_DATA_TABLES):
            om = OffsetMapping()
            mid = ctx.int("table%d" % i, inp=False)
            om._data[blk] = table_map(ctx, mid)
            om._data[nxt] = {0: "other"}
            m.aux_data[tdef.name] = gtirb.AuxData(type_name=tdef.type_name, data=om)
            tabs[tdef.name] = (om, mid)
        cfi_mid = ctx.int("cfi_table", inp=False)
        cfi_om = OffsetMapping()
        special = None if cfi_at is None else [DIR[x] for x in cfi_at]
        cfi_om._data[blk] = table_map(ctx, cfi_mid, special_key=k, special_value=special)
        m.aux_data["cfiDirectives"] = gtirb.AuxData(type_name=_auxdata.cfi_directives.type_name, data=cfi_om)
        out0 = sorted(((e.target, e.label.type, e.label.conditional) for e in blk.outgoing_edges), key=repr) if kind == "code" else []
        with make_modify_cache(m, fl) as cache:
            blk._offset, blk._size = SymInt(o), SymInt(s)
            if (kind == "data" or (edges == "fallthrough" and not funcs)) and ctx.choose(2, "previous-block-is-empty"):
                prev._size = 0               # a zero-sized block (e.g. one that only carries a symbol) directly in front of the block
            head, tail, ft = SP.split_block(cache, blk, SymInt(k))
            ctx.cover("split")
            P = ctx.prove
            tag = "split_block"
            P(tag + "/G/head-geometry", z3.And(z3.BoolVal(head is blk), zint(blk.offset) == o, zint(blk.size) == k))
            P(tag + "/G/tail-geometry", z3.And(z3.BoolVal(type(tail) is type(blk) and tail.byte_interval is bi and tail is not blk),
                                             zint(tail.offset) == o + k, zint(tail.size) == s - k))
            P(tag + "/G/contents-and-other-blocks-untouched", z3.BoolVal(bi.contents is contents0 and nxt.offset == 5 and nxt.size == 2 and prev.offset == 0 and prev.size in (0, 1)))
            rc = cache.reference_cache
            P(tag + "/L/start-label-stays-on-the-head", z3.BoolVal(rc.get_referent(s_start) is blk and not s_start.at_end))
            P(tag + "/L/end-label-moves-to-the-tail-as-an-end-label", z3.BoolVal(rc.get_referent(s_end) is tail and s_end.at_end))
            P(tag + "/O/tail-directly-follows-the-head", z3.BoolVal(cache.adjacent_blocks(blk) == (prev, tail) and cache.adjacent_blocks(tail) == (blk, nxt)))
            if kind == "code":
                end_split = ctx.branch(k == s)
                hout = sorted(((e.target, e.label.type, e.label.conditional) for e in blk.outgoing_edges), key=repr)
                tout = sorted(((e.target, e.label.type, e.label.conditional) for e in tail.outgoing_edges), key=repr)
                conn = (tail, gtirb.EdgeType.Fallthrough, False)
                if not end_split:
                    P(tag + "/E/middle-split-moves-all-out-edges-to-the-tail", z3.BoolVal(tout == out0 and hout == [conn]))
                    P(tag + "/E/reports-the-added-fallthrough", z3.BoolVal(ft is not None and ft.source is blk and ft.target is tail))
                else:
                    fts = [x for x in out0 if x[1] == gtirb.EdgeType.Fallthrough]
                    rest = [x for x in out0 if x[1] != gtirb.EdgeType.Fallthrough]
                    want_head = sorted(rest + ([conn] if fts else []), key=repr)
                    P(tag + "/E/end-split-moves-only-fallthroughs", z3.BoolVal(tout == fts and hout == want_head))
                    P(tag + "/E/connecting-fallthrough-iff-the-block-fell-through", z3.BoolVal((ft is not None) == bool(fts)))
                    if edges.startswith("call"):
                        rets = sorted((e.target for e in tgt.outgoing_edges if e.label.type == gtirb.EdgeType.Return), key=repr)
                        P(tag + "/E/callee-returns-follow-the-moved-fallthrough", z3.BoolVal(rets == ([tail] if funcs else [nxt])),
                          note="with function information the return site of the call is now the tail")
                P(tag + "/E/incoming-edges-untouched", z3.BoolVal([e.source for e in blk.incoming_edges] == [prev] and not list(tail.incoming_edges) or ft is not None))
                fb = _auxdata.function_blocks.get(m)
                if funcs:
                    fu = cache.functions_by_block.get(blk)
                    P(tag + "/F/tail-in-the-function-of-the-head", z3.BoolVal(fu is not None and cache.functions_by_block.get(tail) == fu and tail in fb[fu] and blk in fb[fu]))
                else:
                    P(tag + "/F/no-function-invented", z3.BoolVal(cache.functions_by_block.get(tail) is None))
            # offset-keyed tables
            kk = ctx.int("k_entry")
            for name, (om, mid) in tabs.items():
                check_partition(ctx, tag + "/T", om, mid, blk, tail, nxt, k, kk, strict_tail=False)
            check_partition(ctx, tag + "/C", cfi_om, cfi_mid, blk, tail, None, k, kk, strict_tail=True)
            # directives exactly at the split offset
            hd, tl = cfi_om._data.get(blk), cfi_om._data.get(tail)
            if isinstance(hd, CompDict) and isinstance(tl, CompDict):
                items = special or []
                idx = next((i for i, d in enumerate(items) if d[0] == ".cfi_endproc"), len(items))
                keep, move = items[:idx], items[idx:]
                hw = [(kx, v) for (_, kx, v) in hd.log]
                tw = [(kx, v) for (_, kx, v) in tl.log]
                ok_keep = (not keep and not hw) or (len(hw) == 1 and hw[0][1] == keep and z3.is_true(z3.simplify(zint(hw[0][0]) == k)))
                ok_move = (not move and not tw) or (len(tw) == 1 and tw[0][1] == move and tw[0][0] == 0)
                P(tag + "/C/at-the-split-offset-directives-before-endproc-stay-the-rest-moves", z3.BoolVal(bool(ok_keep and ok_move)),
                  note="directives at the split offset: %s" % (cfi_at,))
    return harness


def check_partition(ctx, tag, om, mid, blk, tail, other, k, kk, strict_tail):
    hd, tl = om._data.get(blk), om._data.get(tail)
    if isinstance(hd, PDict) and not hd.log and tl is None:
        ctx.prove(tag + "/untouched-only-if-empty", z3.Not(NONEMPTY(mid)))
        return
    ok = isinstance(hd, CompDict) and isinstance(tl, CompDict) and hd.src.base.mid.eq(mid) and tl.src.base.mid.eq(mid)
    ctx.prove(tag + "/head-and-tail-maps-are-restrictions-of-the-old-map", z3.BoolVal(bool(ok)))
    if not ok:
        return
    key1, v1, c1, v0 = hd.entry(SymInt(kk))
    key2, v2, c2, v0b = tl.entry(SymInt(kk))
    t = lambda c: c.term if isinstance(c, SymBool) else z3.BoolVal(bool(c))
    ctx.prove(tag + "/head-keeps-entries-before-the-split", z3.And(t(c1) == (kk < k), zint(key1) == kk, z3.BoolVal(v1 is v0)))
    ctx.prove(tag + "/tail-gets-entries-%s-rekeyed" % ("after-the-split" if strict_tail else "from-the-split-on"),
              z3.And(t(c2) == ((kk > k) if strict_tail else (kk >= k)), z3.Implies(t(c2), zint(key2) == kk - k), z3.BoolVal(v2 is v0b)))
    if other is not None:
        ctx.prove(tag + "/other-blocks-entries-untouched", z3.BoolVal(om._data.get(other) == {0: "other"}))


class setup:
    def __enter__(self):
        self.cms = [shims.installed([SP]), instrument.instrumented({"split:split_block": (SP.split_block, {}, True)})]
        for c in self.cms:
            c.__enter__()
        return self

    def __exit__(self, *e):
        for c in reversed(self.cms):
            c.__exit__(*e)
        return False


def replay_split(kind, edges, funcs, cfi_at):
    def rp(clause, model):
        """native: real split_block on the concrete shape at the model's offset; oracle: the contract stated natively"""
        def val(prefix, d=0):
            kx = [x for x in model if x.startswith(prefix + "!")]
            return model[kx[0]] if kx else d
        size = 4
        bad = []
        for k, prev_empty in [(k_, pe) for k_ in sorted({max(0, min(val("split_offset", 2), size)), 0, size, 2}) for pe in (False, True)]:
            ir, m, bi, prev, blk, nxt, tgt, s_start, s_end, fl = build(kind, edges, funcs)
            comments = {gtirb.Offset(blk, i): "c%d" % i for i in range(size)}
            _auxdata.comments.set(m, dict(comments))
            special = None if cfi_at is None else [DIR[x] for x in cfi_at]
            cfi = {gtirb.Offset(blk, i): [DIR["x"]] for i in range(size + 1) if i != k}
            if special:
                cfi[gtirb.Offset(blk, k)] = list(special)
            _auxdata.cfi_directives.set(m, cfi)
            with make_modify_cache(m, fl) as cache:
                if prev_empty:
                    prev.size = 0            # a zero-sized block directly in front (ordering fixed when the cache was built)
                head, tail, ft = SP.split_block(cache, blk, k)
            if head is not blk or (blk.size, tail.offset, tail.size) != (k, 1 + k, size - k):
                bad.append("k=%d%s geometry: head is %s, sizes %s" % (k, " (empty predecessor)" if prev_empty else "", "the block" if head is blk else "ANOTHER block", (blk.size, tail.offset, tail.size)))
                continue
            if s_start.referent is not blk or s_start.at_end or s_end.referent is not tail or not s_end.at_end:
                bad.append("k=%d labels" % k)
            got = {(("head" if kx.element_id is blk else "tail"), kx.displacement): v for kx, v in _auxdata.comments.get(m).items()}
            want = {(("head", i) if i < k else ("tail", i - k)): "c%d" % i for i in range(size)}
            if got != want:
                bad.append("k=%d comments %s" % (k, sorted(got.items())))
            ct = _auxdata.cfi_directives.get(m)
            items = special or []
            idx = next((i for i, d in enumerate(items) if d[0] == ".cfi_endproc"), len(items))
            got_head = ct.get(gtirb.Offset(blk, k), [])
            got_tail = ct.get(gtirb.Offset(tail, 0), [])
            if list(got_head) != items[:idx] or list(got_tail) != items[idx:]:
                bad.append("k=%d cfi at the split offset: head %s tail %s" % (k, [d[0] for d in got_head], [d[0] for d in got_tail]))
            if kind == "code":
                hout = sorted((e.label.type.name, e.target is tail) for e in blk.outgoing_edges)
                if k < size and hout != [("Fallthrough", True)]:
                    bad.append("k=%d head edges %s" % (k, hout))
        return {"confirmed": bool(bad), "shape": [kind, edges, funcs, cfi_at], "observed": bad[:4]}
    return rp


def jobs(tier="quick", seed=0):
    for kind in ("code", "data"):
        for edges in (EDGE_CONFIGS if kind == "code" else ["none"]):
            for funcs in ((False, True) if kind == "code" else (False,)):
                for cfi_at in CFI_AT_SPLIT:
                    yield Job("K/split_block/%s/%s/%s/cfi=%s" % (kind, edges, "funcs" if funcs else "nofuncs", "-".join(cfi_at) if cfi_at else ("empty" if cfi_at == [] else "none")),
                              make_harness(kind, edges, funcs, cfi_at), setup=setup, replay=replay_split(kind, edges, funcs, cfi_at), kind="E",
                              func="gtirb_rewriting._modify.split:split_block", expect_cover=("split",), timeout_ms=30000)
