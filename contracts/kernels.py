"""which deductive kernel jobs carry which property"""
from . import kernel_applymods, kernel_auxdata, kernel_compose, kernel_edges, kernel_intervals, kernel_edit, kernel_functions, kernel_join, kernel_othersec, kernel_remove, kernel_split

# (module, predicate on obligation clause) : a kernel job is run once per property that lists it; evidence counts every
# obligation of that job under the property (the clause letters G/L/E/T/C/F/O say which property each one carries)
KERNELS = {
    "C01": [kernel_edit, kernel_split, kernel_join, kernel_compose, kernel_othersec, kernel_applymods],
    "C02": [kernel_split, kernel_join, kernel_remove, kernel_compose, kernel_othersec],
    "C03": [kernel_split, kernel_edges, kernel_join, kernel_remove, kernel_compose],
    "C04": [kernel_edit, kernel_split, kernel_join, kernel_remove, kernel_othersec],
    "C05": [kernel_functions, kernel_join, kernel_remove, kernel_auxdata, kernel_intervals, kernel_othersec],
    "C06": [kernel_split, kernel_functions, kernel_join, kernel_compose],
    "C10": [kernel_intervals],
    "C08": [kernel_split, kernel_join, kernel_remove],
}


def jobs_for(prop, tier, seed):
    for mod in KERNELS.get(prop, []):
        for j in mod.jobs(tier, seed):
            j.id = "%s/%s" % (prop, j.id)
            yield j
