"""C17 -- CallPatch follows the calling convention and is stack-neutral.

Functions under contract (real source): patches.calls:_CallPatchImpl._create_passed_args, _CallPatchX86.__init__/get_asm,
_CallPatchARM64.__init__/get_asm/_load_immediate/_load_symbol, utils:align_address.
The real get_asm runs on symbolic integer arguments, a symbolic stack_adjustment / shadow_space and a convention with
nr registers (E: argument count 0..16 x nr 0..8 x alignment x caller/callee cleanup x argument kinds); the emitted
text is executed on spec/machine.CallMachine from a symbolic machine state.  At the call instruction:
  REG     the i-th argument is in the i-th convention register (value modulo 2^W; a symbol: its address)
  STACK   the remaining arguments are in consecutive slots above the shadow space, in order
  SHADOW  nothing of ours lies inside [sp, sp + shadow_space)
  ALIGN   sp = 0 mod stack_alignment, given (sp_entry + stack_adjustment) = 0 mod alignment (stack_adjustment known)
          or sp_entry = 0 mod alignment (align_stack), stack_adjustment a multiple of the slot size (C16 postcondition)
  NEUTRAL sp after the sequence == sp before it (the callee removes the stack arguments iff callee-cleanup)
  OPERAND every number in the text is one the assembler can encode in that position and denotes the intended integer
  CTX     argument callables are called with the insertion context
"""
import itertools

import gtirb
import z3

from gtirb_rewriting import abi as A, utils as UT
from gtirb_rewriting.abi import ABI, CallingConventionDesc
from gtirb_rewriting.patch import InsertionContext
from gtirb_rewriting.patches import calls as CP

from pyvc import core, shims
from pyvc.core import Unsupported
from pyvc.run import Job
from pyvc.sym import SymInt, is_sym, zint
from spec.machine import ADDR, CallMachine, Unmodelled

PROPERTY = "C17"
X86_ABIS = [("X64-ELF", gtirb.Module.ISA.X64, gtirb.Module.FileFormat.ELF), ("X64-PE", gtirb.Module.ISA.X64, gtirb.Module.FileFormat.PE),
            ("IA32-PE", gtirb.Module.ISA.IA32, gtirb.Module.FileFormat.PE)]


def mk_module(isa, ff):
    ir = gtirb.IR()
    m = gtirb.Module(isa=isa, file_format=ff, name="m", ir=ir)
    callee = gtirb.Symbol("callee_fn", payload=gtirb.ProxyBlock(module=m), module=m)
    syms = [gtirb.Symbol("argsym%d" % i, payload=gtirb.ProxyBlock(module=m), module=m) for i in range(16)]
    return m, callee, syms


def mk_args(ctx, n, pattern, syms, W, calls_log):
    """argument list per pattern; returns (args, expected[i] = ('int', term) | ('sym', name))"""
    args, exp = [], []
    for i in range(n):
        kind = {"int": "int", "sym": "sym", "mixed": ("int", "sym")[i % 2], "callable": "callable"}[pattern]
        if kind == "sym":
            args.append(syms[i])
            exp.append(("sym", syms[i].name))
            continue
        v = ctx.int("arg%d" % i)
        ctx.assume(z3.And(v >= -(1 << (W - 1)), v < (1 << W)))          # integers that fit a register
        if kind == "callable":
            v_other = ctx.int("arg%d_at_other_site" % i)
            ctx.assume(z3.And(v_other >= -(1 << (W - 1)), v_other < (1 << W)))

            def f(c, v=v, i=i, v_other=v_other):
                calls_log.append((i, c))
                # the value depends on where the patch is inserted (as a per-site tag would)
                return SymInt(v if getattr(c, "offset", 0) == 0 else v_other)
            args.append(f)
        else:
            args.append(SymInt(v))
        exp.append(("int", v))
    return args, exp


def check_call(ctx, tag, m, exp, conv_regs, shadow, W, w, AL, sp_entry_aligned_pre):
    P = ctx.prove
    if m.at_call is None:
        ctx.fail(tag + "/CALL/exactly-one-call", "no call instruction was executed")
        return
    ac = m.at_call
    P(tag + "/CALL/target-is-the-callee", z3.BoolVal(ac["target"] == "callee_fn"))
    for desc, cond in m.operand_errors:
        P(tag + "/OPERAND/encodable-and-denotes-the-intended-integer", z3.Not(cond), note=desc)
    two = 1 << W
    nr = len(conv_regs)
    for i, (kind, v) in enumerate(exp):
        want = v if kind == "int" else ADDR(z3.StringVal(v))
        if i < nr:
            got = z3.Select(ac["reg"], m.reg_index(conv_regs[i])[1])
            P(tag + "/REG/argument-%s-in-its-convention-register" % ("integer" if kind == "int" else "symbol-address"), (got - want) % two == 0,
              note="argument %d" % i)
        else:
            j = i - nr
            got = z3.Select(ac["mem"], ac["sp"] + zint(shadow) + j * w)
            P(tag + "/STACK/argument-%s-in-its-stack-slot" % ("integer" if kind == "int" else "symbol-address"), (got - want) % two == 0,
              note="argument %d slot %d" % (i, j))
    P(tag + "/SHADOW/no-store-inside-the-shadow-space", z3.And([z3.Or(a >= ac["sp"] + zint(shadow), a + wd <= ac["sp"]) for a, wd in m.stores] + [z3.BoolVal(True)]))
    P(tag + "/ALIGN/sp-aligned-at-the-call", ac["sp"] % AL == 0)
    P(tag + "/NEUTRAL/sp-restored", m.sp == m.sp0)


def x86_harness(name, isa, ff, AL, cleanup, adj_known, pattern):
    def harness(ctx):
        mod, callee, syms = mk_module(isa, ff)
        abi = ABI.get(mod)
        w = abi.pointer_size()
        W = 8 * w
        n = ctx.choose(17, "n-args")
        nr = ctx.choose(9, "n-conv-registers")
        regpool = [r.name.upper() for r in abi.all_registers()]
        # a convention never passes arguments in the stack pointer; registers pairwise distinct by construction
        conv_regs = tuple(regpool[:nr]) if nr <= len(regpool) else None
        if conv_regs is None:
            raise core.PathEnd()
        shadow = SymInt(ctx.int("shadow_space"))
        ctx.assume(z3.And(zint(shadow) >= 0, zint(shadow) < (1 << 20)))        # domain: sane sizes (imm32 operands)
        conv = CallingConventionDesc(registers=conv_regs, stack_alignment=AL, caller_cleanup=bool(cleanup), shadow_space=shadow)
        calls_log = []
        args, exp = mk_args(ctx, n, pattern, syms, W, calls_log)
        patch = CP.CallPatch(callee, args, conv)
        ctx.prove("%s/constraints/declares-flags-argument-registers-alignment-and-caller-saved" % name,
                  z3.BoolVal(patch.constraints.clobbers_flags and patch.constraints.align_stack and patch.constraints.preserve_caller_saved_registers
                             and set(patch.constraints.clobbers_registers) == set(conv_regs[:min(n, nr)])))
        adj = SymInt(ctx.int("stack_adjustment")) if adj_known else None
        if adj_known:
            # what the prologue generators can report (C16): non-negative multiples of the slot size
            ctx.assume(z3.And(zint(adj) >= 0, zint(adj) < (1 << 20), zint(adj) % w == 0))
        if pattern == "callable":
            # the same patch object is inserted at another site first: nothing of that insertion may leak into this one
            other = InsertionContext(module=mod, function=None, block=None, offset=1, stack_adjustment=adj)
            patch.get_asm(other)
            del calls_log[:]
        ictx = InsertionContext(module=mod, function=None, block=None, offset=0, stack_adjustment=adj)
        text = patch.get_asm(ictx)
        ctx.cover("generated")
        nstack = max(0, n - nr)
        m = CallMachine(ctx, abi, "intel", callee_pops=(0 if cleanup else nstack * w))
        if adj_known:
            ctx.assume((m.sp0 + zint(adj)) % AL == 0)
        else:
            ctx.assume(m.sp0 % AL == 0)
        tag = "%s/n=%d/nr=%d" % (name, n, nr)
        try:
            m.run(text)
        except Unmodelled as e:
            raise Unsupported(str(e))
        check_call(ctx, tag, m, exp, conv_regs, shadow, W, w, AL, None)
        if pattern == "callable":
            ctx.prove(tag + "/CTX/callables-receive-the-insertion-context", z3.BoolVal(sorted(i for i, c in calls_log) == list(range(n)) and all(c is ictx for _, c in calls_log)))
    return harness


class arm64_stubs:
    """_CallPatchARM64._load_immediate / _load_symbol replaced by their contracts (proved in C17/ARM64/load_*):
    'the lines leave `value mod 2^64` / the symbol's address in `reg` and touch nothing else'"""

    def __enter__(self):
        self.a = shims.installed([CP, UT])
        self.a.__enter__()
        self.real = (CP._CallPatchARM64._load_immediate, CP._CallPatchARM64._load_symbol)
        CP._CallPatchARM64._load_immediate = lambda self_, reg, value: iter(["LOADIMM %s, %s" % (reg, value)])
        CP._CallPatchARM64._load_symbol = lambda self_, reg, sym: iter(["LOADSYM %s, %s" % (reg, sym.name)])
        return self

    def __exit__(self, *e):
        CP._CallPatchARM64._load_immediate, CP._CallPatchARM64._load_symbol = self.real
        self.a.__exit__(*e)
        return False


def _arm_impl():
    mod, callee, syms = mk_module(gtirb.Module.ISA.ARM64, gtirb.Module.FileFormat.ELF)
    imp = CP._CallPatchARM64(callee, [], CallingConventionDesc(("x0",), 16, True, 0))
    return mod, imp, syms


def load_immediate_harness(ctx):
    mod, imp, syms = _arm_impl()
    v = ctx.int("value")
    ctx.assume(z3.And(v >= -(1 << 63), v < (1 << 64)))
    lines = list(imp._load_immediate("x5", SymInt(v)))
    ctx.cover("generated")
    m = CallMachine(ctx, ABI.get(mod), "arm64")
    try:
        m.run("\n".join(lines))
    except Unmodelled as e:
        raise Unsupported(str(e))
    for desc, cond in m.operand_errors:
        ctx.prove("ARM64/load_immediate/OPERAND/encodable-and-denotes-the-intended-integer", z3.Not(cond), note=desc)
    j = ctx.int("j_reg")
    five = m.reg_index("x5")[1]
    ctx.prove("ARM64/load_immediate/register-holds-the-value-mod-2^64", (z3.Select(m.reg, five) - v) % (1 << 64) == 0)
    ctx.prove("ARM64/load_immediate/no-other-register-no-memory-no-sp", z3.And(z3.Implies(j != five, z3.Select(m.reg, j) == z3.Select(m.reg0, j)),
                                                                              m.sp == m.sp0, z3.BoolVal(not m.stores and not m.loads)))


def load_symbol_harness(ctx):
    mod, imp, syms = _arm_impl()
    lines = list(imp._load_symbol("x5", syms[0]))
    m = CallMachine(ctx, ABI.get(mod), "arm64")
    m.run("\n".join(lines))
    five = m.reg_index("x5")[1]
    j = ctx.int("j_reg")
    ctx.prove("ARM64/load_symbol/register-holds-the-symbol-address", z3.Select(m.reg, five) == ADDR(z3.StringVal(syms[0].name)))
    ctx.prove("ARM64/load_symbol/no-other-register-no-memory-no-sp", z3.And(z3.Implies(j != five, z3.Select(m.reg, j) == z3.Select(m.reg0, j)),
                                                                           m.sp == m.sp0, z3.BoolVal(not m.stores and not m.loads)))


def _old_replay_load_immediate(clause, model):
    k = [x for x in model if x.startswith("value!")]
    v = model[k[0]] if k else 0

    def factory(mod, callee, syms, n, nr, val):
        return CP.CallPatch(callee, [v], CallingConventionDesc(("x0",), 16, True, 0)), InsertionContext(mod, None, None, 0, stack_adjustment=0), [v]
    info = _replay_common(factory, gtirb.Module.ISA.ARM64, gtirb.Module.FileFormat.ELF, "/n=1/nr=1/", model)
    if info.get("confirmed", 0) is None:
        return info
    return dict(info, confirmed=not info["assembles"], observed="the real assembler rejects the emitted text" if not info["assembles"] else "assembles")


def arm64_harness(pattern):
    def harness(ctx):
        mod, callee, syms = mk_module(gtirb.Module.ISA.ARM64, gtirb.Module.FileFormat.ELF)
        abi = ABI.get(mod)
        n = ctx.choose(17, "n-args")
        nr = ctx.choose(9, "n-conv-registers")
        conv_regs = tuple("x%d" % i for i in range(nr))
        conv = CallingConventionDesc(registers=conv_regs, stack_alignment=16, caller_cleanup=True, shadow_space=0)
        calls_log = []
        args, exp = mk_args(ctx, n, pattern, syms, 64, calls_log)
        patch = CP.CallPatch(callee, args, conv)
        want_clob = set(conv_regs[:min(n, nr)]) | {"x30"} | ({"x0"} if n > nr else set())
        ctx.prove("ARM64/constraints/declares-argument-registers-x30-and-x0-when-used",
                  z3.BoolVal(patch.constraints.clobbers_flags and patch.constraints.preserve_caller_saved_registers and set(patch.constraints.clobbers_registers) == want_clob))
        if pattern == "callable":
            patch.get_asm(InsertionContext(module=mod, function=None, block=None, offset=1, stack_adjustment=0))
            del calls_log[:]
        ictx = InsertionContext(module=mod, function=None, block=None, offset=0, stack_adjustment=SymInt(ctx.int("stack_adjustment")))
        text = patch.get_asm(ictx)
        ctx.cover("generated")
        m = CallMachine(ctx, abi, "arm64", callee_pops=0)
        ctx.assume(m.sp0 % 16 == 0)                       # sp after the prologue: entry sp and its adjustment are multiples of 16 (C16)
        tag = "ARM64/n=%d/nr=%d" % (n, nr)
        try:
            m.run(text)
        except Unmodelled as e:
            raise Unsupported(str(e))
        check_call(ctx, tag, m, exp, conv_regs, 0, 64, 8, 16, None)
        ctx.prove(tag + "/ALIGN/sp-16-aligned-at-every-access", z3.And(m.sp_aligned_at_access + [z3.BoolVal(True)]))
        if pattern == "callable":
            ctx.prove(tag + "/CTX/callables-receive-the-insertion-context", z3.BoolVal(sorted(i for i, c in calls_log) == list(range(n)) and all(c is ictx for _, c in calls_log)))
    return harness


def refusals_harness(ctx):
    """ARM64 conventions the implementation documents as unsupported are refused loudly"""
    mod, callee, syms = mk_module(gtirb.Module.ISA.ARM64, gtirb.Module.FileFormat.ELF)
    for conv, why in ((CallingConventionDesc(("x0",), 16, True, 32), "shadow"), (CallingConventionDesc(("x0",), 8, True, 0), "alignment")):
        try:
            CP.CallPatch(callee, [1], conv)
            ctx.fail("ARM64/refuses-%s" % why, "accepted")
        except ValueError:
            ctx.prove("ARM64/refuses-%s" % why, z3.BoolVal(True))
    m2, c2, _ = mk_module(gtirb.Module.ISA.MIPS32, gtirb.Module.FileFormat.ELF)
    try:
        CP.CallPatch(c2, [1])
        ctx.fail("MIPS32/unsupported-isa-is-NotImplementedError", "accepted")
    except NotImplementedError:
        ctx.prove("MIPS32/unsupported-isa-is-NotImplementedError", z3.BoolVal(True))


def align_address_harness(ctx):
    """utils.align_address(a, 2^k): least multiple of 2^k that is >= a   (E over k = 0..12, a symbolic)"""
    k = ctx.choose(13, "log2-alignment")
    al = 1 << k
    a = ctx.int("address")
    r = UT.align_address(SymInt(a), al)
    r = zint(r)
    ctx.prove("align_address/multiple", r % al == 0)
    ctx.prove("align_address/least-above", z3.And(r >= a, r < a + al))


# ------------------------------------------------------------------------------------------------ native replay
def _replay_common(patch_factory, isa, ff, clause, model, arm=False):
    """rebuild concrete arguments from the model, run the REAL get_asm, assemble the text with the real Assembler and
    disassemble it with capstone; report what the machine code does vs what the convention demands"""
    from gtirb_rewriting.assembler import Assembler
    from gtirb_rewriting.assembly import X86Syntax

    def val(prefix, d=0):
        k = [x for x in model if x.startswith(prefix + "!")]
        return model[k[0]] if k else d
    n = int(clause.split("/n=")[1].split("/")[0]) if "/n=" in clause else 1
    nr = int(clause.split("/nr=")[1].split("/")[0]) if "/nr=" in clause else 1
    mod, callee, syms = mk_module(isa, ff)
    info = {"n_args": n, "n_conv_registers": nr}
    try:
        patch, ictx, argdesc = patch_factory(mod, callee, syms, n, nr, val)
        text = patch.get_asm(ictx)
    except Exception as e:
        return dict(info, confirmed=None, error="native get_asm raised %s: %s" % (type(e).__name__, e))
    info.update(arguments=argdesc, emitted=text.splitlines())
    try:
        asm = Assembler(mod, allow_undef_symbols=True)
        asm.assemble(text, X86Syntax.INTEL)
        res = asm.finalize()
        data = bytes(res.text_section.data)
        import capstone
        cs = capstone.Cs(*{gtirb.Module.ISA.X64: (capstone.CS_ARCH_X86, capstone.CS_MODE_64), gtirb.Module.ISA.IA32: (capstone.CS_ARCH_X86, capstone.CS_MODE_32),
                           gtirb.Module.ISA.ARM64: (capstone.CS_ARCH_ARM64, capstone.CS_MODE_ARM)}[isa])
        info["disassembly"] = ["%s %s" % (i.mnemonic, i.op_str) for i in cs.disasm(data, 0)]
        info["assembles"] = True
    except Exception as e:
        info["assembles"] = False
        info["assembler_error"] = "%s: %s" % (type(e).__name__, str(e)[:200])
    return info


def _concrete_check(isa, ff, text, syntax, exp, conv_regs, shadow, AL, adj, callee_pops, arm=False):
    """evaluate the natively emitted text on the machine from an entry state that is concrete where the model is
    (sp, adjustment) and universally quantified elsewhere; returns the list of failed clauses"""
    mod, callee, syms = mk_module(isa, ff)
    abi = ABI.get(mod)
    w = abi.pointer_size()
    sub = core.Ctx([], 20000)
    old = core.CUR
    core.CUR = sub
    try:
        m = CallMachine(sub, abi, syntax, callee_pops=callee_pops)
        if adj is not None:
            sub.assume((m.sp0 + adj) % AL == 0)
        else:
            sub.assume(m.sp0 % AL == 0)
        m.run(text)
        check_call(sub, "replay", m, [(k, z3.IntVal(v) if k == "int" else v) for k, v in exp], conv_regs, shadow, 8 * w, w, AL, None)
        if arm:
            sub.prove("replay/ALIGN/sp-16-aligned-at-every-access", z3.And(m.sp_aligned_at_access + [z3.BoolVal(True)]))
    finally:
        core.CUR = old
    return sorted({r.name + (" (" + r.note + ")" if r.note else "") for r in sub.results if r.status != "proved"})


def x86_replay(name, isa, ff, AL, cleanup, adj_known, pattern):
    def rp(clause, model):
        def val(prefix, d=0):
            k = [x for x in model if x.startswith(prefix + "!")]
            return model[k[0]] if k else d
        store = {}

        def factory(mod, callee, syms, n, nr, val_):
            abi = ABI.get(mod)
            regpool = [r.name.upper() for r in abi.all_registers()]
            conv = CallingConventionDesc(tuple(regpool[:nr]), AL, bool(cleanup), val("shadow_space", 0))
            args, desc, exp = [], [], []
            for i in range(n):
                kind = {"int": "int", "sym": "sym", "mixed": ("int", "sym")[i % 2], "callable": "callable"}[pattern]
                a = syms[i] if kind == "sym" else val("arg%d" % i, i)
                if kind == "callable":
                    args.append(lambda c, a=a, o=val("arg%d_at_other_site" % i, 1000 + i): a if c.offset == 0 else o)
                else:
                    args.append(a)
                desc.append(a.name if kind == "sym" else a)
                exp.append(("sym", a.name) if kind == "sym" else ("int", a))
            store.update(conv=conv, exp=exp, n=n, nr=nr)
            patch = CP.CallPatch(callee, args, conv)
            adjv = val("stack_adjustment", 0) if adj_known else None
            if pattern == "callable":
                patch.get_asm(InsertionContext(mod, None, None, 1, stack_adjustment=adjv))      # the same patch inserted at another site first
            return patch, InsertionContext(mod, None, None, 0, stack_adjustment=adjv), desc
        info = _replay_common(factory, isa, ff, clause, model)
        if info.get("confirmed", 0) is None:
            return info
        w = 8 if isa == gtirb.Module.ISA.X64 else 4
        if "/constraints/" in clause:
            return dict(info, confirmed=None, error="constraint declaration clause: no machine run applies")
        try:
            failed = _concrete_check(isa, ff, "\n".join(info["emitted"]), "intel", store["exp"], store["conv"].registers, store["conv"].shadow_space, AL,
                                     val("stack_adjustment", 0) if adj_known else None, 0 if cleanup else max(0, store["n"] - store["nr"]) * w)
        except Exception as e:
            return dict(info, confirmed=None, error="%s: %s" % (type(e).__name__, e))
        info["clauses_failing_on_the_natively_emitted_text"] = failed[:8]
        want = clause.split("/", 3)[-1].split("/")[0]           # REG / STACK / ALIGN / ...
        hit = [f for f in failed if "/" + want + "/" in f]
        if want == "OPERAND" and hit:
            # an operand the machine table calls unencodable: the real assembler must agree
            return dict(info, confirmed=not info["assembles"], observed="the real assembler %s the emitted text" % ("rejects" if not info["assembles"] else "accepts"))
        return dict(info, confirmed=bool(hit), observed="clause fails on the text the real get_asm emits for these arguments" if hit else "clause holds on the natively emitted text")
    return rp


def arm64_replay(pattern):
    def rp(clause, model):
        def val(prefix, d=0):
            k = [x for x in model if x.startswith(prefix + "!")]
            return model[k[0]] if k else d
        store = {}

        def factory(mod, callee, syms, n, nr, val_):
            conv = CallingConventionDesc(tuple("x%d" % i for i in range(nr)), 16, True, 0)
            args, desc, exp = [], [], []
            for i in range(n):
                kind = {"int": "int", "sym": "sym", "mixed": ("int", "sym")[i % 2], "callable": "callable"}[pattern]
                a = syms[i] if kind == "sym" else val("arg%d" % i, i)
                if kind == "callable":
                    args.append(lambda c, a=a, o=val("arg%d_at_other_site" % i, 1000 + i): a if c.offset == 0 else o)
                else:
                    args.append(a)
                desc.append(a.name if kind == "sym" else a)
                exp.append(("sym", a.name) if kind == "sym" else ("int", a))
            store.update(conv=conv, exp=exp, n=n, nr=nr)
            p = CP.CallPatch(callee, args, conv)
            if pattern == "callable":
                p.get_asm(InsertionContext(mod, None, None, 1, stack_adjustment=0))
            store["constraints"] = p.constraints
            return p, InsertionContext(mod, None, None, 0, stack_adjustment=0), desc
        info = _replay_common(factory, gtirb.Module.ISA.ARM64, gtirb.Module.FileFormat.ELF, clause, model, arm=True)
        if info.get("confirmed", 0) is None:
            return info
        if "/constraints/" in clause:
            c = store["constraints"]
            n, nr = store["n"], store["nr"]
            want = set(store["conv"].registers[:min(n, nr)]) | {"x30"} | ({"x0"} if n > nr else set())
            return dict(info, confirmed=set(c.clobbers_registers) != want or not c.clobbers_flags, observed=sorted(c.clobbers_registers), expected=sorted(want))
        try:
            failed = _concrete_check(gtirb.Module.ISA.ARM64, gtirb.Module.FileFormat.ELF, "\n".join(info["emitted"]), "arm64", store["exp"], store["conv"].registers, 0, 16, None, 0, arm=True)
        except Exception as e:
            return dict(info, confirmed=None, error="%s: %s" % (type(e).__name__, e))
        info["clauses_failing_on_the_natively_emitted_text"] = failed[:8]
        want = clause.split("/", 3)[-1].split("/")[0]
        hit = [f for f in failed if "/" + want + "/" in f]
        if want == "OPERAND" and hit:
            return dict(info, confirmed=not info["assembles"], observed="the real assembler %s the emitted text" % ("rejects" if not info["assembles"] else "accepts"))
        return dict(info, confirmed=bool(hit), observed="clause fails on the natively emitted text" if hit else "clause holds on the natively emitted text")
    return rp


def replay_load_immediate(clause, model):
    """native: real _load_immediate on the model's value (and neighbours in the same branch); the text is assembled
    with the real assembler and evaluated on the machine"""
    k = [x for x in model if x.startswith("value!")]
    v0 = model[k[0]] if k else 0
    mod, imp, syms = _arm_impl()
    abi = ABI.get(mod)
    out = {"tried": []}
    for v in [v0, v0 + 1, v0 - 1, 0x10001, 0x12345, -0x10001, 0xFFFF, -0xFFFF, 0x1234_5678_9ABC_DEF0, -(1 << 63), (1 << 64) - 1]:
        if not (-(1 << 63) <= v < (1 << 64)):
            continue
        lines = list(imp._load_immediate("x5", v))

        def factory(mod_, callee, syms_, n, nr, val, v=v):
            return CP.CallPatch(callee, [v], CallingConventionDesc(("x5",), 16, True, 0)), InsertionContext(mod_, None, None, 0, stack_adjustment=0), [v]
        info = _replay_common(factory, gtirb.Module.ISA.ARM64, gtirb.Module.FileFormat.ELF, "/n=1/nr=1/", {})
        sub = core.Ctx([], 20000)
        old = core.CUR
        core.CUR = sub
        try:
            m = CallMachine(sub, abi, "arm64")
            m.run("\n".join(lines))
            got = z3.simplify(z3.Select(m.reg, m.reg_index("x5")[1]))
        except Exception as e:
            got = "machine: %s" % e
        finally:
            core.CUR = old
        ok_val = z3.is_int_value(got) and got.as_long() == v % (1 << 64)
        out["tried"].append({"value": v, "emitted": lines, "assembles": info.get("assembles"), "register_after": str(got)})
        if not info.get("assembles") or not ok_val:
            return dict(out, confirmed=True, value=v, emitted=lines, assembles=info.get("assembles"), assembler_error=info.get("assembler_error"),
                        observed="x5 = %s" % got, expected="x5 = %d" % (v % (1 << 64)), disassembly=info.get("disassembly"))
    return dict(out, confirmed=False, observed="every tried value assembles and loads the right value")


def args_iterable_harness(ctx):
    """`args` is declared Iterable: a tuple, a list, a generator or any single-pass iterable of the same values give the same patch
    (same declared constraints, same text).  E over every module kind CallPatch supports x 5 kinds of iterable x 0..3 arguments."""
    kinds = [(n, isa, ff) for n, isa, ff in X86_ABIS] + [("ARM64-ELF", gtirb.Module.ISA.ARM64, gtirb.Module.FileFormat.ELF)]
    name, isa, ff = kinds[ctx.choose(len(kinds), "module")]
    how = ["list", "generator", "iter-of-tuple", "map-object", "zip-derived"][ctx.choose(5, "kind-of-iterable")]
    n = ctx.choose(4, "n-args")
    mod, callee, syms = mk_module(isa, ff)
    vals = [5, syms[0] if syms else 7, 0x1234][:n]

    def make(kind):
        if kind == "tuple":
            return tuple(vals)
        return {"list": list(vals), "generator": (v for v in vals), "iter-of-tuple": iter(tuple(vals)), "map-object": map(lambda v: v, vals),
                "zip-derived": (v for v, _ in zip(vals, range(len(vals))))}[kind]

    def describe(kind):
        p = CP.CallPatch(callee, make(kind))
        c = p.constraints
        ictx = InsertionContext(module=mod, function=None, block=None, offset=0, stack_adjustment=0)
        return (sorted(c.clobbers_registers), c.clobbers_flags, c.align_stack, c.preserve_caller_saved_registers, p.get_asm(ictx), p.get_asm(ictx))
    want = describe("tuple")
    got = describe(how)
    ctx.cover("enumerated")
    ctx.prove("CallPatch/args-may-be-any-iterable-of-the-same-values", z3.BoolVal(got == want),
              note="%s, %d args as %s: constraints %s text %r; as a tuple: constraints %s text %r" % (name, n, how, got[:4], got[4][:60], want[:4], want[4][:60]))
    ctx.prove("CallPatch/the-same-patch-gives-the-same-text-twice", z3.BoolVal(got[4] == got[5] and want[4] == want[5]))


def jobs(tier="quick", seed=0):
    yield Job("C17/args-iterable", args_iterable_harness, kind="E", func="gtirb_rewriting.patches.calls:CallPatch.__init__ / _CallPatchImpl._create_passed_args", expect_cover=("enumerated",))
    yield Job("C17/align_address", align_address_harness, setup=lambda: shims.installed([UT]), kind="E", func="gtirb_rewriting.utils:align_address")
    yield Job("C17/refusals", refusals_harness, kind="D", func="gtirb_rewriting.patches.calls:CallPatch.__init__")
    pats = ["int", "mixed", "callable"] if tier == "quick" else ["int", "sym", "mixed", "callable"]
    for name, isa, ff in X86_ABIS:
        w = 8 if isa == gtirb.Module.ISA.X64 else 4
        als = sorted({w, 16}) if tier == "quick" else sorted({w, 2 * w, 16, 32})
        for AL, cleanup, adj_known, pattern in itertools.product(als, (1, 0), (1, 0), pats):
            yield Job("C17/%s/align=%d/%s/adj=%s/%s" % (name, AL, "caller-cleanup" if cleanup else "callee-cleanup", "known" if adj_known else "unknown", pattern),
                      x86_harness(name, isa, ff, AL, cleanup, adj_known, pattern), setup=lambda: shims.installed([CP, UT]),
                      replay=x86_replay(name, isa, ff, AL, cleanup, adj_known, pattern), kind="E",
                      func="gtirb_rewriting.patches.calls:_CallPatchX86.get_asm", expect_cover=("generated",), max_seconds=1500)
    # dependency: get_asm trusts InsertionContext.stack_adjustment; the contract that makes it "the real displacement of the stack pointer
    # by the frame around the patch" is C16's ADJ clause on ABI._create_prologue_and_epilogue -- discharged here again, for the frames
    # that report an adjustment (align_stack off), so that C17 stands on its own
    from . import c16
    for j in c16._jobs_e(tier, seed):
        if "/align=0/" in j.id and not j.id.startswith("C16/MIPS32"):
            j.id = "C17/frame/" + j.id[4:]
            yield j
    yield Job("C17/ARM64/load_immediate", load_immediate_harness, setup=lambda: shims.installed([CP, UT]), replay=lambda c, m: replay_load_immediate(c, m), kind="D",
              func="gtirb_rewriting.patches.calls:_CallPatchARM64._load_immediate", expect_cover=("generated",), timeout_ms=180000)
    yield Job("C17/ARM64/load_symbol", load_symbol_harness, setup=lambda: shims.installed([CP, UT]), kind="D",
              func="gtirb_rewriting.patches.calls:_CallPatchARM64._load_symbol")
    for pattern in pats:
        yield Job("C17/ARM64/%s" % pattern, arm64_harness(pattern), setup=arm64_stubs, replay=arm64_replay(pattern), kind="E",
                  func="gtirb_rewriting.patches.calls:_CallPatchARM64.get_asm", expect_cover=("generated",), max_seconds=1500)
