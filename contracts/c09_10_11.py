"""C09 (caches transparent, batch == one-at-a-time), C10 (no-op identity, split/join round trip, alignment),
C11 (determinism) -- bounded stand-ins (B) plus the deductive pieces that exist for them.

C09  D: _invoke_patch hands the assembler only symbols whose referent has been resolved through the ReferenceCache
        (contracts/c16_invoke.py CACHE clause);  containers themselves: C20.
     B: (i) batch vs sequential: the same modifications applied in one apply() and one context at a time in address order give
        the same canonical dump up to temporary-label suffixes; (ii) MONITOR on the real _modify.insert / delete (rebinding in
        gtirb_rewriting.rewriting): after every call the cache answers agree with the IR -- functions_by_block mirrors
        functionBlocks, adjacent_blocks is the address order of the section's blocks, the return-edge cache equals a scan of
        ir.cfg, every symbol's referent through the reference cache is a live block of the module.
C10  D: utils.align_address (power-of-two alignments, all addresses): least multiple >= address.
     B: no-op apply() is the identity on the canonical dump (apart from leafFunctions); split_byte_interval -> join_byte_intervals
        restores a fully initialised interval exactly and every block keeps bytes and address in between (all layouts of <= 3
        blocks over 5 bytes, overlaps and zero-sized blocks included); alignment table entries still hold after rewrites and
        padding is nop (after code) / zero (after data) bytes covered by blocks.
C11  D: the order-insensitivity corollaries live in the proved contracts (resolve_offsets total order C07, allocation sorted by
        ABI index C16).
     B: the same scenario executed in fresh interpreters with different PYTHONHASHSEED values gives identical canonical dumps.
"""
import itertools
import json
import logging
import os
import re
import subprocess
import sys

import gtirb
import z3

from gtirb_rewriting import _auxdata
from gtirb_rewriting import rewriting as RW
from gtirb_rewriting import utils as UT
from gtirb_rewriting._adt import OffsetMapping
from gtirb_rewriting.intervalutils import join_byte_intervals, split_byte_interval

from pyvc import shims
from pyvc.run import BResult, Job
from pyvc.sym import SymInt, zint

ROOT = os.path.dirname(os.path.dirname(os.path.abspath(__file__)))


def _canon_norm(c):
    """canonical dump with temporary-label suffixes and the leafFunctions table normalised away"""
    s = json.dumps(c, sort_keys=True, default=str)
    s = re.sub(r"(\.L\w+?)_\d+", r"\1_N", s)
    return s


def _listing(ir, m):
    """listing-level description (bytes, labels, annotations, functions, CFI state, instruction-level CFG): the block partition
    itself is NOT compared -- batch and sequential application may legitimately cut the same instructions into blocks
    differently (e.g. [nop; ret] as one block or two) as long as the flattened control flow is the same"""
    from bounded.view import listing
    return _canon_norm(listing(ir, m))


def _dump(ir, drop=("leafFunctions",)):
    from bounded.canon import canon
    c = canon(ir)
    for m in c:
        if isinstance(c[m], dict) and "aux" in c[m]:
            for d in drop:
                c[m]["aux"].pop(d, None)
    return _canon_norm(c)


# ------------------------------------------------------------------------------------------------ C09
def cache_invariant_problems(cache, ir, m):
    pr = []
    fb = _auxdata.function_blocks.get(m)
    if fb is not None and cache.functions_by_block:
        inv = {b: u for u, bs in fb.items() for b in bs}
        if inv != dict(cache.functions_by_block):
            pr.append("functions_by_block does not mirror functionBlocks")
    for sect in m.sections:
        # mid-rewrite every block lives in its own interval with a stale address, so the IR has no order to compare with;
        # what can be compared: the ordering knows exactly the blocks of the section, and neighbours are mutual
        order = cache.block_ordering[sect]
        for b in sect.byte_blocks:
            try:
                p, n = order.adjacent_blocks(b)
            except KeyError:
                pr.append("a block of section %s is missing from the ordering" % sect.name)
                continue
            for x in (p, n):
                if x is not None and x.section is not sect:
                    pr.append("the ordering mentions a block that left the section")
            if n is not None and order.adjacent_blocks(n)[0] is not b:
                pr.append("ordering: successor/predecessor links are not mutual")
    rc = cache.return_cache
    scan = {}
    for e in ir.cfg:
        if e.label is not None and e.label.type == gtirb.EdgeType.Return:
            scan.setdefault(e.source, set()).add(e)
    if dict(rc._return_edges) != scan:
        pr.append("return-edge cache differs from a scan of ir.cfg")
    live = set(m.byte_blocks) | set(m.proxies)
    for s in m.symbols:
        node = cache.reference_cache._referents.get(s)
        if node is None:
            r = s.referent
        else:
            root = node
            while hasattr(root, "parent") and not isinstance(root.parent, gtirb.Block):
                root = root.parent
            r = root.parent
        if r is not None and isinstance(r, gtirb.Block) and r not in live:
            pr.append("symbol %s resolves (through the reference cache) to a block that left the module" % s.name)
    return pr


class CacheMonitor:
    def __enter__(self):
        self.real = (RW.insert, RW.delete)
        self.problems, self.calls = [], 0
        mon = self

        def wrap(f):
            def g(cache, block, *a, **kw):
                m = cache.module
                r = f(cache, block, *a, **kw)
                mon.calls += 1
                mon.problems += cache_invariant_problems(cache, m.ir, m)
                return r
            return g
        RW.insert, RW.delete = wrap(self.real[0]), wrap(self.real[1])
        return self

    def __exit__(self, *e):
        RW.insert, RW.delete = self.real
        return False


def c09_bounded(tier, seed):
    def run():
        from bounded import driver, scen
        logging.getLogger("gtirb_rewriting").setLevel(logging.CRITICAL)
        br = BResult()
        br.bound = "the C01-C08 scenario space (bounded/scen.py) restricted to edit SETS (pairs, multi-block sets) for batch-vs-sequential; all scenarios for the cache monitor"
        br.clauses = ["C09/batch-equals-one-at-a-time", "C09/cache-answers-agree-with-the-IR-after-every-modification", "C09/labels-of-removed-blocks-usable-by-later-patches"]
        distinct = set()
        calls = 0
        for shape, edits in driver.scenario_space(tier, seed, patches=["plain", "jmpL2", "ret", "callg", "lab"]):
            edits = [tuple(e) + ((1,) if len(e) == 4 else ()) for e in edits]
            br.cases += 1
            distinct.add((repr(shape), tuple(edits)))
            desc = {"shape": repr(shape), "edits": [list(e) for e in edits]}
            # batch with monitor
            ir, m, bi, blocks, fl = scen.build(shape)
            rc = RW.RewritingContext(m, fl)
            for e in edits:
                scen.register(rc, blocks[e[4]], e[:4])
            with CacheMonitor() as mon:
                try:
                    rc.apply()
                    bexc = None
                except Exception as ex:
                    bexc = ex
            calls += mon.calls
            for p in sorted(set(mon.problems))[:3]:
                br.failures.append({"clause": "C09/cache-answers-agree-with-the-IR-after-every-modification", "witness": desc, "detail": p})
            if len(edits) < 2:
                continue
            batch = None if bexc else _listing(ir, m)
            # sequential: one context per modification, in address order, offsets adjusted by what was applied before
            ir2, m2, bi2, blocks2, fl2 = scen.build(shape)
            order = sorted(range(len(edits)), key=lambda i: (blocks2[edits[i][4]].address, edits[i][1], i))
            sexc = None
            # blocks in address order (the order matters when labels slide from a deleted block into a block that a later
            # modification deletes with retarget_to_proxy); within ONE block from the highest offset down, so that the
            # remaining offsets of that block stay valid (same final listing as address order)
            seq_order = sorted(order, key=lambda i: (blocks2[edits[i][4]].address, -edits[i][1], -i))
            for i in seq_order:
                e = edits[i]
                import gtirb_functions
                fl2 = gtirb_functions.Function.build_functions(m2) if shape.funcs else []
                rc2 = RW.RewritingContext(m2, fl2)
                if blocks2[e[4]].module is not m2:
                    sexc = "target block no longer in the module"
                    break
                scen.register(rc2, blocks2[e[4]], e[:4])
                try:
                    rc2.apply()
                except Exception as ex:
                    sexc = ex
                    break
            if bexc or sexc:
                if bool(bexc) != bool(sexc) and not isinstance(sexc, str):
                    br.failures.append({"clause": "C09/batch-equals-one-at-a-time", "witness": desc,
                                        "detail": "batch %s / sequential %s" % (type(bexc).__name__ if bexc else "ok", type(sexc).__name__ if sexc else "ok")})
                continue
            same_pos = len({(e[4], e[1]) for e in edits}) < len(edits)
            if same_pos:
                continue          # at equal offsets the sequential emulation (reverse order) would need registration order reversed: skipped
            seq = _listing(ir2, m2)
            if batch != seq:
                diff = [k for k in json.loads(batch) if json.loads(batch)[k] != json.loads(seq).get(k)]
                br.failures.append({"clause": "C09/batch-equals-one-at-a-time", "witness": desc, "detail": "listings differ in %s" % diff})
            if len(br.samples) < 2:
                br.samples.append(desc)
        # a later patch naming a label whose block an earlier modification removed (F-C09)
        from gtirb_test_helpers import add_code_block, add_edge, add_symbol, add_text_section, create_test_module
        for delete_first in (True, False):
            ir, m = create_test_module(gtirb.Module.FileFormat.ELF, gtirb.Module.ISA.X64)
            _, tbi = add_text_section(m, address=0x1000)
            b1, b2, b3 = add_code_block(tbi, b"\x90"), add_code_block(tbi, b"\x90\x90"), add_code_block(tbi, b"\x90\xc3")
            add_symbol(m, "foo", b1)
            add_edge(ir.cfg, b1, b2, gtirb.EdgeType.Fallthrough)
            add_edge(ir.cfg, b2, b3, gtirb.EdgeType.Fallthrough)
            rc = RW.RewritingContext(m, [])
            if delete_first:
                rc.delete_at(b1, 0, b1.size)
            rc.insert_at(b3, 1, scen.mkpatch("jmp foo"))
            br.cases += 1
            try:
                rc.apply()
                tg = [e.target for e in ir.cfg if e.label.type == gtirb.EdgeType.Branch]
                foo = [s for s in m.symbols if s.name == "foo"][0]
                if not tg or tg[0] is not foo.referent:
                    br.failures.append({"clause": "C09/labels-of-removed-blocks-usable-by-later-patches", "witness": {"delete_first": delete_first}, "detail": "branch edge does not lead to foo's referent"})
            except Exception as ex:
                br.failures.append({"clause": "C09/labels-of-removed-blocks-usable-by-later-patches", "witness": {"delete_first": delete_first}, "detail": "%s: %s" % (type(ex).__name__, str(ex)[:100])})
        # a module that already holds / comes to hold a ZERO-SIZED block sharing an address with another block: a code block with
        # an incoming branch that is followed by data cannot be removed (doc/Deletion.md) and stays as an empty block; a later
        # context must order it before the block at the same address, as the IR does
        from gtirb_test_helpers import add_data_block, add_proxy_block

        def zs_build():
            ir, m = create_test_module(gtirb.Module.FileFormat.ELF, gtirb.Module.ISA.X64)
            _, tbi = add_text_section(m, address=0x1000)
            pre = add_code_block(tbi, b"\x90\xc3")            # a block directly in front of the one that will stay zero-sized
            foo = add_code_block(tbi, b"\x0f\x0b")
            dat = add_data_block(tbi, b"\x2a")
            foo_s = add_symbol(m, "foo", foo)
            bar = add_code_block(tbi, b"\xeb\x00", {(1, 1): gtirb.SymAddrConst(0, foo_s)})
            add_symbol(m, "bar", bar)
            tail = add_code_block(tbi, b"\x90\xc3")
            add_edge(ir.cfg, bar, foo, gtirb.EdgeType.Branch)
            add_edge(ir.cfg, pre, add_proxy_block(m), gtirb.EdgeType.Return)
            return ir, m, {"pre": pre, "foo": foo, "data": dat, "bar": bar, "tail": tail}

        def zs_summary(ir, m):
            blocks = sorted(m.byte_blocks, key=lambda b: (b.address, b.size != 0))
            idx = {id(b): i for i, b in enumerate(blocks)}
            node = lambda n: "proxy" if isinstance(n, gtirb.ProxyBlock) else idx.get(id(n), "detached")
            return json.dumps({"blocks": [(type(b).__name__, b.address, b.size, bytes(b.contents).hex()) for b in blocks],
                               "symbols": sorted((s_.name, node(s_.referent), s_.at_end) for s_ in m.symbols if s_.name in ("foo", "bar")),
                               "edges": sorted((node(e.source), node(e.target), e.label.type.name) for e in ir.cfg)}, sort_keys=True)
        for dels in (("foo", "data"), ("foo", "bar"), ("foo", "data", "tail"), ("data", "tail"), ("foo", "tail"), ("pre", "foo"), ("pre", "foo", "data")):
            br.cases += 1
            ir, m, B = zs_build()
            rc = RW.RewritingContext(m, [])
            for n_ in dels:
                rc.delete_at(B[n_], 0, B[n_].size)
            with CacheMonitor() as mon:
                try:
                    rc.apply()
                    batch = zs_summary(ir, m)
                except Exception as ex:       # noqa
                    batch = "EXC %s" % type(ex).__name__
            for p in sorted(set(mon.problems))[:2]:
                br.failures.append({"clause": "C09/cache-answers-agree-with-the-IR-after-every-modification", "witness": {"module": "foo: ud2 / .byte 42 / bar: jmp foo / nop; ret", "delete": dels}, "detail": p})
            ir2, m2, B2 = zs_build()
            seq = None
            for n_ in dels:              # already in address order
                rc2 = RW.RewritingContext(m2, [])
                rc2.delete_at(B2[n_], 0, B2[n_].size)
                with CacheMonitor() as mon2:
                    try:
                        rc2.apply()
                    except Exception as ex:       # noqa
                        seq = "EXC %s" % type(ex).__name__
                        break
                for p in sorted(set(mon2.problems))[:2]:
                    br.failures.append({"clause": "C09/cache-answers-agree-with-the-IR-after-every-modification", "witness": {"module": "foo: ud2 / .byte 42 / bar: jmp foo / nop; ret", "delete one at a time": dels}, "detail": p})
            seq = seq or zs_summary(ir2, m2)
            if batch != seq:
                br.failures.append({"clause": "C09/batch-equals-one-at-a-time", "witness": {"module": "foo: ud2 / .byte 42 / bar: jmp foo / nop; ret", "delete": dels},
                                    "detail": "batch %s / one at a time %s" % (batch[:300], seq[:300])})
        br.nontrivial = len(distinct) + 5
        br.bound += "; plus 5 deletion sets on a module where a deleted code block has to stay as a zero-sized block; monitor evaluated after %d insert/delete calls" % calls
        return br
    return run


# ------------------------------------------------------------------------------------------------ C10
def align_address_harness(ctx):
    k = ctx.choose(17, "log2-alignment")
    al = 1 << k
    a = ctx.int("address")
    r = zint(UT.align_address(SymInt(a), al))
    ctx.prove("align_address/multiple-of-the-alignment", r % al == 0)
    ctx.prove("align_address/least-one-not-below-the-address", z3.And(r >= a, r < a + al))


def nop_harness(ctx):
    """"the only bytes added are whole nops": ABI.nop() is what every padding run is made of (prepare / join_byte_intervals use
    abi.nop() * n), so for every registered ABI it has to be the encoding of exactly one architectural no-op.  Two independent
    oracles: the architecture manuals' encodings (x86 90; A64 NOP = HINT #0 = 0xD503201F, little-endian in memory; MIPS32 sll $0,$0,0
    = 0x00000000) and capstone decoding with the mode chosen here, not by the library."""
    import capstone
    from gtirb_rewriting import abi as ABIM
    keys = sorted(ABIM._ABIS, key=lambda k: (k[0].name, k[1].name))
    isa, ff = keys[ctx.choose(len(keys), "abi")]
    nop = ABIM._ABIS[(isa, ff)].nop()
    I = gtirb.Module.ISA
    manual = {I.X64: b"\x90", I.IA32: b"\x90", I.ARM64: bytes.fromhex("1f2003d5"), I.MIPS32: bytes(4)}
    modes = {I.X64: [(capstone.CS_ARCH_X86, capstone.CS_MODE_64)], I.IA32: [(capstone.CS_ARCH_X86, capstone.CS_MODE_32)],
             I.ARM64: [(capstone.CS_ARCH_ARM64, capstone.CS_MODE_ARM)],
             I.MIPS32: [(capstone.CS_ARCH_MIPS, capstone.CS_MODE_MIPS32 | capstone.CS_MODE_BIG_ENDIAN), (capstone.CS_ARCH_MIPS, capstone.CS_MODE_MIPS32 | capstone.CS_MODE_LITTLE_ENDIAN)]}
    ctx.cover("enumerated")
    ctx.prove("ABI.nop/is-the-architectural-no-op-encoding", z3.BoolVal(isa in manual and nop == manual[isa]), note="%s/%s nop()=%s" % (isa.name, ff.name, nop.hex()))
    for arch, mode in modes.get(isa, []):
        ins = list(capstone.Cs(arch, mode).disasm(nop * 3, 0))
        ok = len(ins) == 3 and all(i.mnemonic == "nop" and i.size == len(nop) for i in ins)
        ctx.prove("ABI.nop/a-run-of-them-decodes-as-whole-nops", z3.BoolVal(ok), note="%s/%s nop()*3 decodes as %s" % (isa.name, ff.name, [i.mnemonic for i in ins]))


def c10_bounded(tier, seed):
    def run():
        from bounded import scen
        from bounded.canon import canon
        from gtirb_test_helpers import add_code_block, add_data_block, add_edge, add_proxy_block, add_text_section, create_test_module
        logging.getLogger("gtirb_rewriting").setLevel(logging.CRITICAL)
        br = BResult()
        br.bound = ("no-op apply on every module shape of bounded/scen.py (kinds x functions x CFI layouts x annotations x data section); split/join round trip on "
                    "all layouts of <= 3 code or data blocks (overlapping and zero-sized included) over a 5-byte interval with symbolic expressions and one table; "
                    "alignment after rewrites on a 3-block function with alignments 1/2/4/8/16 on the block after the edit and every single edit; "
                    "an aligned block starting inside an unaligned overlapping block, alignments 2..16, 1/2/3/5 bytes inserted before the group; "
                    "a patch containing .align 4/8/16 inserted into each of 3 blocks with the module's alignment table absent / empty / populated, ELF and PE")
        br.clauses = ["C10/no-op-apply-is-the-identity", "C10/split-preserves-block-bytes-and-addresses", "C10/split-keeps-annotations-at-their-address", "C10/join-after-split-restores-the-interval",
                      "C10/alignment-requirements-hold-after-a-rewrite", "C10/padding-is-nops-or-zeros-covered-by-blocks"]
        distinct = set()
        for kind, funcs, cfi, ann, df in itertools.product(scen.KINDS, (False, True), scen.CFI_LAYOUTS, ("none", "block", "interval"), (False, True)):
            ir, m, bi, blocks, fl = scen.build(scen.Shape(kind, funcs, cfi, ann, df))
            before = _dump(ir)
            RW.RewritingContext(m, fl).apply()
            br.cases += 1
            distinct.add(("noop", kind, funcs, cfi, ann, df))
            if _dump(ir) != before:
                br.failures.append({"clause": "C10/no-op-apply-is-the-identity", "witness": {"shape": [kind, funcs, cfi, ann, df]}, "detail": "canonical dump changed"})
        # no-op apply on modules that hold ZERO-SIZED blocks (at the end / in the middle of an interval) with interval-keyed and block-keyed
        # Offset entries exactly at their position
        for where, keyed in itertools.product(("end", "middle", "start"), ("interval", "block")):
            ir, m = create_test_module(gtirb.Module.FileFormat.ELF, gtirb.Module.ISA.X64)
            _, tbi = add_text_section(m, address=0x1000)
            b0 = add_code_block(tbi, b"\x90\x90")
            b1 = add_code_block(tbi, b"\x90\xc3")
            zoff = {"end": 4, "middle": 2, "start": 0}[where]
            z = gtirb.CodeBlock(offset=zoff, size=0)
            z.byte_interval = tbi
            add_edge(ir.cfg, b0, b1, gtirb.EdgeType.Fallthrough)
            add_edge(ir.cfg, b1, add_proxy_block(m), gtirb.EdgeType.Return)
            add_edge(ir.cfg, z, add_proxy_block(m), gtirb.EdgeType.Fallthrough)
            key = gtirb.Offset(tbi, zoff) if keyed == "interval" else gtirb.Offset(z, 0)
            _auxdata.comments.set(m, {key: "at the empty block", gtirb.Offset(tbi, 1): "inside b0"})
            _auxdata.padding.set(m, {key: 3})
            before = _dump(ir)
            br.cases += 1
            distinct.add(("noop-zero-sized", where, keyed))
            try:
                RW.RewritingContext(m, []).apply()
                after = _dump(ir)
            except Exception as e:       # noqa
                after = "%s: %s" % (type(e).__name__, str(e)[:80])
            if after != before:
                br.failures.append({"clause": "C10/no-op-apply-is-the-identity", "witness": {"zero-sized block at the": where, "entries keyed by": keyed},
                                    "detail": "canonical dump changed" if not after.startswith(("Ass", "Key", "Val", "Typ", "Att")) else after})
        S = 5
        cands = [(o, s) for o in range(S + 1) for s in range(0, S - o + 1)]
        sym = gtirb.Symbol("s")

        def snap(bi_, table, blocks_):
            return (bytes(bi_.contents), bi_.size, bi_.address, tuple((b.offset, b.size, b.address, bytes(b.contents)) for b in blocks_),
                    tuple(sorted((k, v.offset) for k, v in bi_.symbolic_expressions.items())), tuple(sorted(table.get(bi_, {}).items())))
        for k in (1, 2, 3):
            for layout in itertools.combinations(cands, k):
                for data, torder, init in ((False, "asc", S), (True, "asc", S), (False, "desc", S), (True, "mixed", S), (True, "asc", 2), (True, "desc", 0), (False, "asc", 3)):
                    # init < S: the tail of the interval is uninitialized (bss-like): size S, only `init` bytes of contents
                    bi_ = gtirb.ByteInterval(contents=bytes(range(0x10, 0x10 + init)), size=S, address=0x1000)
                    bl = []
                    for (o, s) in layout:
                        b = (gtirb.DataBlock if data else gtirb.CodeBlock)(offset=o, size=s)
                        b.byte_interval = bi_
                        bl.append(b)
                    for p in range(S):
                        bi_.symbolic_expressions[p] = gtirb.SymAddrConst(p, sym)
                    table = OffsetMapping()
                    # entries recorded in ascending, descending or mixed position order (a dict promises no order)
                    ps_ = {"asc": list(range(S + 1)), "desc": list(range(S, -1, -1)), "mixed": [3, 0, 5, 1, 4, 2]}[torder]
                    table[bi_] = {p: "c%d" % p for p in ps_}
                    before = snap(bi_, table, bl)
                    pre = [(b.address, bytes(b.contents)) for b in bl]
                    br.cases += 1
                    distinct.add(("sj", layout, data, torder, init))
                    try:
                        parts = split_byte_interval(bi_, None, [table])
                        if [(b.address, bytes(b.contents)) for b in bl] != pre:
                            br.failures.append({"clause": "C10/split-preserves-block-bytes-and-addresses", "witness": {"layout": layout, "data": data, "initialized": init}, "detail": ""})
                            continue
                        # every annotation stays attached to the address it annotated (each entry records its original offset in its value)
                        lost = []
                        seen_c, seen_e = set(), set()
                        for part in parts:
                            for off, val in table.get(part, {}).items():
                                p0 = int(val[1:])
                                seen_c.add(p0)
                                if part.address + off != 0x1000 + p0 or off > part.size:
                                    lost.append("table entry of %#x now at %#x+%d (interval size %d)" % (0x1000 + p0, part.address, off, part.size))
                            for off, e in part.symbolic_expressions.items():
                                seen_e.add(e.offset)
                                if part.address + off != 0x1000 + e.offset or off >= max(part.size, 1):
                                    lost.append("expression of %#x now at %#x+%d (interval size %d)" % (0x1000 + e.offset, part.address, off, part.size))
                        if seen_c != set(range(S + 1)) or seen_e != set(range(S)):
                            lost.append("entries lost: table %s expressions %s" % (sorted(set(range(S + 1)) - seen_c), sorted(set(range(S)) - seen_e)))
                        if lost:
                            br.failures.append({"clause": "C10/split-keeps-annotations-at-their-address", "witness": {"layout": layout, "data": data, "initialized": init, "table order": torder}, "detail": "; ".join(lost[:3])})
                            continue
                        res = join_byte_intervals(parts, b"\x90", {}, [table])
                        after = snap(res, table, bl)
                        if init < S:
                            # only a FULLY INITIALIZED interval is restored exactly; uninitialized bytes that precede a later block may
                            # have become explicit zero / nop padding: compare everything but the bytes, and the bytes up to padding
                            c1 = after[0]
                            pad_ok = c1[:init] == before[0] and all(x in (0, 0x90) for x in c1[init:]) and len(c1) <= S
                            strip = lambda t: (t[1], t[2], tuple((o_, s_, a_) for (o_, s_, a_, _) in t[3]), t[4], t[5])
                            if not pad_ok or strip(after) != strip(before):
                                br.failures.append({"clause": "C10/join-after-split-restores-the-interval", "witness": {"layout": layout, "data": data, "initialized": init}, "detail": repr(after)[:200]})
                            continue
                        if after != before:
                            br.failures.append({"clause": "C10/join-after-split-restores-the-interval", "witness": {"layout": layout, "data": data}, "detail": repr(snap(res, table, bl))[:200]})
                    except Exception as e:
                        br.failures.append({"clause": "C10/join-after-split-restores-the-interval", "witness": {"layout": layout, "data": data}, "detail": "%s: %s" % (type(e).__name__, str(e)[:80])})
        # alignment after rewrites
        for al, data_mid in itertools.product((1, 2, 4, 8, 16), (False, True)):
            for edit in [("ins", o, 0, "plain") for o in (0, 1, 2, 3)] + [("del", 0, 1, None), ("del", 1, 2, None), ("rep", 0, 3, "two"), ("ins", 3, 0, "two")]:
                ir, m = create_test_module(gtirb.Module.FileFormat.ELF, gtirb.Module.ISA.X64)
                _, tbi = add_text_section(m, address=0x1000)
                b0 = add_code_block(tbi, b"\x53\x56\x57")
                mid = add_data_block(tbi, b"\x01") if data_mid else add_code_block(tbi, b"\x90")
                pad_len = (-(4) % al)
                pad = (add_data_block if data_mid else add_code_block)(tbi, (b"\x00" if data_mid else b"\x90") * pad_len) if pad_len else None
                b2 = add_code_block(tbi, b"\x90\xc3")
                add_edge(ir.cfg, b0, mid if not data_mid else b2, gtirb.EdgeType.Fallthrough) if not data_mid else None
                add_edge(ir.cfg, b2, add_proxy_block(m), gtirb.EdgeType.Return)
                _auxdata.alignment.set(m, {b2: al, b0: 1})
                if b2.address % al:
                    continue
                rc = RW.RewritingContext(m, [])
                scen.register(rc, b0, edit)
                br.cases += 1
                distinct.add(("align", al, data_mid, edit))
                desc = {"alignment_of_last_block": al, "data_in_between": data_mid, "edit": list(edit)}
                try:
                    rc.apply()
                except Exception as e:
                    br.failures.append({"clause": "C10/alignment-requirements-hold-after-a-rewrite", "witness": desc, "detail": "%s: %s" % (type(e).__name__, str(e)[:80])})
                    continue
                tab = _auxdata.alignment.get(m) or {}
                for blk, a_ in tab.items():
                    if isinstance(blk, gtirb.ByteBlock) and blk.module is m and blk.address % a_:
                        br.failures.append({"clause": "C10/alignment-requirements-hold-after-a-rewrite", "witness": desc, "detail": "block at %#x needs alignment %d" % (blk.address, a_)})
                # every byte of the section is covered by a block; bytes between the edited code and the aligned block are nop / zero
                for i in m.byte_intervals:
                    cov = bytearray(i.size)
                    for b in i.blocks:
                        for q in range(b.offset, b.offset + b.size):
                            cov[q] = 1
                    if i.size and not all(cov):
                        br.failures.append({"clause": "C10/padding-is-nops-or-zeros-covered-by-blocks", "witness": desc, "detail": "uncovered bytes in interval at %#x" % i.address})
        # alignment requirements of blocks that a PATCH adds (.align inside the patch), for every state of the module's alignment table
        for table_state, ff, al, where in itertools.product(("absent", "empty", "entries"), (gtirb.Module.FileFormat.ELF, gtirb.Module.FileFormat.PE), (4, 8, 16), (0, 1, 2)):
            ir, m = create_test_module(ff, gtirb.Module.ISA.X64)
            _, tbi = add_text_section(m, address=0x1000)
            bs = [add_code_block(tbi, b"\x53\x56\x57"), add_code_block(tbi, b"\x90\x90\x90"), add_code_block(tbi, b"\x90\xc3")]
            add_edge(ir.cfg, bs[0], bs[1], gtirb.EdgeType.Fallthrough)
            add_edge(ir.cfg, bs[1], bs[2], gtirb.EdgeType.Fallthrough)
            add_edge(ir.cfg, bs[2], add_proxy_block(m), gtirb.EdgeType.Return)
            m.aux_data.pop("alignment", None)
            if table_state == "empty":
                _auxdata.alignment.set(m, {})
            elif table_state == "entries":
                _auxdata.alignment.set(m, {bs[0]: 1})
            rc = RW.RewritingContext(m, [])
            rc.insert_at(bs[where], 1, scen.mkpatch("nop\n.align %d\nnop" % al))
            br.cases += 1
            distinct.add(("patch-align", table_state, ff.name, al, where))
            desc = {"alignment table before": table_state, "format": ff.name, "patch": ["nop", ".align %d" % al, "nop"], "inserted into block": where}
            try:
                rc.apply()
            except Exception as e:      # noqa
                br.failures.append({"clause": "C10/alignment-requirements-hold-after-a-rewrite", "witness": desc, "detail": "%s: %s" % (type(e).__name__, str(e)[:80])})
                continue
            tab = _auxdata.alignment.get(m) or {}
            want = [b_ for b_, a_ in tab.items() if isinstance(b_, gtirb.ByteBlock) and b_.module is m and a_ == al]
            if not want:
                br.failures.append({"clause": "C10/alignment-requirements-hold-after-a-rewrite", "witness": desc, "detail": "the patch's .align %d left no alignment requirement in the module" % al})
            for blk, a_ in tab.items():
                if isinstance(blk, gtirb.ByteBlock) and blk.module is m and blk.address % a_:
                    br.failures.append({"clause": "C10/alignment-requirements-hold-after-a-rewrite", "witness": desc, "detail": "block at %#x (added by the patch) needs alignment %d" % (blk.address, a_)})
        # the aligned block is not the first block of its group of overlapping blocks: A (unaligned) contains the aligned block B
        for al, grow in itertools.product((2, 4, 8, 16), (1, 2, 3, 5)):
            ir, m = create_test_module(gtirb.Module.FileFormat.ELF, gtirb.Module.ISA.X64)
            _, tbi = add_text_section(m, address=0x1000)
            head = add_code_block(tbi, b"\x90" * (al + 1))
            a_off = head.size
            asz = al + 4
            tbi.contents = bytes(tbi.contents) + b"\x90" * (asz - 1) + b"\xc3"
            tbi.size = len(tbi.contents)
            A_ = gtirb.CodeBlock(offset=a_off, size=asz)
            A_.byte_interval = tbi
            b_off = 2 * al                                      # first aligned offset inside A, after its start
            B_ = gtirb.CodeBlock(offset=b_off, size=a_off + asz - b_off)
            B_.byte_interval = tbi
            add_edge(ir.cfg, head, A_, gtirb.EdgeType.Fallthrough)
            add_edge(ir.cfg, A_, add_proxy_block(m), gtirb.EdgeType.Return)
            add_edge(ir.cfg, B_, add_proxy_block(m), gtirb.EdgeType.Return)
            _auxdata.alignment.set(m, {B_: al})
            assert B_.address % al == 0 and A_.address % al != 0
            rc = RW.RewritingContext(m, [])
            rc.insert_at(head, 0, scen.mkpatch("\n".join(["nop"] * grow)))
            br.cases += 1
            distinct.add(("align-overlap", al, grow))
            desc = {"layout": "head | A (unaligned, %d bytes) containing B (alignment %d) at offset %d of A" % (asz, al, b_off - a_off), "bytes inserted before": grow}
            try:
                rc.apply()
            except Exception as e:      # noqa
                br.failures.append({"clause": "C10/alignment-requirements-hold-after-a-rewrite", "witness": desc, "detail": "%s: %s" % (type(e).__name__, str(e)[:80])})
                continue
            if B_.address % al:
                br.failures.append({"clause": "C10/alignment-requirements-hold-after-a-rewrite", "witness": desc, "detail": "B is at %#x after the rewrite" % B_.address})
        br.nontrivial = len(distinct)
        return br
    return run


# ------------------------------------------------------------------------------------------------ C11
_CHILD = r'''
import sys, json, logging
sys.path.insert(0, %(root)r)
logging.disable(logging.CRITICAL)
from bounded import driver, scen
from contracts.c09_10_11 import _dump
import gtirb_rewriting.rewriting as RW
out = []
n = 0
for shape, edits in driver.scenario_space("quick", %(seed)d, kinds=%(kinds)r, patches=["plain", "jmpL2", "callg", "lab", "two"]):
    n += 1
    if n %% %(stride)d:
        continue
    edits = [tuple(e) + ((1,) if len(e) == 4 else ()) for e in edits]
    ir, m, bi, blocks, fl = scen.build(shape)
    rc = RW.RewritingContext(m, fl)
    for e in edits:
        scen.register(rc, blocks[e[4]], e[:4])
    try:
        rc.apply()
        import hashlib
        out.append((repr(shape), repr(edits), hashlib.sha1(_dump(ir, drop=()).encode()).hexdigest()))
    except Exception as ex:
        out.append((repr(shape), repr(edits), "EXC " + type(ex).__name__))
# patches with register / stack / flags requirements: the prologue and epilogue (spill order, scratch choice) are part of the result
import itertools
from gtirb_rewriting import Patch, patch_constraints, Constraints
for pcs, nscr, clob, flags, align, off in itertools.product((False, True), (0, 2), ((), ("rax", "rdx"), ("r11", "rcx", "rsi")), (False, True), (False, True), (0, 1)):
    ir, m, bi, blocks, fl = scen.build(scen.Shape("call", True))
    rc = RW.RewritingContext(m, fl)
    @patch_constraints(preserve_caller_saved_registers=pcs, scratch_registers=nscr, clobbers_registers=clob, clobbers_flags=flags, align_stack=align)
    def pat(ctx):
        # the scratch registers the context hands out are part of the result
        return "nop" + "".join("\nmovq $1, %%" + format(r, "64") for r in ctx.scratch_registers)
    rc.insert_at(blocks[1], off, Patch.from_function(pat))
    key = repr(("constraints", pcs, nscr, clob, flags, align, off))
    try:
        rc.apply()
        import hashlib
        out.append((key, "", hashlib.sha1(_dump(ir, drop=()).encode()).hexdigest()))
    except Exception as ex:
        out.append((key, "", "EXC " + type(ex).__name__))
# a module that still needs layout (no addresses): visit order must not depend on object identities / set order
from contracts.c09_10_11 import unaddressed_rewrite
for perm in ((0, 1, 2, 3), (3, 2, 1, 0), (2, 0, 3, 1)):
    out.append((repr(("unaddressed", perm)), "", repr(unaddressed_rewrite(perm))))
print(json.dumps(out))
'''


def unaddressed_rewrite(creation_order, junk=None):
    """4 code blocks in a byte interval WITHOUT address (layout needed), block objects created in `creation_order`;
    a patch defining a temporary label is inserted into every block, registered in offset order.  Returns a UUID-free signature."""
    import gtirb_rewriting
    from gtirb_rewriting import Patch, patch_constraints
    from gtirb_test_helpers import add_edge, add_text_section, create_test_module
    n = 4
    ir, m = create_test_module(gtirb.Module.FileFormat.ELF, gtirb.Module.ISA.X64)
    _, bi = add_text_section(m, address=None)
    bi.contents = b"\x90" * (2 * n)
    bi.size = 2 * n
    blocks = {}
    for i in creation_order:
        if junk is not None:
            junk.append(object())
        blocks[i] = gtirb.CodeBlock(offset=2 * i, size=2)
    for i in range(n):
        blocks[i].byte_interval = bi
    for i in range(n - 1):
        add_edge(ir.cfg, blocks[i], blocks[i + 1], gtirb.EdgeType.Fallthrough)

    @patch_constraints()
    def pat(ctx):
        return "jmp .Lskip\nnop\n.Lskip:"
    rc = gtirb_rewriting.RewritingContext(m, [])
    for i in range(n):
        rc.insert_at(blocks[i], 0, Patch.from_function(pat))
    rc.apply()
    (sect,) = m.sections
    base = min(b.address for b in sect.byte_blocks)
    contents = b"".join(bytes(i.contents) for i in sorted(sect.byte_intervals, key=lambda i: i.address))
    return (contents.hex(), sorted((b.address - base, b.size) for b in sect.byte_blocks),
            sorted((s.referent.address - base, s.at_end, s.name) for s in m.symbols if s.name.startswith(".L")))


def scratch_order_harness(ctx):
    """the registers a patch is handed as scratch registers come from ABI._scratch_registers() in that order (_allocate_patch_registers
    takes a prefix of it): it has to be a LIST in the ABI's own register order (all_registers()), without duplicates -- a value that
    does not depend on how a set of registers happens to iterate in this process"""
    from gtirb_rewriting import abi as ABIM
    keys = sorted(ABIM._ABIS, key=lambda k: (k[0].name, k[1].name))
    isa, ff = keys[ctx.choose(len(keys), "abi")]
    abi = ABIM._ABIS[(isa, ff)]
    regs = abi._scratch_registers()
    allr = abi.all_registers()
    ctx.cover("enumerated")
    idx = [next((i for i, r in enumerate(allr) if r == x), None) for x in regs] if isinstance(regs, (list, tuple)) else None
    ok = idx is not None and None not in idx and all(a < b for a, b in zip(idx, idx[1:]))
    ctx.prove("ABI._scratch_registers/a-list-in-the-ABIs-own-register-order-without-duplicates", z3.BoolVal(bool(ok)),
              note="%s/%s: %s" % (isa.name, ff.name, [getattr(r, "name", r) for r in regs][:12] if idx is not None else type(regs).__name__))
    again = abi._scratch_registers()
    ctx.prove("ABI._scratch_registers/same-answer-every-time", z3.BoolVal(list(again) == list(regs)))


def allocation_repeatable_harness(ctx):
    """the ABI objects are process-wide singletons: register allocation and frame generation for a patch are functions of the patch's
    constraints alone -- the same request made again (after other requests) gives the same registers and the same prologue / epilogue"""
    from gtirb_rewriting import abi as ABIM
    from gtirb_rewriting.patch import Constraints
    keys = sorted(ABIM._ABIS, key=lambda k: (k[0].name, k[1].name))
    isa, ff = keys[ctx.choose(len(keys), "abi")]
    abi = ABIM._ABIS[(isa, ff)]
    variants = [dict(), dict(clobbers_flags=True), dict(scratch_registers=2), dict(clobbers_flags=True, scratch_registers=1), dict(preserve_caller_saved_registers=True)]
    kw = variants[ctx.choose(len(variants), "constraints")]
    if isa.name == "MIPS32" and kw.get("clobbers_flags"):
        return                                     # no flags on MIPS32

    def frame():
        cons = Constraints(**kw)
        use = abi._allocate_patch_registers(cons)
        snap = ([r.name for r in use.clobbered_registers], [r.name for r in use.scratch_registers], [r.name for r in use.available_registers])
        pro, epi, adj = abi._create_prologue_and_epilogue(cons, use, False)
        return (snap, [s_.code for s_ in pro], [s_.code for s_ in epi], adj)
    first = frame()
    for other in variants:                          # other requests in between
        try:
            c2 = Constraints(**other)
            abi._create_prologue_and_epilogue(c2, abi._allocate_patch_registers(c2), False)
        except Exception:      # noqa
            pass
    again = [frame() for _ in range(3)]
    ctx.cover("enumerated")
    ctx.prove("ABI/allocation-and-frame-are-a-function-of-the-constraints-alone", z3.BoolVal(all(a == first for a in again)),
              note="%s/%s %s: first %s, later %s" % (isa.name, ff.name, kw, first[0], [a[0] for a in again if a != first][:1]))


def c11_bounded(tier, seed):
    def run():
        br = BResult()
        seeds = [0, 1, 12345] if tier == "quick" else [0, 1, 2, 3, 12345, 99999]
        stride = 3 if tier == "quick" else 1
        kinds = ["plain", "call", "jcc"] if tier == "quick" else None
        br.bound = "every %d-th scenario of the bounded space (kinds %s), each executed in fresh interpreters with PYTHONHASHSEED in %s; canonical UUID-free dumps (temporary-label names included) compared; plus 96 insertions of a patch with register / stack / flags constraints (preserve_caller_saved_registers, scratch registers, clobbers, flags, alignment); plus a module without addresses (layout needed) rebuilt with its 4 block objects created in all 24 orders, twice, in-process, and in 3 orders per hash seed" % (stride, kinds or "all", seeds)
        br.clauses = ["C11/same-result-under-different-hash-seeds", "C11/same-result-whatever-the-object-identities",
                      "C11/registration-order-of-modifications-at-different-locations-does-not-matter"]
        results = []
        code = _CHILD % {"root": ROOT, "seed": seed, "kinds": kinds, "stride": stride}
        py = os.path.join(ROOT, ".venv", "bin", "python")
        procs = [subprocess.Popen([py, "-c", code], stdout=subprocess.PIPE, stderr=subprocess.PIPE, env=dict(os.environ, PYTHONHASHSEED=str(hs), PYTHONPATH=os.pathsep.join([ROOT] + [p_ for p_ in os.environ.get("PYTHONPATH", "").split(os.pathsep) if p_ and p_ != ROOT]))) for hs in seeds]
        for hs, p in zip(seeds, procs):
            o, e = p.communicate()
            if p.returncode != 0:
                br.failures.append({"clause": "C11/same-result-under-different-hash-seeds", "witness": {"PYTHONHASHSEED": hs}, "detail": "child failed: %s" % e.decode()[-300:]})
                results.append(None)
            else:
                results.append(json.loads(o.decode().strip().splitlines()[-1]))
        ok = [r for r in results if r is not None]
        if ok:
            base = ok[0]
            br.cases = len(base) * len(ok)
            br.nontrivial = len(base)
            for hs, r in zip(seeds, results):
                if r is None:
                    continue
                for x, y in zip(base, r):
                    if x != y:
                        br.failures.append({"clause": "C11/same-result-under-different-hash-seeds", "witness": {"scenario": x[:2], "PYTHONHASHSEED": [seeds[0], hs]},
                                            "detail": "%s vs %s" % (x[2][:12], y[2][:12])})
                        break
            br.samples = [{"scenario": base[0][:2], "dump_sha1": base[0][2]}] if base else []
            dead = [x[0] for x in base if x[0].startswith("('constraints'") and str(x[2]).startswith("EXC")]
            if dead:
                # a scenario of the constraints family that does not even apply() compares nothing: checker error, not a verdict
                br.assumption_hits.append("constraints scenarios raise instead of rewriting: %s" % dead[:2])
        # in-process repetition: same module, same modifications, block objects created in every order (object identities and
        # therefore set iteration orders differ between builds)
        import itertools
        sigs, junk = {}, []
        for rep in range(2):
            for perm in itertools.permutations(range(4)):
                br.cases += 1
                try:
                    sig = repr(unaddressed_rewrite(perm, junk))
                except Exception as ex:       # noqa
                    sig = "EXC %s" % type(ex).__name__
                sigs.setdefault(sig, []).append(perm)
        # registration order of modifications that target DIFFERENT locations does not matter (only named-block modifications, and a
        # mix with a scope-wide one): all permutations of three / four registrations give the same module
        from bounded import scen as _scen
        from gtirb_rewriting import AllBlocksScope, BlockPosition
        for with_scope in (False, True):
            results = {}
            # (the scope-wide EXIT insertions land at b0+1, b1+3, b2+1: none of the named offsets below coincides with them)
            regs = [(0, 0), (1, 1), (2, 0)] + ([("scope",)] if with_scope else [])
            for perm in itertools.permutations(range(len(regs))):
                ir_, m_, bi_, blocks_, fl_ = _scen.build(_scen.Shape("plain", True))
                rc_ = RW.RewritingContext(m_, fl_)
                for j in perm:
                    r = regs[j]
                    if r[0] == "scope":
                        rc_.register_insert(AllBlocksScope(BlockPosition.EXIT), _scen.mkpatch("jmp .Lq\nnop\n.Lq:"))
                    else:
                        rc_.insert_at(blocks_[r[0]], r[1], _scen.mkpatch("jmp .Lskip\nnop\n.Lskip:"))
                br.cases += 1
                try:
                    rc_.apply()
                    sig = _dump(ir_, drop=())
                except Exception as ex:       # noqa
                    sig = "EXC %s" % type(ex).__name__
                results.setdefault(sig, []).append(perm)
            if len(results) > 1:
                br.failures.append({"clause": "C11/registration-order-of-modifications-at-different-locations-does-not-matter",
                                    "witness": {"registrations": [list(r) for r in regs], "orders giving different results": [list(v[0]) for v in results.values()][:3]},
                                    "detail": "%d distinct results over %d registration orders (temporary-label names / edges differ)" % (len(results), sum(len(v) for v in results.values()))})
        if len(sigs) > 1:
            br.failures.append({"clause": "C11/same-result-whatever-the-object-identities", "witness": {"creation orders": [v[0] for v in sigs.values()][:3]},
                                "detail": "%d distinct results for the same unaddressed module and modifications, e.g. %s" % (len(sigs), [k[-120:] for k in list(sigs)[:2]])})
        return br
    return run


def _by_function(lst, entries, blocks=None):
    """the listing cut at the entry symbols of the inserted functions and re-expressed relative to each part's start: WHERE the layout puts
    a new function (and in which order several of them come) is not part of what C09 compares"""
    labels = lst["labels"]
    cuts = sorted((labels[n], n) for n in list(entries) + ["f"] if isinstance(labels.get(n), int))
    raw = bytes.fromhex(lst["bytes"])
    bounds = [(pos, "original" if n == "f" else n) for pos, n in cuts]          # (the module's own code starts at its symbol f)
    if not bounds or bounds[0][0] != 0:
        bounds = [(0, "leading")] + bounds

    def part(p):
        if not isinstance(p, int):
            return p
        name, start = "original", 0
        for pos, n in bounds:
            if pos <= p:
                name, start = n, pos
        return [name, p - start]
    out = {"labels": {k: part(v) for k, v in labels.items()}, "inst_cfg": sorted(([part(a), part(b), t, c] for a, b, t, c in lst["inst_cfg"]), key=repr)}
    if blocks is not None:
        # bytes of every block by part (the concatenated section bytes say nothing once the layout leaves gaps between the parts)
        out["bytes"] = sorted((part(pos), data) for pos, data in blocks)
    out["func_entries"] = {k: [part(x) for x in v] for k, v in lst.get("func_entries", {}).items()}
    return out


def c09_inserted_functions(tier, seed):
    """C09 for register_insert_function: several functions inserted in one apply() give the same module as one context per function, in
    particular when a later function calls / refers to a label that an earlier function's body defines (at its start: the label is joined
    into the stub block and lives in the reference cache while the later body is assembled)"""
    def run():
        from bounded import scen
        from gtirb_rewriting import RewritingContext
        import gtirb_functions
        logging.getLogger("gtirb_rewriting").setLevel(logging.CRITICAL)
        br = BResult()
        firsts = {"label-at-start": "glob1:\nnop\nret", "label-in-the-middle": "nop\nglob1:\nnop\nret", "label-at-start-and-loop": "glob1:\ndecq %rdi\njne glob1\nret"}
        seconds = {"calls-the-label": "call glob1\nret", "jumps-to-the-label": "jmp glob1", "address-of-the-label": "leaq glob1(%rip), %rax\nret", "calls-the-function": "call newfn0\nret"}
        br.bound = "module shapes plain/call with and without function info; two functions inserted in one apply(): the first's body defines a global label (start / middle / start + loop), the second calls / jumps to / takes the address of that label or calls the first function; optionally an ordinary edit too"
        br.clauses = ["C09/inserted-functions/batch-applies-iff-one-at-a-time-does", "C09/inserted-functions/batch-equals-one-at-a-time"]
        distinct = set()
        for kind, funcs, f1, f2, with_edit in itertools.product(("plain", "call"), (False, True), firsts, seconds, (False, True)):
            def go(batch):
                ir, m, bi, blocks, fl = scen.build(scen.Shape(kind, funcs))
                bodies = [("newfn0", firsts[f1]), ("newfn1", seconds[f2])]
                try:
                    if batch:
                        rc = RewritingContext(m, fl)
                        for nm, body in bodies:
                            rc.register_insert_function(nm, scen.mkpatch(body))
                        if with_edit:
                            rc.insert_at(blocks[1], 0, scen.mkpatch("nop"))
                        rc.apply()
                    else:
                        if with_edit:
                            rc = RewritingContext(m, fl)
                            rc.insert_at(blocks[1], 0, scen.mkpatch("nop"))
                            rc.apply()
                        for nm, body in bodies:
                            # (the module has function tables as soon as one function was inserted: a caller builds its functions from them)
                            rc = RewritingContext(m, gtirb_functions.Function.build_functions(m))
                            rc.register_insert_function(nm, scen.mkpatch(body))
                            rc.apply()
                except Exception as ex:      # noqa
                    return "%s: %s" % (type(ex).__name__, str(ex)[:80])
                from bounded.view import base_of
                blk = [(b.address - base_of(m), bytes(b.contents).hex()) for b in m.byte_blocks if b.section.name == ".text" and b.size]
                lst = json.loads(_listing(ir, m))
                # the block PARTITION is not compared either: bytes per instruction start
                starts = sorted({a for a, _, _, _ in lst["inst_cfg"] if isinstance(a, int)} | {x for _, x, t_, _ in lst["inst_cfg"] if isinstance(x, int)})
                insn = []
                for pos, hexd in blk:
                    raw = bytes.fromhex(hexd)
                    cuts = [x - pos for x in starts if pos < x < pos + len(raw)]
                    prev = 0
                    for c in cuts + [len(raw)]:
                        insn.append((pos + prev, raw[prev:c].hex()))
                        prev = c
                return _by_function(lst, ["newfn0", "newfn1"], insn)
            br.cases += 1
            distinct.add((kind, funcs, f1, f2, with_edit))
            desc = {"shape": "kind=%s funcs=%s" % (kind, funcs), "first function": firsts[f1].splitlines(), "second function": seconds[f2].splitlines(), "ordinary edit too": with_edit}
            a, b = go(True), go(False)
            if isinstance(a, str) != isinstance(b, str):
                br.failures.append({"clause": "C09/inserted-functions/batch-applies-iff-one-at-a-time-does", "witness": desc, "detail": "batch: %s / one at a time: %s" % (a if isinstance(a, str) else "ok", b if isinstance(b, str) else "ok")})
            elif not isinstance(a, str) and a != b:
                diff = [k_ for k_ in a if a[k_] != b.get(k_)]
                br.failures.append({"clause": "C09/inserted-functions/batch-equals-one-at-a-time", "witness": desc, "detail": "listings differ in %s" % diff})
            if len(br.samples) < 2:
                br.samples.append(desc)
        br.nontrivial = len(distinct)
        return br
    return run


def jobs_c09(tier="quick", seed=0):
    from . import c16_invoke
    for j in c16_invoke.jobs(tier, seed):
        j.id = "C09/" + j.id
        yield j
    from . import kernel_ordering
    for j in kernel_ordering.jobs(tier, seed):
        j.id = "C09/" + j.id
        yield j
    yield Job("C09/inserted-functions-bounded", c09_inserted_functions(tier, seed), kind="B", func="gtirb_rewriting.rewriting:RewritingContext._apply_function_insertion / _invoke_patch")
    yield Job("C09/batch-and-monitor-bounded", c09_bounded(tier, seed), kind="B", func="gtirb_rewriting.rewriting:RewritingContext.apply / _modify.insert / delete")


def jobs_c10(tier="quick", seed=0):
    yield Job("C10/align_address", align_address_harness, setup=lambda: shims.installed([UT]), kind="E", func="gtirb_rewriting.utils:align_address")
    yield Job("C10/abi-nop", nop_harness, kind="E", func="gtirb_rewriting.abi:ABI.nop (all registered ABIs)", expect_cover=("enumerated",))
    from . import kernels
    yield from kernels.jobs_for("C10", tier, seed)
    yield Job("C10/noop-splitjoin-alignment-bounded", c10_bounded(tier, seed), kind="B", func="gtirb_rewriting.prepare:prepare_for_rewriting / intervalutils")


def jobs_c11(tier="quick", seed=0):
    from . import c07, c16_alloc
    for j in c07.jobs(tier, seed):
        if j.id == "C07/resolve_offsets":
            j.id = "C11/" + j.id
            yield j
    # functions that walk SETS of blocks (identity hashes: the order changes from run to run): a contract that fixes the result
    # block by block, as a function of the IR alone, makes the iteration order unobservable
    from . import kernel_edges
    for j in kernel_edges.jobs(tier, seed):
        j.id = "C11/" + j.id
        yield j
    # registration order of requests at DIFFERENT locations must not matter: for retarget requests that is the contract "the recorded
    # map is exactly the requests as given" (a chain A->B, B->C stays a chain in either order), discharged under C18 and here
    from . import c18
    yield Job("C11/retarget-request-history", c18.history_harness, kind="E", func="gtirb_rewriting.rewriting:RewritingContext.retarget_symbol_uses")
    yield Job("C11/allocation-repeatable", allocation_repeatable_harness, kind="E", func="gtirb_rewriting.abi:ABI._allocate_patch_registers/_create_prologue_and_epilogue (singletons keep no state)", expect_cover=("enumerated",))
    yield Job("C11/scratch-register-order", scratch_order_harness, kind="E", func="gtirb_rewriting.abi:ABI._scratch_registers (all registered ABIs)", expect_cover=("enumerated",))
    yield Job("C11/hash-seeds-bounded", c11_bounded(tier, seed), kind="B", func="gtirb_rewriting.rewriting:RewritingContext.apply")
