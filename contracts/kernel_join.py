"""Heap kernel, part 3: _modify.join:are_joinable / join_blocks (carries C01 geometry, C02 labels, C03 edges, C04 tables,
C05 closure of the per-block tables, C06 functions, C08 CFI order at the junction).

The real functions run on REAL gtirb objects and the real ModifyCache.  Two families of jobs:

T  geometry / tables: block sizes s1, s2 are SYMBOLIC (>= 0; the code's own `if not block1.size` splits the cases), the
   offset-keyed tables of both blocks hold ARBITRARY content, CFI values are abstract directive sequences.
     G   joined block keeps offset, size' = s1 + s2; block2 left its interval and the ordering; neighbours untouched
     T   every offset-keyed table: the joined block's map = block1's map + block2's map re-keyed by +s1 (absolute position kept)
     C   cfiDirectives likewise (loop contract); at a common key the directives of block1 come before those of block2
     P   per-block tables (types/encodings, profile/SCCs): no entry for block2 remains; an empty block1 inherits block2's
     A   alignment: block2's entry is gone; the joined block carries the stronger requirement only if block1 was empty
     R   a refusal raises UnjoinableBlocksError and leaves sizes, tables and ordering untouched
E  labels / edges / functions: enumerated shapes (E) with symbolic sizes; the contract is SEMANTIC, not a description of
   the code: labels keep their absolute position; the control flow seen from real (non-empty) code, with empty blocks
   treated as pass-through, is the same before and after; the joined block is in block1's function and block2 left the
   function tables; whenever one of these cannot be kept the join must have been refused.
   Preconditions (derived from the call site _cleanup_modified_blocks / insert, monitored in the bounded runs, see
   bounded/driver.py: JoinPreconditionMonitor): an empty block has only fallthrough out-edges; a non-empty code block has at
   least one out-edge (C03's "input CFG consistent with the code"); an empty block1 is in the same function as block2 (or
   neither is in one).  (Until fix 5c22cb9 a third precondition was needed: no end-of-block label on block1 when block2 is
   non-empty -- a data patch ending in a label violated it, defect F-C02b.)
"""
import itertools

import gtirb
import z3
from gtirb_test_helpers import add_code_block, add_data_block, add_edge, add_function, add_proxy_block, add_symbol, add_text_section, create_test_module

import gtirb_functions
from gtirb_rewriting import _auxdata, _auxdata_offsetmap
from gtirb_rewriting._adt import OffsetMapping
from gtirb_rewriting._auxdata import NULL_UUID
from gtirb_rewriting._modify import make_modify_cache
import importlib
JN = importlib.import_module("gtirb_rewriting._modify.join")

from pyvc import core, instrument, shims
from pyvc.containers import CompDict, MapBase, PDict, SymItems
from pyvc.run import Job
from pyvc.sym import SymBool, SymInt, mk_bool, mk_int, zint

from .kernel_edit import HAS, NONEMPTY, VAL, Opaque

I_, B_ = z3.IntSort(), z3.BoolSort()
TOK = z3.Function("cfi_directives_at", I_, I_, I_)        # (map id, key) -> abstract directive sequence
S_ = z3.SeqSort(I_)


def arb_map(ctx, mid, value=None):
    """arbitrary displacement map with id `mid` (HAS / VAL / NONEMPTY are uninterpreted)"""
    def has(k):
        ctx.assume(z3.Implies(HAS(mid, k), NONEMPTY(mid)))
        return HAS(mid, k)
    b = MapBase(has, value or (lambda k: Opaque(VAL(mid, zint(k)))), "map%s" % mid)
    b.nonempty = NONEMPTY(mid)
    b.mid = mid
    return PDict(base=b)


class SeqVal:
    """abstract list of CFI directives: concatenation of conditional opaque pieces [(condition, token)]"""

    def __init__(self, parts):
        self.parts = list(parts)

    def extend(self, other):
        self.parts.extend(pieces(other))

    def __iter__(self):
        # list.extend(v) / list(v) on an abstract sequence: ONE splice element standing for "all directives of v, in order"
        return iter([Splice(self)])


class Splice:
    def __init__(self, v):
        self.v = v


def pieces(v):
    if isinstance(v, SeqVal):
        return list(v.parts)
    if isinstance(v, Splice):
        return pieces(v.v)
    if isinstance(v, list):
        out = []
        for x in v:
            if not isinstance(x, Splice):
                raise core.Unsupported("concrete directive in an abstract directive list")
            out.extend(pieces(x))
        return out
    raise core.Unsupported("not a directive sequence: %r" % (v,))


def seq_term(parts):
    t = z3.Empty(S_)
    for c, tok in parts:
        t = z3.Concat(t, z3.If(c, z3.Unit(tok), z3.Empty(S_)))
    return t


def build(kind, align, perblock):
    ir, m = create_test_module(gtirb.Module.FileFormat.ELF, gtirb.Module.ISA.X64)
    _, bi = add_text_section(m, address=0x1000)
    mk = add_code_block if kind == "code" else add_data_block
    prev = mk(bi, b"\x90")
    b1 = mk(bi, b"\x90\x90")
    b2 = mk(bi, b"\x90\x90")
    nxt = mk(bi, b"\x90\xc3")
    fl = []
    if kind == "code":
        add_edge(ir.cfg, prev, b1, gtirb.EdgeType.Fallthrough)
        add_edge(ir.cfg, b1, b2, gtirb.EdgeType.Fallthrough)
        add_edge(ir.cfg, b2, nxt, gtirb.EdgeType.Fallthrough)
        add_edge(ir.cfg, nxt, add_proxy_block(m), gtirb.EdgeType.Return)
        add_function(m, add_symbol(m, "f", prev), prev, {b1, b2, nxt})
        fl = gtirb_functions.Function.build_functions(m)
    if align != "none":
        _auxdata.alignment.set(m, {"b2": {b2: 16}, "b1": {b1: 8}, "both": {b1: 4, b2: 16}, "b2weaker": {b1: 16, b2: 4}}[align])
    if perblock:
        if kind == "data":
            _auxdata.types.set(m, {b1: "T", b2: "T", nxt: "N"})
            _auxdata.encodings.set(m, {b2: "string", b1: "string"})
        else:
            _auxdata.profile.set(m, {b1: 7, b2: 9, nxt: 1})
            _auxdata.sccs.set(m, {b2: 3, nxt: 1})
    return ir, m, bi, prev, b1, b2, nxt, fl


class CfiMerge(instrument.LoopSpec):
    """for k, v in displacement_map.items(): new_displacement_map.setdefault(s1 + k, []).extend(v)
    invariant: new map = block1's map + the VISITED entries of block2's map at s1 + k, block1's directives first"""
    local_names = ("k", "v", "new_k")
    mutates = ("new_displacement_map",)

    def __init__(self, ctx, iterable, env):
        super().__init__(ctx, iterable, env)
        self.g = ctx.ghost
        self.not_applicable = not (isinstance(iterable, SymItems) and iterable.d is self.g.get("cfi2"))

    def establish(self, env):
        g = self.g
        d = env["new_displacement_map"]
        ok = (d is g.get("cfi1") and not d.log) if g.get("cfi1") is not None else (isinstance(d, PDict) and d.base is None and not d.log)
        self.ctx.prove("join_blocks/C/loop-established", z3.BoolVal(bool(ok)))
        self.ctx.prove("join_blocks/C/source-map-not-modified", z3.BoolVal(not g["cfi2"].log))

    def content(self, q, done):
        """(presence, pieces) of the merged map at key q when `done` tells which keys of block2's map were visited"""
        g = self.g
        s1 = g["s1"]
        h1 = HAS(g["mid1"], q) if g.get("cfi1") is not None else z3.BoolVal(False)
        h2 = z3.And(HAS(g["mid2"], q - s1), done(q - s1))
        return z3.Or(h1, h2), [(h1, TOK(g["mid1"], q)), (h2, TOK(g["mid2"], q - s1))]

    def havoc(self, env):
        c, g = self.ctx, self.g
        self.DONE = DONE = z3.Function(c.fresh_name("MERGED"), I_, B_)
        d = env["new_displacement_map"]
        d.log = []
        base = MapBase(lambda q: self.content(q, DONE)[0], lambda q: SeqVal(self.content(zint(q), DONE)[1]), "merged")
        base.materialize = True
        d.base = base
        return {}

    def has_next(self):
        return mk_bool(self.ctx.bool("more_entries", inp=False))

    def element(self):
        c, g = self.ctx, self.g
        k = c.int("visited_key", inp=False)
        c.assume(z3.And(HAS(g["mid2"], k), z3.Not(self.DONE(k))))
        self.k = k
        return (SymInt(k), SeqVal([(z3.BoolVal(True), TOK(g["mid2"], k))]))

    def preserved(self, env):
        c, g = self.ctx, self.g
        q = g["Q"]
        done2 = lambda z: z3.Or(self.DONE(z), z == self.k)
        d = env["new_displacement_map"]
        want_has, want_parts = self.content(q, done2)
        got = d.get(SymInt(q), None)
        c.prove("join_blocks/C/loop-preserved/presence", z3.BoolVal(got is not None) == want_has)
        if got is not None:
            c.prove("join_blocks/C/loop-preserved/block1-directives-then-block2-directives-at-the-shifted-key", seq_term(pieces(got)) == seq_term(want_parts))

    def at_exit(self, env):
        g = self.g
        q = g["Q"]
        self.ctx.assume(z3.Implies(HAS(g["mid2"], q - g["s1"]), self.DONE(q - g["s1"])))
        g["cfi_done"] = self.DONE

    def at_break(self, env):
        self.ctx.prove("join_blocks/C/every-entry-of-block2-is-merged", z3.BoolVal(False))


def tables_harness(kind, align, perblock, b1_has_maps, which):
    """which: index of the ONE offset-keyed table that is populated (arbitrary content), "cfi" for cfiDirectives, None for none --
    the tables are processed by independent iterations of `for table_def in OFFSETMAP_AUX_DATA_TABLES`"""
    def harness(ctx):
        g = ctx.ghost
        ir, m, bi, prev, b1, b2, nxt, fl = build(kind, align, perblock)
        s1, s2 = ctx.int("block1_size"), ctx.int("block2_size")
        ctx.assume(z3.And(s1 >= 0, s2 >= 0))
        g["s1"] = s1
        g["Q"] = Q = ctx.int("q_key")
        tabs = {}
        for i, tdef in enumerate(_auxdata_offsetmap.OFFSETMAP_AUX_DATA_TABLES):
            if which != i:
                continue
            om = OffsetMapping()
            mid1, mid2 = ctx.int("table%d_b1" % i, inp=False), ctx.int("table%d_b2" % i, inp=False)
            d1 = arb_map(ctx, mid1) if b1_has_maps else None
            d2 = arb_map(ctx, mid2)
            if d1 is not None:
                om._data[b1] = d1
            om._data[b2] = d2
            om._data[nxt] = {0: "other"}
            m.aux_data[tdef.name] = gtirb.AuxData(type_name=tdef.type_name, data=om)
            tabs[tdef.name] = (om, d1, d2, mid1, mid2)
        cfi = OffsetMapping()
        g["mid1"], g["mid2"] = ctx.int("cfi_b1", inp=False), ctx.int("cfi_b2", inp=False)
        with_cfi = which == "cfi"
        g["cfi1"] = None
        if with_cfi:
          g["cfi1"] = arb_map(ctx, g["mid1"], value=lambda k: SeqVal([(z3.BoolVal(True), TOK(g["mid1"], zint(k)))])) if b1_has_maps else None
        if g["cfi1"] is not None:
            g["cfi1"].base.materialize = True
            cfi._data[b1] = g["cfi1"]
        g["cfi2"] = arb_map(ctx, g["mid2"], value=lambda k: SeqVal([(z3.BoolVal(True), TOK(g["mid2"], zint(k)))]))
        if with_cfi:
            cfi._data[b2] = g["cfi2"]
            cfi._data[nxt] = {0: "other"}
            m.aux_data["cfiDirectives"] = gtirb.AuxData(type_name=_auxdata.cfi_directives.type_name, data=cfi)
        snap_pb = {n: dict(t.data) for n, t in m.aux_data.items() if n in ("types", "encodings", "profile", "SCCs")}
        al0 = dict(_auxdata.alignment.get(m) or {})
        with make_modify_cache(m, fl) as cache:
            b1._size, b2._offset, b2._size, nxt._offset = SymInt(s1), SymInt(1 + s1), SymInt(s2), SymInt(1 + s1 + s2)
            P = ctx.prove
            try:
                res = JN.join_blocks(cache, b1, b2)
            except JN.UnjoinableBlocksError:
                ctx.cover("refused")
                untouched = (b2.byte_interval is bi and cache.adjacent_blocks(b2) == (b1, nxt) and all(not d.log for (_, d1, d2, _, _) in tabs.values() for d in (d1, d2) if d is not None)
                             and all(om._data.get(b2) is d2 and om._data.get(b1) is d1 for (om, d1, d2, _, _) in tabs.values())
                             and not g["cfi2"].log and (g["cfi1"] is None or not g["cfi1"].log) and (not with_cfi or cfi._data.get(b2) is g["cfi2"])
                             and {n: dict(t.data) for n, t in m.aux_data.items() if n in snap_pb} == snap_pb and dict(_auxdata.alignment.get(m) or {}) == al0)
                P("join_blocks/R/a-refusal-leaves-everything-untouched", z3.And(z3.BoolVal(bool(untouched)), zint(b1.size) == s1, zint(b2.size) == s2))
                # the only refusals possible in this family: an alignment requirement on block2 (block1 non-empty)
                P("join_blocks/R/refused-only-for-an-alignment-requirement-of-block2", z3.And(s1 > 0, z3.BoolVal(align in ("b2", "both", "b2weaker"))))
                return
            ctx.cover("joined")
            P("join_blocks/G/joined-block-geometry", z3.And(z3.BoolVal(res is b1), zint(b1.offset) == 1, zint(b1.size) == s1 + s2))
            P("join_blocks/G/block2-left-the-interval-and-the-ordering", z3.BoolVal(b2.byte_interval is None and b2 not in bi.blocks and cache.adjacent_blocks(b1) == (prev, nxt)
                                                                                  and cache.adjacent_blocks(nxt)[0] is b1))
            P("join_blocks/G/neighbours-untouched", z3.And(z3.BoolVal(prev.offset == 0 and prev.size == 1 and nxt.size == 2), zint(nxt.offset) == 1 + s1 + s2))
            kk = ctx.int("k_entry")
            for name, (om, d1, d2, mid1, mid2) in tabs.items():
                check_merge(ctx, "join_blocks/T", om, b1, b2, nxt, d1, d2, mid2, s1, kk)
            # CFI
            jd = cfi._data.get(b1)
            if with_cfi:
                P("join_blocks/C/block2-has-no-directive-map-anymore", z3.BoolVal(b2 not in cfi._data and cfi._data.get(nxt) == {0: "other"}))
            if not with_cfi:
                pass
            elif "cfi_done" in g:
                got = jd.get(SymInt(Q), None)
                h1 = HAS(g["mid1"], Q) if g["cfi1"] is not None else z3.BoolVal(False)
                h2 = HAS(g["mid2"], Q - s1)
                P("join_blocks/C/directive-lists-keep-their-absolute-position", z3.BoolVal(got is not None) == z3.Or(h1, h2))
                if got is not None:
                    P("join_blocks/C/at-a-common-position-block1-directives-come-first",
                      seq_term(pieces(got)) == seq_term([(h1, TOK(g["mid1"], Q)), (h2, TOK(g["mid2"], Q - s1))]))
            else:
                P("join_blocks/C/nothing-to-merge-only-if-block2-had-no-directives", z3.Not(NONEMPTY(g["mid2"])))
                P("join_blocks/C/block1-directives-untouched", z3.BoolVal(jd is g["cfi1"] and (jd is None or not jd.log)))
            # per-block tables
            for n, before in snap_pb.items():
                now = dict(m.aux_data[n].data)
                P("join_blocks/P/no-per-block-entry-for-block2-remains(%s)" % n, z3.BoolVal(b2 not in now and now.get(nxt) == before.get(nxt)))
                if b2 in before:
                    if ctx.branch(s1 == 0):
                        P("join_blocks/P/an-empty-block1-inherits-block2's-description(%s)" % n, z3.BoolVal(now.get(b1) == before[b2]))
                    else:
                        P("join_blocks/P/a-non-empty-block1-keeps-its-own-description(%s)" % n, z3.BoolVal(now.get(b1, None) == before.get(b1, None)))
            al = dict(_auxdata.alignment.get(m) or {})
            P("join_blocks/A/block2-has-no-alignment-entry-anymore", z3.BoolVal(b2 not in al))
            want_al = max(al0.get(b1, 1), al0.get(b2, 1)) if ctx.branch(s1 == 0) else al0.get(b1, 1)
            P("join_blocks/A/joined-block-takes-the-stronger-requirement-only-when-block1-was-empty", z3.BoolVal(al.get(b1, 1) == want_al))
    return harness


def check_merge(ctx, tag, om, b1, b2, nxt, d1, d2, mid2, s1, kk):
    """the joined block's map is block1's map updated with {s1 + k: v for k, v in block2's map}"""
    jd = om._data.get(b1)
    ctx.prove(tag + "/block2-has-no-map-anymore-and-other-blocks-are-untouched", z3.BoolVal(b2 not in om._data and om._data.get(nxt) == {0: "other"}))
    merges = [e for e in (jd.log if isinstance(jd, PDict) else []) if e[0] == "merge"]
    if not merges:
        ctx.prove(tag + "/nothing-merged-only-if-block2-had-no-entries", z3.Not(NONEMPTY(mid2)))
        ctx.prove(tag + "/block1-entries-untouched", z3.BoolVal(jd is d1 and (jd is None or not jd.log)))
        return
    ok = (len(jd.log) == 1 and len(merges) == 1 and isinstance(merges[0][1], CompDict) and merges[0][1].src is d2 and not d2.log
          and ((jd is d1) if d1 is not None else (jd.base is None)))
    ctx.prove(tag + "/joined-map-is-block1's-map-updated-with-block2's-entries", z3.BoolVal(bool(ok)))
    if not ok:
        return
    key, val, cond, v0 = merges[0][1].entry(SymInt(kk))
    t = cond.term if isinstance(cond, SymBool) else z3.BoolVal(bool(cond))
    ctx.prove(tag + "/every-entry-of-block2-moves-to-key-plus-size-of-block1-with-its-value", z3.And(t, zint(key) == s1 + kk, z3.BoolVal(val is v0)))


def native_replay(kind, align, perblock):
    """native confirmation: the real join_blocks on concrete blocks of sizes 0..2 with an entry at EVERY offset of every offset-keyed
    table and of cfiDirectives (block ends included), compared with the position-preservation statement"""
    def rp(clause, model):
        bad = []
        for s1, s2 in itertools.product((0, 1, 2), repeat=2):
            ir, m = create_test_module(gtirb.Module.FileFormat.ELF, gtirb.Module.ISA.X64)
            _, bi = add_text_section(m, address=0x1000)
            mk = add_code_block if kind == "code" else add_data_block
            prev, b1, b2, nxt = mk(bi, b"\x90"), mk(bi, b"\x90" * s1), mk(bi, b"\x90" * s2), mk(bi, b"\x90\xc3")
            fl = []
            if kind == "code":
                add_edge(ir.cfg, prev, b1, gtirb.EdgeType.Fallthrough)
                add_edge(ir.cfg, b1, b2, gtirb.EdgeType.Fallthrough)
                add_edge(ir.cfg, b2, nxt, gtirb.EdgeType.Fallthrough)
                add_function(m, add_symbol(m, "f", prev), prev, {b1, b2, nxt})
                fl = gtirb_functions.Function.build_functions(m)
            o = b1.offset
            com = {gtirb.Offset(b, k): "c%d" % (b.offset + k) for b in (b1, b2) for k in range(b.size)}
            cfi = {gtirb.Offset(b, k): [(".cfi_undefined", [b.offset + k, i], NULL_UUID)] for i, b in enumerate((b1, b2)) for k in range(b.size + 1)}
            _auxdata.comments.set(m, dict(com))
            _auxdata.cfi_directives.set(m, {k: list(v) for k, v in cfi.items()})
            if align != "none":
                _auxdata.alignment.set(m, {"b2": {b2: 16}, "b1": {b1: 8}, "both": {b1: 4, b2: 16}, "b2weaker": {b1: 16, b2: 4}}[align])
            if perblock and kind == "code":
                _auxdata.profile.set(m, {b1: 7, b2: 9})
            with make_modify_cache(m, fl) as cache:
                try:
                    JN.join_blocks(cache, b1, b2)
                except JN.UnjoinableBlocksError:
                    continue
            desc = "sizes (%d, %d)" % (s1, s2)
            if (b1.offset, b1.size) != (o, s1 + s2) or b2.byte_interval is not None:
                bad.append("%s: geometry %s" % (desc, (b1.offset, b1.size)))
            got = {k.element_id.offset + k.displacement: v for k, v in _auxdata.comments.get(m).items() if k.element_id is b1}
            want = {b.offset + k.displacement if False else int(v[1:]): v for k, v in com.items() for b in (k.element_id,)}
            if got != want or any(k.element_id is b2 for k in _auxdata.comments.get(m)):
                bad.append("%s: comments at %s expected %s" % (desc, sorted(got), sorted(want)))
            gotc = {}
            for k, v in _auxdata.cfi_directives.get(m).items():
                if k.element_id is b1:
                    gotc[o + k.displacement] = [tuple(d[1]) for d in v]
                elif k.element_id is b2:
                    bad.append("%s: directives left on block2" % desc)
            wantc = {}
            for i, (b, sz, off) in enumerate(((b1, s1, o), (b2, s2, o + s1))):
                for k in range(sz + 1):
                    wantc.setdefault(off + k, []).append((off + k, i))
            if gotc != wantc:
                bad.append("%s: cfi %s expected %s" % (desc, sorted(gotc.items()), sorted(wantc.items())))
            al = _auxdata.alignment.get(m) or {}
            if b2 in al:
                bad.append("%s: alignment entry of block2 left" % desc)
            pf = _auxdata.profile.get(m) or {}
            if b2 in pf or (perblock and kind == "code" and pf.get(b1) != (9 if s1 == 0 else 7)):
                bad.append("%s: profile %s" % (desc, {("b1" if k is b1 else "b2"): v for k, v in pf.items()}))
        return {"confirmed": bool(bad), "observed": bad[:3] if bad else "concrete joins of sizes 0..2 satisfy the statement"}
    return rp


class setup:
    def __enter__(self):
        self.cms = [shims.installed([JN]), instrument.instrumented({"join:join_blocks": (JN.join_blocks, {5: CfiMerge}, True)})]
        for c in self.cms:
            c.__enter__()
        return self

    def __exit__(self, *e):
        for c in reversed(self.cms):
            c.__exit__(*e)
        return False


def jobs(tier="quick", seed=0):
    for kind in ("code", "data"):
        for which in (0, 1, 2, "cfi"):
            for b1maps in (True, False):
                yield Job("K/join_blocks/T/%s/table=%s/%s" % (kind, which, "block1-has-a-map" if b1maps else "block1-has-no-map"),
                          tables_harness(kind, "none", False, b1maps, which), setup=setup, kind="D", func="gtirb_rewriting._modify.join:join_blocks", replay=native_replay(kind, "none", False),
                          expect_cover=("joined",) + (("loop-preserved:join:join_blocks#5", "loop-exit:join:join_blocks#5") if which == "cfi" else ()), timeout_ms=30000)
        for align in ("none", "b2", "b1", "both", "b2weaker"):
            for perblock in (False, True):
                yield Job("K/join_blocks/T/%s/align=%s/%s" % (kind, align, "perblock" if perblock else "noperblock"),
                          tables_harness(kind, align, perblock, False, None), setup=setup, kind="D", func="gtirb_rewriting._modify.join:join_blocks", replay=native_replay(kind, align, perblock),
                          expect_cover=("joined",), timeout_ms=30000)


# ====================================================================================================================
# E family: labels / edges / functions -- semantic contract on enumerated shapes (concrete representative sizes 0 / 2)
# ====================================================================================================================
ET = gtirb.EdgeType
B1_OUT = {True: ["ft", "jmp", "jcc", "call", "ret"], False: ["none", "ft"]}          # keyed by "block is non-empty"
B2_OUT = {True: ["ft", "jmp", "jcc", "call", "ret", "selfloop"], False: ["none", "ft"]}


def build_e(s1, s2, o1, o2, extra_in, labels, funcs):
    ir, m = create_test_module(gtirb.Module.FileFormat.ELF, gtirb.Module.ISA.X64)
    _, bi = add_text_section(m, address=0x1000)
    prev = add_code_block(bi, b"\x90")
    # created with two bytes each so that the cache's initial ordering is prev, block1, block2, nxt; shrunk by shrink() afterwards
    b1 = add_code_block(bi, b"\x90\x90")
    b2 = add_code_block(bi, b"\x90\x90")
    nxt = add_code_block(bi, b"\x90\xc3")
    tgt = add_code_block(bi, b"\xeb\x00")
    callee = add_code_block(bi, b"\xc3")
    cfg = ir.cfg
    add_edge(cfg, prev, b1, ET.Fallthrough)
    add_edge(cfg, nxt, add_proxy_block(m), ET.Return)
    ret_sites = []

    def out(b, kind, ft_target):
        if kind == "ft":
            add_edge(cfg, b, ft_target, ET.Fallthrough)
        elif kind == "jmp":
            add_edge(cfg, b, tgt, ET.Branch)
        elif kind == "jcc":
            add_edge(cfg, b, tgt, ET.Branch, conditional=True)
            add_edge(cfg, b, ft_target, ET.Fallthrough)
        elif kind == "call":
            add_edge(cfg, b, callee, ET.Call)
            add_edge(cfg, b, ft_target, ET.Fallthrough)
            ret_sites.append(ft_target)
        elif kind == "ret":
            add_edge(cfg, b, add_proxy_block(m), ET.Return)
        elif kind == "selfloop":                        # the block's last instruction branches back to the block's own start
            add_edge(cfg, b, b, ET.Branch, conditional=True)
            add_edge(cfg, b, ft_target, ET.Fallthrough)
    out(b1, o1, b2)
    out(b2, o2, nxt)
    if ret_sites:
        for s in ret_sites:
            add_edge(cfg, callee, s, ET.Return)
    else:
        add_edge(cfg, callee, add_proxy_block(m), ET.Return)
    if extra_in:
        add_edge(cfg, tgt, b2, ET.Branch)
    else:
        add_edge(cfg, tgt, nxt, ET.Branch)
    syms = {"S1": add_symbol(m, "S1", b1)}
    if "b2start" in labels:
        syms["S2"] = add_symbol(m, "S2", b2)
    if "b2end" in labels:
        syms["E2"] = add_symbol(m, "E2", b2)
        syms["E2"].at_end = True
    if "b1end" in labels:
        syms["E1"] = add_symbol(m, "E1", b1)
        syms["E1"].at_end = True
    fl = []
    if funcs != "none":
        if funcs == "same":
            add_function(m, add_symbol(m, "f", prev), prev, {b1, b2, nxt})
        elif funcs == "different":
            add_function(m, add_symbol(m, "f", prev), prev, {b1})
            add_function(m, add_symbol(m, "h", nxt), nxt, {b2})          # block2 belongs to another function without being its entry
        elif funcs == "b2-entry":
            u = add_function(m, add_symbol(m, "f", prev), prev, {b1, b2, nxt})
            _auxdata.function_entries.get(m)[u].add(b2)
        add_function(m, add_symbol(m, "g", callee), callee)
        add_function(m, add_symbol(m, "t", tgt), tgt)
        fl = gtirb_functions.Function.build_functions(m)
    return dict(ir=ir, m=m, bi=bi, prev=prev, b1=b1, b2=b2, nxt=nxt, tgt=tgt, callee=callee, syms=syms, fl=fl)


def shrink(H, s1, s2):
    """give block1 / block2 their sizes (0 or 2) once the cache exists (gtirb keeps offset and size in plain fields)"""
    H["b1"]._size = s1
    H["b2"]._offset, H["b2"]._size = 1 + s1, s2
    H["nxt"]._offset = 1 + s1 + s2


def flow_view(H, cache, b2_alive):
    """position-level control flow seen from real (non-empty) code; empty blocks are pass-through: an edge into an empty block
    continues along that block's own out-edges, or -- if it has none -- with the code that physically follows it"""
    ir = H["ir"]
    order = [b for b in (H["prev"], H["b1"], H["b2"], H["nxt"]) if (b is not H["b2"] or b2_alive)]
    proxies = {}

    def pos(b):
        return ("pos", b.offset)

    def resolve(t, depth=0):
        if isinstance(t, gtirb.ProxyBlock):
            return {("proxy",)}
        if t.size:
            return {pos(t)}
        if depth > 6:
            return {("cycle",)}
        outs = list(t.outgoing_edges)
        if outs:
            r = set()
            for e in outs:
                r |= resolve(e.target, depth + 1)
            return r
        if t in order:
            i = order.index(t)
            return resolve(order[i + 1], depth + 1) if i + 1 < len(order) else {("end",)}
        return {("end",)}
    view = {}
    for b in [H["prev"], H["b1"], H["nxt"], H["tgt"], H["callee"]] + ([H["b2"]] if b2_alive else []):
        if not b.size:
            continue
        s = set()
        for e in b.outgoing_edges:
            for x in resolve(e.target):
                s.add((e.label.type.name, bool(e.label.conditional), x))
        view[("end-at", b.offset + b.size)] = s
    return view


def make_e_harness(s1, s2):
    def harness(ctx):
        o1 = B1_OUT[s1 > 0][ctx.choose(len(B1_OUT[s1 > 0]), "block1-out-edges")]
        o2 = B2_OUT[s2 > 0][ctx.choose(len(B2_OUT[s2 > 0]), "block2-out-edges")]
        extra_in = bool(ctx.choose(2, "block2-has-a-branch-coming-in"))
        # (an end-of-block label on block1 with a non-empty block2 used to be a precondition of this contract; the code now refuses
        # such joins itself -- F-C02b -- so the case is part of the universe)
        lab_opts = [(), ("b2start",), ("b2end",), ("b2start", "b2end")] + ([("b1end",), ("b1end", "b2start")] if (s1 > 0 or s2 == 0) else [])
        # precondition kept (monitored at the call sites): an EMPTY block1 carries no end-of-block label when block2 is non-empty
        # (split_block hands end labels to the tail, so the empty head of a split never has one)
        labels = lab_opts[ctx.choose(len(lab_opts), "labels")]
        fopts = ["none", "same", "b2-entry"] + (["different"] if s1 > 0 else [])
        if s1 == 0:
            fopts = ["none", "same"]          # precondition: an empty block1 is in the function of block2, which is not an entry
        funcs = fopts[ctx.choose(len(fopts), "functions")]
        H = build_e(s1, s2, o1, o2, extra_in, labels, funcs)
        m, b1, b2 = H["m"], H["b1"], H["b2"]
        with make_modify_cache(m, H["fl"]) as cache:
            shrink(H, s1, s2)
            lab0 = {n: (cache.reference_cache.get_referent(s).offset + (cache.reference_cache.get_referent(s).size if s.at_end else 0)) for n, s in H["syms"].items()}
            flow0 = flow_view(H, cache, True)
            edges0 = sorted((id(e.source), id(e.target), e.label.type.name) for e in H["ir"].cfg)
            fb = _auxdata.function_blocks.get(m)
            fe = _auxdata.function_entries.get(m)
            func_at0 = {b.offset: u for u, bs in (fb or {}).items() for b in bs if b.size} if fb else {}
            entries0 = {u: sorted(b.offset for b in bs) for u, bs in (fe or {}).items()} if fe else {}
            try:
                JN.join_blocks(cache, b1, b2)
                joined = True
            except JN.UnjoinableBlocksError:
                joined = False
            ctx.cover("joined" if joined else "refused")
            P = ctx.prove
            if not joined:
                edges1 = sorted((id(e.source), id(e.target), e.label.type.name) for e in H["ir"].cfg)
                ok = edges1 == edges0 and b2.byte_interval is H["bi"] and all(cache.reference_cache.get_referent(s) is (b1 if n in ("S1", "E1") else b2) for n, s in H["syms"].items())
                P("join_blocks/R/a-refusal-leaves-edges-labels-and-blocks-untouched", z3.BoolVal(bool(ok)))
                return
            # L: every label keeps its absolute position and refers to a live block
            lab1, dangling = {}, []
            for n, s in H["syms"].items():
                r = cache.reference_cache.get_referent(s)
                if r is not b1:
                    dangling.append(n)
                    continue
                lab1[n] = r.offset + (r.size if s.at_end else 0)
            P("join_blocks/L/no-label-left-on-the-removed-block", z3.BoolVal(not dangling), note=str(dangling))
            P("join_blocks/L/every-label-keeps-its-absolute-position", z3.BoolVal(lab1 == {k: v for k, v in lab0.items() if k in lab1}),
              note="before %s after %s" % (lab0, lab1))
            # E: control flow seen from real code is unchanged
            flow1 = flow_view(H, cache, False)
            bury = s1 > 0 and s2 > 0 and flow0.get(("end-at", b1.offset + s1)) != {("Fallthrough", False, ("pos", b1.offset + s1))}
            P("join_blocks/E/no-control-transfer-is-buried-in-the-middle-of-the-joined-block", z3.BoolVal(not bury),
              note="flow out of block1 before: %s" % sorted(flow0.get(("end-at", b1.offset + s1), ())))
            want = {k: v for k, v in flow0.items() if not (s1 > 0 and s2 > 0 and k == ("end-at", b1.offset + s1))}
            P("join_blocks/E/control-flow-seen-from-real-code-is-unchanged", z3.BoolVal(flow1 == want),
              note="changed: %s" % [(k, sorted(want.get(k, ())), sorted(flow1.get(k, ()))) for k in sorted(set(want) | set(flow1)) if want.get(k) != flow1.get(k)][:3])
            live = set(m.byte_blocks) | set(m.proxies)
            P("join_blocks/E/no-edge-starts-or-ends-at-the-removed-block", z3.BoolVal(all(e.source in live and e.target in live for e in H["ir"].cfg)))
            # F: function tables keep describing the same code
            fb, fe = _auxdata.function_blocks.get(m), _auxdata.function_entries.get(m)
            if fb:
                func_at1 = {b.offset: u for u, bs in fb.items() for b in bs if b.size}
                want_f = dict(func_at0)
                if s1 > 0 and s2 > 0:
                    want_f.pop(b1.offset + s1, None)      # block2's bytes are now inside the joined block, which starts at block1's offset
                P("join_blocks/F/every-byte-range-keeps-its-function", z3.BoolVal(func_at1 == want_f and all(b2 not in bs for bs in fb.values()) and b2 not in cache.functions_by_block
                                                                                 and (s1 == 0 or s2 == 0 or func_at0.get(b1.offset) == func_at0.get(b1.offset + s1))),
                  note="before %s after %s" % (sorted(func_at0), sorted(func_at1)))
                entries1 = {u: sorted(b.offset for b in bs) for u, bs in fe.items()}
                P("join_blocks/F/function-entries-stay-at-their-positions", z3.BoolVal(entries1 == entries0 and all(b2 not in bs for bs in fe.values())),
                  note="before %s after %s" % (sorted(entries0.values()), sorted(entries1.values())))
    return harness


_jobs_t = jobs


def jobs(tier="quick", seed=0):
    yield from _jobs_t(tier, seed)
    for s1, s2 in ((2, 2), (2, 0), (0, 2), (0, 0)):
        yield Job("K/join_blocks/E/block1-%s/block2-%s" % ("nonempty" if s1 else "empty", "nonempty" if s2 else "empty"), make_e_harness(s1, s2), kind="E",
                  func="gtirb_rewriting._modify.join:are_joinable/join_blocks", expect_cover=("joined", "refused") if s1 else ("joined",))
