"""Contract stubs for the `leb128` dependency (pure-python package, installed source).

encode contracts   u.encode(i): requires i >= 0 (its own assert) ; ensures result == ULEB(i), len >= 1
                   i.encode(i): ensures result == SLEB(i), len >= 1
  where ULEB / SLEB are the standard's encodings; as *terms* they are the uninterpreted
  functions (uleb_len, uleb_bytes) / (sleb_len, sleb_bytes); that the installed source computes
  the standard's digits is the separate obligation group C14/leb128/* (contracts/c14_leb.py).
decode contracts   decode_reader(r) positioned at the start of ULEB(v) ++ rest returns (v, len ULEB(v))
  and leaves r after it (pair lemma); at EOF raises EOFError.  On literal bytes the *real*
  decode_reader runs (its loop is bounded by the literal chunk).
"""
import z3

import leb128

from pyvc import core
from pyvc.core import Unsupported
from pyvc.sym import SymBytes, SymInt, SymReader, is_sym, mk_int, zint

# The standard's LEB128 (DWARF 7.6) as recursive definitions (z3 define-fun-rec; unfolded on demand, no axioms):
#   ULEB(n) = [n mod 128]            if n < 128            else [n mod 128 + 128] ++ ULEB(n div 128)
#   SLEB(n) = [n mod 128]            if last(n)            else [n mod 128 + 128] ++ SLEB(n div 128)
#   last(n) = (n div 128 = 0 and n mod 128 < 64) or (n div 128 = -1 and n mod 128 >= 64)
_n, _j = z3.Ints("n j")
ULEN = z3.RecFunction("uleb_len", z3.IntSort(), z3.IntSort())
UBYTE = z3.RecFunction("uleb_byte", z3.IntSort(), z3.IntSort(), z3.IntSort())
SLEN = z3.RecFunction("sleb_len", z3.IntSort(), z3.IntSort())
SBYTE = z3.RecFunction("sleb_byte", z3.IntSort(), z3.IntSort(), z3.IntSort())


def _slast(n):
    return z3.Or(z3.And(n / 128 == 0, n % 128 < 64), z3.And(n / 128 == -1, n % 128 >= 64))


# the bodies, as functions of the argument terms: used for the definitions below AND for definitional unfoldings at given terms
def ulen_body(n):
    return z3.If(n < 128, 1, 1 + ULEN(n / 128))


def ubyte_body(n, j):
    return z3.If(j <= 0, z3.If(n < 128, n % 128, n % 128 + 128), UBYTE(n / 128, j - 1))


def slen_body(n):
    return z3.If(_slast(n), 1, 1 + SLEN(n / 128))


def sbyte_body(n, j):
    return z3.If(j <= 0, z3.If(_slast(n), n % 128, n % 128 + 128), SBYTE(n / 128, j - 1))


z3.RecAddDefinition(ULEN, [_n], ulen_body(_n))
z3.RecAddDefinition(UBYTE, [_n, _j], ubyte_body(_n, _j))
z3.RecAddDefinition(SLEN, [_n], slen_body(_n))
z3.RecAddDefinition(SBYTE, [_n, _j], sbyte_body(_n, _j))

_REAL = {"u.encode": leb128._U.encode, "i.encode": leb128._I.encode,
         "u.decode_reader": leb128._U.decode_reader, "i.decode_reader": leb128._I.decode_reader}

CALLS = {"u.encode": 0, "i.encode": 0, "u.decode_reader": 0, "i.decode_reader": 0}


def enc_chunk(codec, v):
    """the rope for codec(v) (shared by stubs and by the independent spec)"""
    t = zint(v)
    k = z3.FreshInt("k")
    if codec == "uleb":
        return SymBytes.encoded(("uleb", v), mk_int(ULEN(t)), z3.Lambda([k], UBYTE(t, k)))
    return SymBytes.encoded(("sleb", v), mk_int(SLEN(t)), z3.Lambda([k], SBYTE(t, k)))


def u_encode(i):
    CALLS["u.encode"] += 1
    if not is_sym(i):
        return SymBytes.lit(_REAL["u.encode"](i))
    c = core.CUR
    if not c.branch(zint(i) >= 0):
        raise AssertionError()
    c.assume(ULEN(zint(i)) >= 1)
    return enc_chunk("uleb", i)


def i_encode(i):
    CALLS["i.encode"] += 1
    if not is_sym(i):
        return SymBytes.lit(_REAL["i.encode"](i))
    core.CUR.assume(SLEN(zint(i)) >= 1)
    return enc_chunk("sleb", i)


def _decode_reader(kind, r):
    CALLS[("u" if kind == "uleb" else "i") + ".decode_reader"] += 1
    if not isinstance(r, SymReader):
        return _REAL[("u" if kind == "uleb" else "i") + ".decode_reader"](r)
    ch = r.at_chunk()
    if ch is None:
        raise EOFError()
    if ch.kind == "enc":
        r.take_chunk()
        if ch.tag[0] == kind:
            return ch.tag[1], ch.length()
        # other codec's bytes: same consumption (both codecs end at the first byte < 0x80), unspecified value
        return SymInt(core.CUR.int("leb_mismatch", inp=False)), ch.length()
    if ch.kind == "lit":
        return _REAL[("u" if kind == "uleb" else "i") + ".decode_reader"](r)
    raise Unsupported("LEB128 decode of arbitrary symbolic bytes (outside the D fragment, see C14/leb128 decode: B)")


def u_decode_reader(r):
    return _decode_reader("uleb", r)


def i_decode_reader(r):
    return _decode_reader("sleb", r)


def _ord(b):
    if isinstance(b, SymBytes):
        e = b.elems
        if e is None or len(e) != 1:
            raise TypeError("ord() expected a character")
        return e[0]
    return ord(b)


class stubs:
    """context manager installing the four stubs on the leb128.u / leb128.i singletons"""

    def __enter__(self):
        leb128.u.encode = u_encode
        leb128.i.encode = i_encode
        leb128.u.decode_reader = u_decode_reader
        leb128.i.decode_reader = i_decode_reader
        self._ord = leb128.__dict__.get("ord", None)
        leb128.__dict__["ord"] = _ord
        return self

    def __exit__(self, *a):
        for o in (leb128.u, leb128.i):
            for n in ("encode", "decode_reader"):
                o.__dict__.pop(n, None)
        if self._ord is None:
            leb128.__dict__.pop("ord", None)
        else:
            leb128.__dict__["ord"] = self._ord
        return False
