from .c12_13 import jobs_c12 as jobs  # noqa: F401
