"""C12 (assembler output matches the assembly text) and C13 (symbol discipline, incremental assembly).

What a contract can decide here is the Python bookkeeping of Assembler/_Streamer/_SymbolCreator around LLVM (mcasm):
  E  assembler:_SymbolCreator._precreate_label   exhaustive case split (temporary or not x suffix given or not x name already local /
                                               in the module / suffixed name in the module / free): MultipleDefinitionsError exactly when
                                               the (suffixed) name is taken; the created symbol carries the suffix iff temporary
  E  assembler:_Streamer._symbol_lookup / _resolve_symbol   local first, then the module's own symbol OBJECT; unknown -> UndefSymbolError
                                               unless allowed, then exactly one proxy-backed symbol recorded under the name
  E  assembler:Assembler.finalize               frame condition over the whole configuration space of the constructor (6 keyword-only
                                               parameters, 64 configurations) x 4 histories of use: no option changes, results share nothing
  B  the same 64 configurations x probe texts (one per option) as the next text after 0 / 1 / 2 earlier assemble+finalize rounds:
     equal to a fresh Assembler of the same configuration, and every option in force in every round
That the bytes are what the text says, and which callbacks LLVM issues for a text, are properties of LLVM: ASSUMED; the B checks
compare the real Assembler's result with an independent disassembler (capstone) and with the structure the statement demands:
  B  programs from a vocabulary (ordinary instruction, jmp / jcc / call to a label or an external symbol, indirect jump and call,
     ret, labels, .byte runs, a symbolic memory operand) of length <= 4 (quick: a seed-chosen slice) for X64 (AT&T and Intel), IA32,
     ARM64 and MIPS32: instructions as written, blocks tile the data in order with at most one empty last block, every control
     transfer ends its block with exactly the edges of its kind, labels are symbols on the block starting at their position,
     unreferenced .byte-only blocks are data, one expression per symbolic operand at the operand's offset with symbol/addend/size
  B  C13: the same patch assembled n times with distinct suffixes -> pairwise distinct symbol names and no cross-capture; chunked
     assembly equals whole assembly whenever no chunk refers forward
"""
import itertools
import logging
import random

import capstone
import gtirb
import z3
from gtirb_test_helpers import add_code_block, add_symbol, add_text_section, create_test_module

from gtirb_rewriting.assembler import Assembler, MultipleDefinitionsError, UndefSymbolError
from gtirb_rewriting.assembler import assembler as AS
from gtirb_rewriting.assembly import X86Syntax

from pyvc.run import BResult, Job

ISAS = {
    "x64-att": (gtirb.Module.ISA.X64, gtirb.Module.FileFormat.ELF, X86Syntax.ATT, (capstone.CS_ARCH_X86, capstone.CS_MODE_64)),
    "x64-intel": (gtirb.Module.ISA.X64, gtirb.Module.FileFormat.ELF, X86Syntax.INTEL, (capstone.CS_ARCH_X86, capstone.CS_MODE_64)),
    "ia32": (gtirb.Module.ISA.IA32, gtirb.Module.FileFormat.PE, X86Syntax.ATT, (capstone.CS_ARCH_X86, capstone.CS_MODE_32)),
    "arm64": (gtirb.Module.ISA.ARM64, gtirb.Module.FileFormat.ELF, X86Syntax.ATT, (capstone.CS_ARCH_ARM64, capstone.CS_MODE_ARM)),
    "mips32": (gtirb.Module.ISA.MIPS32, gtirb.Module.FileFormat.ELF, X86Syntax.ATT, (capstone.CS_ARCH_MIPS, capstone.CS_MODE_MIPS32 + capstone.CS_MODE_BIG_ENDIAN)),
}

# statement -> (text per isa, kind, capstone mnemonic, symbol operand or None)
#   kinds: ord, jmp, jcc, call, ijmp, icall, ret, label, bytes, symop
VOCAB = {
    "x64-att": {"ord": ("pushq %rax", "push"), "ord2": ("nop", "nop"), "jmp": ("jmp {t}", "jmp"), "jcc": ("je {t}", "je"), "call": ("call {t}", "call"),
                "ijmp": ("jmp *%rax", "jmp"), "icall": ("call *%rax", "call"), "ret": ("ret", "ret"), "symop": ("movq {t}(%rip), %rax", "mov"), "symopimm": ("addl $1, {t}(%rip)", "add")},
    "x64-intel": {"ord": ("push rax", "push"), "ord2": ("nop", "nop"), "jmp": ("jmp {t}", "jmp"), "jcc": ("je {t}", "je"), "call": ("call {t}", "call"),
                  "ijmp": ("jmp rax", "jmp"), "icall": ("call rax", "call"), "ret": ("ret", "ret"), "symop": ("mov rax, [rip + {t}]", "mov"), "symopimm": ("add dword ptr [rip + {t}], 1", "add")},
    "ia32": {"ord": ("pushl %eax", "push"), "ord2": ("nop", "nop"), "jmp": ("jmp {t}", "jmp"), "jcc": ("je {t}", "je"), "call": ("call {t}", "call"),
             "ijmp": ("jmp *%eax", "jmp"), "icall": ("call *%eax", "call"), "ret": ("ret", "ret"), "symop": ("movl {t}, %eax", "mov"), "symopimm": ("addl $1, {t}", "add")},
    "arm64": {"ord": ("add x0, x0, #1", "add"), "ord2": ("nop", "nop"), "jmp": ("b {t}", "b"), "jcc": ("b.eq {t}", "b.eq"), "call": ("bl {t}", "bl"),
              "ijmp": ("br x1", "br"), "icall": ("blr x1", "blr"), "ret": ("ret", "ret"), "symop": ("adrp x0, {t}", "adrp")},
    "mips32": {"ord": ("addiu $t0, $t0, 1", "addiu"), "ord2": ("nop", "nop"), "jmp": ("j {t}", "j"), "call": ("jal {t}", "jal"),
               "ijmp": ("jr $t9", "jr"), "icall": ("jalr $t9", "jalr")},
}


def mk_module(isa, ff):
    ir, m = create_test_module(ff, isa)
    _, bi = add_text_section(m, address=0x1000)
    ext = add_code_block(bi, b"\x00\x00\x00\x00")
    sym = add_symbol(m, "modsym", ext)
    return ir, m, sym


def programs(isa_key, maxlen, rnd, limit):
    v = VOCAB[isa_key]
    kinds = [k for k in ("ord", "ord2", "jmp", "jcc", "call", "ijmp", "icall", "ret", "symop", "symopimm", "label", "dlabel", "bytes") if k in v or k in ("label", "dlabel", "bytes")]
    out = []
    for n in range(1, maxlen + 1):
        for combo in itertools.product(kinds, repeat=n):
            if combo.count("label") + 2 * combo.count("dlabel") > 3 or combo.count("dlabel") > 1:
                continue
            out.append(combo)
    if limit and len(out) > limit:
        rnd.shuffle(out)
        singles = [c for c in out if len(c) == 1]
        out = singles + out[:limit]
    # always enumerated in full: several labels at one position (two on consecutive lines, or three), after every kind of
    # predecessor and before code / bytes / the end of the text
    fam = []
    for pre in [()] + [(k,) for k in ("ord", "jmp", "jcc", "call", "ret", "bytes") if k in v or k == "bytes"]:
        for labs in (("dlabel",), ("label", "dlabel"), ("dlabel", "label")):
            for post in ((), ("bytes",), ("ord",), ("bytes", "ord"), ("bytes", "label", "bytes")):
                fam.append(pre + labs + post)
    return out + [c for c in fam if c not in set(out)]


def render(isa_key, combo, target_choice):
    v = VOCAB[isa_key]
    lines, stmts = [], []
    has_label = "label" in combo or "dlabel" in combo
    names = iter(["Lab"] + ["Lab_%d" % i for i in range(1, 8)])
    for k in combo:
        if k == "label":
            n = next(names)
            lines.append(n + ":")
            stmts.append(("label", n, None))
        elif k == "dlabel":
            for _ in range(2):
                n = next(names)
                lines.append(n + ":")
                stmts.append(("label", n, None))
        elif k == "bytes":
            lines.append(".byte 1, 2")
            stmts.append(("bytes", None, None))
        else:
            text, mn = v[k]
            t = None
            if "{t}" in text:
                t = "Lab" if (has_label and target_choice == "label") else "modsym"
                text = text.format(t=t)
            lines.append(text)
            stmts.append((k, mn, t))
    if isa_key == "mips32":
        lines.insert(0, ".set noreorder")
    return "\n".join(lines), stmts


def check_program(isa_key, combo, target_choice):
    isa, ff, syntax, cs = ISAS[isa_key]
    ir, m, modsym = mk_module(isa, ff)
    text, stmts = render(isa_key, combo, target_choice)
    a = Assembler(m)
    try:
        a.assemble(text, syntax)
        res = a.finalize()
    except Exception as e:
        return [("C12/supported-text-assembles", "%s: %s" % (type(e).__name__, str(e)[:100]))], text
    pr = []
    sec = res.text_section
    data = bytes(sec.data)
    blocks = sec.blocks
    # tiling
    pos = 0
    for i, b in enumerate(blocks):
        if b.offset != pos:
            pr.append(("C12/blocks-tile-the-data-in-order", "block %d at %d expected %d" % (i, b.offset, pos)))
        if b.size == 0 and i != len(blocks) - 1:
            pr.append(("C12/at-most-one-empty-block-at-the-end", "empty block %d of %d" % (i, len(blocks))))
        pos = b.offset + b.size
    if pos != len(data):
        pr.append(("C12/blocks-tile-the-data-in-order", "blocks end at %d, data has %d bytes" % (pos, len(data))))
    # instruction stream per statement: walk the data with capstone for instruction statements, 2 raw bytes for .byte runs
    md = capstone.Cs(*cs)
    md.detail = True
    off = 0
    layout = []          # (kind, offset, size, mnemonic seen, symbol)
    for k, mn, t in stmts:
        if k == "label":
            layout.append((k, off, 0, None, mn))      # for labels the last field is the label's name
            continue
        if k == "bytes":
            if data[off:off + 2] != b"\x01\x02":
                pr.append(("C12/bytes-are-the-instructions-written", ".byte run at %d is %s" % (off, data[off:off + 2].hex())))
            layout.append((k, off, 2, None, None))
            off += 2
            continue
        ins = next(md.disasm(data[off:], off), None)
        if ins is None:
            pr.append(("C12/bytes-are-the-instructions-written", "nothing decodes at %d for '%s'" % (off, mn)))
            return pr, text
        if ins.mnemonic.split()[0] != mn and not (mn == "ret" and ins.mnemonic.startswith("ret")) and not (mn == "nop" and ins.mnemonic in ("nop", "sll")) \
                and not (mn == "b" and ins.mnemonic in ("b", "beqz", "beq", "bal")) and not (mn == "jal" and ins.mnemonic in ("jal", "bal")):
            pr.append(("C12/bytes-are-the-instructions-written", "at %d wrote '%s' disassembles as '%s %s'" % (off, mn, ins.mnemonic, ins.op_str)))
        layout.append((k, off, ins.size, ins.mnemonic, t))
        off += ins.size
    if off != len(data):
        pr.append(("C12/bytes-are-the-instructions-written", "%d bytes of text, %d bytes assembled" % (off, len(data))))
    # block of an offset
    def block_at(o, size):
        for b in blocks:
            if b.offset <= o and o + size <= b.offset + b.size and b.size:
                return b
        return None
    starts = {b.offset for b in blocks}
    syms = {s.name: s for s in res.symbols}
    for idx, (k, o, size, seen, t) in enumerate(layout):
        if k == "label":
            s = syms.get(t)
            # a label at the very end of the text has no block starting there: it then designates the end of the last block
            okpos = s is not None and isinstance(s.referent, gtirb.ByteBlock) and any(s.referent is b for b in blocks) and (
                (s.referent.offset == o and not s.at_end) or (s.at_end and s.referent.offset + s.referent.size == o == len(data)))
            if not okpos:
                pr.append(("C12/label-is-a-symbol-on-the-block-starting-at-its-position", "%s -> %r%s (position %d; blocks %s)" % (
                    t, s and s.referent, " at_end" if s is not None and s.at_end else "", o, [(type(b).__name__, b.offset, b.size) for b in blocks])))
            continue
        b = block_at(o, size)
        if b is None:
            pr.append(("C12/blocks-tile-the-data-in-order", "%s at %d not inside one block" % (k, o)))
            continue
        if k in ("jmp", "jcc", "call", "ijmp", "icall", "ret"):
            if not isinstance(b, gtirb.CodeBlock):
                pr.append(("C12/control-transfer-ends-its-block-with-its-edges", "%s at %d is in a data block" % (k, o)))
                continue
            if o + size != b.offset + b.size:
                pr.append(("C12/control-transfer-ends-its-block-with-its-edges", "%s at %d is buried in block %d+%d" % (k, o, b.offset, b.size)))
                continue
            out = sorted(((e.label.type.name, bool(e.label.conditional), bool(e.label.direct), type(e.target).__name__) for e in res.cfg.out_edges(b)))
            nxt_exists = True
            want = {"jmp": [("Branch", False, True)], "jcc": [("Branch", True, True), ("Fallthrough", False, True)],
                    "call": [("Call", False, True), ("Fallthrough", False, True)], "ijmp": [("Branch", False, False)],
                    "icall": [("Call", False, False), ("Fallthrough", False, True)], "ret": [("Return", False, False)]}[k]
            got = sorted(x[:3] for x in out)
            got_ret = sorted((x[0],) for x in out)
            if k == "ret":
                if got_ret != [("Return",)] or out[0][3] != "ProxyBlock" or next(iter(res.cfg.out_edges(b))).target not in res.proxies:
                    pr.append(("C12/control-transfer-ends-its-block-with-its-edges", "ret at %d has edges %s" % (o, out)))
            elif [x[:2] for x in got] != [x[:2] for x in sorted(want)] or any(g[2] != w[2] for g, w in zip(got, sorted(want)) if g[0] != "Fallthrough"):
                pr.append(("C12/control-transfer-ends-its-block-with-its-edges", "%s at %d has edges %s expected %s" % (k, o, out, sorted(want))))
            if k in ("ijmp", "icall"):
                tg = [e.target for e in res.cfg.out_edges(b) if e.label.type.name in ("Branch", "Call")]
                if not tg or not isinstance(tg[0], gtirb.ProxyBlock) or tg[0] not in res.proxies:
                    pr.append(("C12/indirect-transfer-targets-a-registered-proxy", "%s at %d -> %r" % (k, o, tg)))
            if k in ("jmp", "jcc", "call") and t is not None:
                tg = [e.target for e in res.cfg.out_edges(b) if e.label.type.name in ("Branch", "Call")]
                want_t = syms["Lab"].referent if t == "Lab" else modsym.referent
                if not tg or tg[0] is not want_t:
                    pr.append(("C12/direct-edge-leads-to-the-block-of-its-label", "%s %s at %d -> %r" % (k, t, o, tg)))
        if k in ("jmp", "jcc", "call", "symop", "symopimm") and t is not None:
            exprs = {eo: e for eo, e in sec.symbolic_expressions.items() if o <= eo < o + size}
            if len(exprs) != 1:
                pr.append(("C12/one-expression-per-symbolic-operand", "%s %s at %d: %d expressions" % (k, t, o, len(exprs))))
            else:
                eo, e = next(iter(exprs.items()))
                want_sym = syms["Lab"] if t == "Lab" else modsym
                if not isinstance(e, gtirb.SymAddrConst) or e.symbol is not want_sym or e.offset != 0:
                    pr.append(("C12/expression-has-the-right-symbol-and-addend", "%s %s at %d: %r" % (k, t, o, e)))
                if eo not in sec.symbolic_expression_sizes or not (0 < sec.symbolic_expression_sizes[eo] <= size):
                    pr.append(("C12/expression-size-recorded", "%s at %d: size %s" % (k, eo, sec.symbolic_expression_sizes.get(eo))))
    # a code block that ends without a control transfer (its text goes on under a label, or an instruction follows a terminator-less
    # boundary) runs into the next block: exactly one fallthrough edge to the block that physically follows it
    for bi_, b in enumerate(blocks):
        if not isinstance(b, gtirb.CodeBlock) or not b.size or bi_ + 1 >= len(blocks):
            continue
        inside = [(k, o) for (k, o, size, _, _) in layout if size and b.offset <= o < b.offset + b.size]
        if not inside or inside[-1][0] in ("jmp", "jcc", "call", "ijmp", "icall", "ret"):
            continue
        nb = blocks[bi_ + 1]
        out = [(e.label.type.name, e.target) for e in res.cfg.out_edges(b)]
        if out != [("Fallthrough", nb)]:
            pr.append(("C12/block-without-a-terminator-falls-through-to-the-next-block", "block %d+%d (ends with '%s') has out-edges %s" % (
                b.offset, b.size, inside[-1][0], [(t, getattr(x, "offset", "proxy")) for t, x in out])))
    # data conversion: a block made only of .byte runs that nothing jumps to and that is not first-in-an-executable-section-and-reachable
    for b in blocks:
        kinds_in = [k for (k, o, size, _, _) in layout if size and b.offset <= o < b.offset + b.size]
        if kinds_in and all(k == "bytes" for k in kinds_in):
            targeted = any(True for _ in res.cfg.in_edges(b)) if isinstance(b, gtirb.CodeBlock) else False
            has_label_here = any(k == "label" and o == b.offset for (k, o, _, _, _) in layout)
            if isinstance(b, gtirb.CodeBlock) and not targeted and b.offset != 0 and not has_label_here:
                pr.append(("C12/unreferenced-byte-only-blocks-are-data", "block %d+%d is code" % (b.offset, b.size)))
        if kinds_in and any(k not in ("bytes",) for k in kinds_in) and isinstance(b, gtirb.DataBlock):
            pr.append(("C12/blocks-with-instructions-are-code", "block %d+%d is data" % (b.offset, b.size)))
    if not pr:
        for d in (create_ir_problems(res) or [])[:2]:
            pr.append(("C12/create_ir-is-a-faithful-image-of-the-result", d))
    return pr, text


def create_ir_problems(res):
    """Assembler.Result.create_ir(): the IR is a faithful image of the result -- every block (the kept empty one at the end included),
    byte, expression, edge, proxy and symbol of the result is in it, at the same place, and nothing dangles.  Requires a result that
    refers to nothing outside itself (create_ir's own documented precondition: it raises ValueError otherwise)"""
    import io
    snap = {name: ([(b, b.offset, b.size) for b in sect.blocks], bytes(sect.data), dict(sect.symbolic_expressions), dict(sect.symbolic_expression_sizes))
            for name, sect in res.sections.items()}
    edges = list(res.cfg)
    syms = [(s, s.referent, s.at_end) for s in res.symbols]
    proxies = list(res.proxies)
    try:
        ir = res.create_ir()
    except ValueError as ex:
        if "outside of the result" in str(ex):
            return None
        return ["create_ir raised ValueError: %s" % str(ex)[:80]]
    except Exception as ex:      # noqa
        return ["create_ir raised %s: %s" % (type(ex).__name__, str(ex)[:80])]
    pr = []
    m = ir.modules[0]
    for name, (blocks, data, exprs, sizes) in snap.items():
        sects = [x for x in m.sections if x.name == name]
        if len(sects) != 1 or len(sects[0].byte_intervals) != 1:
            pr.append("section %s: %d sections in the IR" % (name, len(sects)))
            continue
        bi = next(iter(sects[0].byte_intervals))
        if bytes(bi.contents) != data or bi.size != len(data):
            pr.append("section %s: contents differ" % name)
        for b, off, size in blocks:
            if b.byte_interval is not bi or b.offset != off or b.size != size:
                pr.append("section %s: the block at %d+%d of the result is %s" % (name, off, size, "not in the IR" if b.byte_interval is not bi else "at %d+%d" % (b.offset, b.size)))
        if len(bi.blocks) != len(blocks):
            pr.append("section %s: %d blocks in the result, %d in the IR" % (name, len(blocks), len(bi.blocks)))
        if dict(bi.symbolic_expressions) != exprs:
            pr.append("section %s: symbolic expressions differ" % name)
        tab = m.aux_data["symbolicExpressionSizes"].data if "symbolicExpressionSizes" in m.aux_data else {}
        for off, sz in sizes.items():
            if tab.get(gtirb.Offset(bi, off)) != sz:
                pr.append("section %s: expression size at %d not recorded" % (name, off))
    live = set(m.byte_blocks) | set(m.proxies)
    for e in edges:
        if e not in ir.cfg:
            pr.append("an edge of the result is not in ir.cfg")
    for e in ir.cfg:
        for n in (e.source, e.target):
            if n not in live:
                pr.append("ir.cfg: %s edge endpoint (%s) is not part of the module" % (e.label.type.name, type(n).__name__))
    for s, r, at_end in syms:
        if s.module is not m or s.referent is not r or s.at_end != at_end:
            pr.append("symbol %s changed or is not in the module" % s.name)
        if isinstance(r, gtirb.Block) and r not in live:
            pr.append("symbol %s designates a block that is not part of the module" % s.name)
    for p_ in proxies:
        if p_ not in m.proxies:
            pr.append("a proxy of the result is not registered in the module")
    try:
        buf = io.BytesIO()
        ir.save_protobuf_file(buf)
        buf.seek(0)
        gtirb.IR.load_protobuf_file(buf)
    except Exception as ex:      # noqa
        pr.append("the IR does not survive save/load: %s: %s" % (type(ex).__name__, str(ex)[:80]))
    return pr


# ------------------------------------------------------------------------------------------------ operand forms (C12, C04)
OPERAND_FORMS = {
    "x64-att": ["movq {t}(%rip), %rax", "leaq {t}(%rip), %rax", "movq ${t}, %rax", "call {t}", "jmp {t}", "je {t}", ".quad {t}", "addl $1, {t}(%rip)", "cmpb $0, {t}(%rip)"],
    "x64-intel": ["mov rax, [rip + {t}]", "lea rax, [rip + {t}]", "call {t}", "jmp {t}", "add dword ptr [rip + {t}], 1"],
    "ia32": ["movl {t}, %eax", "movl ${t}, %eax", "leal {t}, %eax", "call {t}", "jmp {t}", ".long {t}", "addl $1, {t}"],
    "arm64": ["adrp x0, {t}", "add x0, x0, :lo12:{t}", "ldr x0, [x0, :lo12:{t}]", "ldr x2, {t}", "ldr w2, {t}", "ldrsw x2, {t}", "adr x0, {t}", "bl {t}", "b {t}", "b.eq {t}", "cbz x0, {t}",
              ".quad {t}", "adrp x0, :got:{t}", "ldr x0, [x0, :got_lo12:{t}]"],
    "mips32": ["lui $t0, %hi({t})", "addiu $t0, $t0, %lo({t})", "lw $t1, %lo({t})($t0)", "sw $t1, %lo({t})($t0)", "jal {t}", "j {t}", ".word {t}", "lw $t9, %got({t})($gp)"],
}


def operand_forms(tier, seed):
    """one symbolic operand, written with and without an addend: "each symbolic operand yields one expression at the operand's offset with
    the right symbol, addend, attributes and size" -- the addend written in the text changes the expression's addend and NOTHING else
    (symbol, attributes, position, size), for every way the ISA has of naming a symbol in an operand (relocation specifiers included)"""
    def run():
        logging.getLogger("gtirb_rewriting").setLevel(logging.CRITICAL)
        br = BResult()
        br.bound = "operand forms of contracts/c12_13.py:OPERAND_FORMS (%s) x target = module symbol / local label defined later x addend in {0, +8, -4, +0x104}" % ", ".join(
            "%s: %d" % (k, len(v)) for k, v in OPERAND_FORMS.items())
        br.clauses = ["C12/operand/one-expression-at-the-operands-position", "C12/operand/addend-is-the-addend-written", "C12/operand/an-addend-changes-nothing-but-the-addend",
                      "C12/operand/no-crash-with-an-addend"]
        distinct = set()
        for isa_key, forms in OPERAND_FORMS.items():
            isa, ff, syntax, cs = ISAS[isa_key]
            for form in forms:
                for target in ("modsym", "Lloc"):
                    base = None
                    for addend in (0, 8, -4, 0x104):
                        t = target if addend == 0 else "%s%+d" % (target, addend)
                        text = form.format(t=t) + ("\nnop\nLloc:\nnop" if target == "Lloc" else "")
                        if isa_key == "mips32":
                            text = ".set noreorder\n" + text
                        ir, m, modsym = mk_module(isa, ff)
                        a = Assembler(m)
                        br.cases += 1
                        distinct.add((isa_key, form, target, addend))
                        desc = {"isa": isa_key, "text": text.splitlines()}
                        try:
                            a.assemble(text, syntax)
                            res = a.finalize()
                        except Exception as e:       # noqa
                            res = None
                            err = "%s: %s" % (type(e).__name__, str(e)[:80])
                        if addend == 0:
                            if res is None:
                                break                 # this way of writing the operand is not supported for this target: nothing to compare
                        elif res is None:
                            # a loud refusal (UnsupportedAssemblyError: e.g. "sym - 4", or an offset on a MIPS jump target) makes the text
                            # unsupported, which the property leaves alone; anything else that goes wrong only with the addend is reported
                            if "out of range" in err or "fixup value" in err or err.startswith("UnsupportedAssemblyError"):
                                continue
                            br.failures.append({"clause": "C12/operand/no-crash-with-an-addend", "witness": desc, "detail": err})
                            continue
                        sec = res.text_section
                        want_sym = modsym if target == "modsym" else next((x for x in res.symbols if x.name == "Lloc"), None)
                        ex = [(o, e) for o, e in sec.symbolic_expressions.items() if want_sym in list(e.symbols)]
                        if len(ex) != 1 or len(sec.symbolic_expressions) != 1:
                            br.failures.append({"clause": "C12/operand/one-expression-at-the-operands-position", "witness": desc, "detail": "%d expressions (%d name the symbol)" % (len(sec.symbolic_expressions), len(ex))})
                            continue
                        off, e = ex[0]
                        got_add = getattr(e, "offset", None)
                        view = (type(e).__name__, off, sorted(x.name for x in e.attributes), sec.symbolic_expression_sizes.get(off), len(bytes(sec.data)))
                        if addend == 0:
                            base = view
                            if got_add != 0:
                                br.failures.append({"clause": "C12/operand/addend-is-the-addend-written", "witness": desc, "detail": "addend %s, wrote none" % got_add})
                            continue
                        if got_add != addend:
                            br.failures.append({"clause": "C12/operand/addend-is-the-addend-written", "witness": desc, "detail": "addend %s, wrote %+d" % (got_add, addend)})
                        if base is not None and view != base:
                            br.failures.append({"clause": "C12/operand/an-addend-changes-nothing-but-the-addend", "witness": desc,
                                                "detail": "without addend (kind, offset, attributes, size, bytes) = %s, with %+d: %s" % (base, addend, view)})
                    if len(br.samples) < 3:
                        br.samples.append({"isa": isa_key, "form": form})
        br.nontrivial = len(distinct)
        return br
    return run


def assembler_reuse(tier, seed):
    """finalize() hands out a result and leaves the Assembler ready for the next text: the result of the NEXT assemble/finalize is what a fresh
    Assembler gives for that text, and a result already handed out does not change when its Assembler is used again"""
    def run():
        logging.getLogger("gtirb_rewriting").setLevel(logging.CRITICAL)
        br = BResult()
        texts = ["nop\nret", "call modsym\nnop\nret", "je Lq\nnop\nLq:\nret", "jmp modsym", "Lz:\ndecq %rdi\njne Lz\nret", ".byte 1, 2\nnop", "movq modsym(%rip), %rax\nret"]
        br.bound = "x64 AT&T: every ordered pair of 7 texts (straight code, call, conditional jump over a label, jump out, loop, data, symbolic operand) assembled and finalised one after the other on ONE Assembler"
        br.clauses = ["C12/reuse/second-result-is-what-a-fresh-assembler-gives", "C12/reuse/a-result-handed-out-does-not-change"]
        isa, ff, syntax, cs = ISAS["x64-att"]

        def dump(res):
            sec = res.text_section
            blocks = list(sec.blocks)
            return (bytes(sec.data).hex(), [(type(b).__name__, b.offset, b.size) for b in blocks],
                    sorted((s_.name, s_.referent.offset if isinstance(s_.referent, gtirb.ByteBlock) else "proxy") for s_ in res.symbols),
                    sorted((((e.source.offset if e.source in blocks else "FOREIGN"), (e.target.offset if e.target in blocks else ("proxy" if isinstance(e.target, gtirb.ProxyBlock) and e.target in res.proxies else ("module" if getattr(e.target, "module", None) is not None else "FOREIGN"))),
                            e.label.type.name, bool(e.label.conditional)) for e in res.cfg), key=repr),
                    len(res.proxies), sorted((k, type(v).__name__, v.symbol.name, v.offset) for k, v in sec.symbolic_expressions.items()))
        distinct = set()
        for t1, t2 in itertools.product(texts, repeat=2):
            ir, m, modsym = mk_module(isa, ff)
            a = Assembler(m)
            a.assemble(t1, syntax)
            r1 = a.finalize()
            d1 = dump(r1)
            a.assemble(t2, syntax)
            r2 = a.finalize()
            ir_, m_, _ = mk_module(isa, ff)
            f = Assembler(m_)
            f.assemble(t2, syntax)
            want = dump(f.finalize())
            br.cases += 1
            distinct.add((t1, t2))
            desc = {"first text": t1.splitlines(), "second text": t2.splitlines()}
            if dump(r2) != want:
                br.failures.append({"clause": "C12/reuse/second-result-is-what-a-fresh-assembler-gives", "witness": desc, "detail": "reused %s fresh %s" % (str(dump(r2))[:160], str(want)[:160])})
            if dump(r1) != d1:
                br.failures.append({"clause": "C12/reuse/a-result-handed-out-does-not-change", "witness": desc, "detail": "first result before %s after %s" % (str(d1)[:160], str(dump(r1))[:160])})
            if len(br.samples) < 2:
                br.samples.append(desc)
        br.nontrivial = len(distinct)
        return br
    return run


# ------------------------------------------------------------------------------------------------ configuration x reuse (C12)
# The statement quantifies over CONFIGURATIONS ("with trivially_unreachable on and off"): the configuration is given once, to the
# constructor, and holds for every text the assembler is handed afterwards -- also for the texts that come after a finalize().
# value domains of the keyword-only constructor parameters (the configuration space); "CB" stands for a caller-supplied callback
CONFIG_DOMAINS = {
    "diagnostic_callback": (None, "CB"),
    "temp_symbol_suffix": (None, "_7"),
    "trivially_unreachable": (False, True),
    "allow_undef_symbols": (False, True),
    "implicit_cfi_procedure": (False, True),
    "ignore_symver_directives": (False, True),
}


def configurations():
    names = list(CONFIG_DOMAINS)
    for vals in itertools.product(*(CONFIG_DOMAINS[n] for n in names)):
        yield dict(zip(names, vals))


def configured_assembler(m, cfg):
    """-> (assembler, the list the caller-supplied callback appends every diagnostic to (None when the default callback is used))"""
    seen = None
    kw = dict(cfg)
    if kw.get("diagnostic_callback") == "CB":
        seen = []

        def cb(diag, seen=seen):
            seen.append(diag)
            return True         # "returning False ... will result in it being raised": this caller takes every diagnostic itself
        kw["diagnostic_callback"] = cb
    return Assembler(m, **kw), seen


def finalize_keeps_configuration_harness(ctx):
    """Assembler.finalize(): exhaustive case split over the whole configuration space of the constructor (every keyword-only parameter x
    its value domain) x four histories of use.  Frame condition of finalize(): it hands out the accumulated output and NOTHING of the
    configuration changes -- every option the constructor was given is, after any number of finalize() calls, the very value it was
    before (and the value the caller passed); the result handed out next does not share its containers with one handed out before."""
    import inspect
    params = [p.name for p in inspect.signature(Assembler.__init__).parameters.values() if p.kind is inspect.Parameter.KEYWORD_ONLY]
    ctx.prove("finalize/the-case-split-covers-every-constructor-option", z3.BoolVal(sorted(params) == sorted(CONFIG_DOMAINS)),
              note="keyword-only parameters of Assembler.__init__: %s; enumerated: %s" % (sorted(params), sorted(CONFIG_DOMAINS)))
    histories = (("finalize",), ("finalize", "finalize"), ("assemble", "finalize"), ("assemble", "finalize", "assemble", "finalize", "finalize"))
    logging.getLogger("gtirb_rewriting").setLevel(logging.CRITICAL)
    for cfg in configurations():
        for hist in histories:
            ir, m, modsym = mk_module(gtirb.Module.ISA.X64, gtirb.Module.FileFormat.ELF)
            a, seen = configured_assembler(m, cfg)
            before = {n: getattr(a._state, n) for n in list(CONFIG_DOMAINS) + ["target"]}
            passed_ok = all(cfg[n] is None or n == "diagnostic_callback" or before[n] == cfg[n] for n in CONFIG_DOMAINS)
            results = []
            for step in hist:
                if step == "assemble":
                    a.assemble("nop\nLk:\nret")
                else:
                    results.append(a.finalize())
            after = {n: getattr(a._state, n) for n in before}
            changed = sorted(n for n in before if after[n] is not before[n] and after[n] != before[n])
            ctx.prove("finalize/leaves-the-configuration-as-constructed", z3.BoolVal(passed_ok and not changed),
                      note="configuration %s, history %s: changed %s" % ({k: v for k, v in cfg.items() if v not in (None, False)}, "+".join(hist),
                                                                          ["%s: %r -> %r" % (n, before[n], after[n]) for n in changed if n != "target"] + [n for n in changed if n == "target"]))
            shared = [(i, j) for i in range(len(results)) for j in range(i + 1, len(results))
                      if results[i].cfg is results[j].cfg or results[i].sections is results[j].sections or results[i].proxies is results[j].proxies]
            ctx.prove("finalize/results-handed-out-share-no-container", z3.BoolVal(not shared), note="history %s: results %s share cfg/sections/proxies" % ("+".join(hist), shared))
    ctx.cover("enumerated")


# probe texts: each one's result shows whether ONE option of the configuration is in force (what "in force" means is the constructor's
# documentation, resp. for trivially_unreachable the statement's ".byte-only blocks nothing jumps to become data")
CONFIG_PROBES = {
    "trivially_unreachable": ".byte 1, 2\nLn:\nnop\nret",
    "temp_symbol_suffix": ".Ltmp:\nnop\njmp .Ltmp",
    "allow_undef_symbols": "call ghost\nret",
    "implicit_cfi_procedure": ".cfi_undefined 3\nnop",
    "ignore_symver_directives": ".symver modsym, modsym@VERS_1\nnop",
    "(none)": "je Lq\nnop\nLq:\nret",
}


def configured_reuse(tier, seed):
    """the configuration of an Assembler holds for EVERY text it assembles: after k >= 1 rounds of assemble + finalize the next text comes
    out exactly as on a fresh Assembler constructed with the same configuration, and each option has its documented effect in every round"""
    def run():
        import warnings
        logging.getLogger("gtirb_rewriting").setLevel(logging.CRITICAL)
        br = BResult()
        earlier = [("nop\nret",), (CONFIG_PROBES["trivially_unreachable"],), (CONFIG_PROBES["temp_symbol_suffix"],), ("jmp modsym", CONFIG_PROBES["(none)"])]
        br.bound = ("x64 AT&T: all %d configurations of the constructor (%s) x %d probe texts (one per option + one plain) assembled as the NEXT text after "
                    "k = 0 (fresh), 1 (3 different earlier texts) or 2 earlier assemble+finalize rounds on ONE Assembler" % (
                        len(list(configurations())), " x ".join("%s in %s" % (n, list(d)) for n, d in CONFIG_DOMAINS.items()), len(CONFIG_PROBES)))
        br.clauses = ["C12/reuse/configured/next-result-is-what-a-fresh-assembler-of-the-same-configuration-gives",
                      "C12/reuse/configured/every-option-is-in-force-in-every-round"]
        isa, ff, syntax, cs = ISAS["x64-att"]

        def dump(res):
            where = {}
            for name, sec in res.sections.items():
                for b in sec.blocks:
                    where[id(b)] = (name, b.offset)

            def node(n):
                if id(n) in where:
                    return where[id(n)]
                if isinstance(n, gtirb.ProxyBlock):
                    return "proxy" if n in res.proxies else "foreign proxy"
                return "module" if getattr(n, "module", None) is not None else "FOREIGN"
            secs = []
            for name, sec in res.sections.items():
                secs.append((name, bytes(sec.data).hex(), [(type(b).__name__, b.offset, b.size) for b in sec.blocks],
                             sorted((k, type(v).__name__, v.symbol.name, v.offset) for k, v in sec.symbolic_expressions.items()),
                             [(bool(p.is_implicit), sum(1 for _ in p.instructions.node_keys())) for p in sec.cfi_procedures]))
            return (secs, sorted((s_.name, node(s_.referent), bool(s_.at_end)) for s_ in res.symbols),
                    sorted(((node(e.source), node(e.target), e.label.type.name, bool(e.label.conditional)) for e in res.cfg), key=repr), len(res.proxies))

        def use(a, seen, text):
            """one round: -> ("raised", exception class) | ("ok", what assemble returned, diagnostics the caller's callback got, the result)"""
            n0 = len(seen) if seen is not None else 0
            try:
                with warnings.catch_warnings():
                    warnings.simplefilter("ignore")
                    ok = a.assemble(text, syntax)
                    res = a.finalize()
            except Exception as e:       # noqa
                return ("raised", type(e).__name__)
            return ("ok", bool(ok), (len(seen) - n0) if seen is not None else None, dump(res))

        def in_force(cfg, option, outcome):
            """-> None or what is wrong: the option of the configuration that the probe text is about has its effect in this outcome"""
            accepted = outcome[0] == "ok" and outcome[1]
            if option == "trivially_unreachable":
                if not accepted:
                    return "the text was not accepted: %s" % (outcome[:2],)
                (name, data, blocks, exprs, cfi) = outcome[3][0][0]
                kind0 = blocks[0][0]
                if cfg[option]:
                    # the entry block is unreachable, only .byte, nothing jumps to it: data, and no control flow leaves a data block
                    if kind0 != "DataBlock":
                        return "entry block declared unreachable, .byte only, no edge into it: it is a %s" % kind0
                    if any(src == (name, 0) for src, _, _, _ in outcome[3][2]):
                        return "edges leave the data block at 0: %s" % [e for e in outcome[3][2] if e[0] == (name, 0)]
                if not cfg[option] and kind0 != "CodeBlock":
                    return "entry block of an executable section, not declared unreachable: it is a %s" % kind0
                return None
            if option == "temp_symbol_suffix":
                names = [s_[0] for s_ in outcome[3][1]] if accepted else None
                want = [".Ltmp" + (cfg[option] or "")]
                return None if names == want else "symbols %s expected %s" % (names, want)
            if option in ("allow_undef_symbols", "implicit_cfi_procedure", "ignore_symver_directives"):
                # the text is acceptable exactly under the option; refused otherwise (raised, or -- when the caller's callback takes the
                # diagnostics -- assemble() returns False and the callback got the error)
                if accepted != bool(cfg[option]):
                    return "%s=%s but the text was %s: %s" % (option, cfg[option], "accepted" if accepted else "refused", outcome[:3])
                if not accepted and outcome[0] == "ok" and not outcome[2]:
                    return "refused without an exception and without a diagnostic to the caller's callback"
                if accepted and option == "allow_undef_symbols" and [s_[:2] for s_ in outcome[3][1]] != [("ghost", "proxy")]:
                    return "undefined name allowed: symbols %s expected one 'ghost' on a proxy of the result" % (outcome[3][1],)
                if accepted and option == "implicit_cfi_procedure" and [c[0] for c in outcome[3][0][0][4]] != [True]:
                    return "CFI procedures of the text section (implicit?, directives) %s expected one implicit procedure" % (outcome[3][0][0][4],)
                return None
            return None

        distinct = set()
        for cfg in configurations():
            shown = {k: v for k, v in cfg.items() if v not in (None, False)}
            for option, probe in CONFIG_PROBES.items():
                ir, m, modsym = mk_module(isa, ff)
                a, seen = configured_assembler(m, cfg)
                want = use(a, seen, probe)
                br.cases += 1
                distinct.add((tuple(sorted(shown.items())), option, 0))
                bad = in_force(cfg, option, want)
                if bad:
                    br.failures.append({"clause": "C12/reuse/configured/every-option-is-in-force-in-every-round", "witness": {"configuration": shown, "earlier texts": [], "text": probe.splitlines()}, "detail": bad})
                for hist in earlier:
                    ir, m, modsym = mk_module(isa, ff)
                    a, seen = configured_assembler(m, cfg)
                    if not all(use(a, seen, t)[:2] == ("ok", True) for t in hist):
                        continue          # an earlier text this configuration does not accept: not a history of successful use
                    got = use(a, seen, probe)
                    br.cases += 1
                    distinct.add((tuple(sorted(shown.items())), option, hist))
                    desc = {"configuration": shown, "earlier texts (each assembled and finalised)": [t.splitlines() for t in hist], "text": probe.splitlines()}
                    if got != want:
                        br.failures.append({"clause": "C12/reuse/configured/next-result-is-what-a-fresh-assembler-of-the-same-configuration-gives", "witness": desc,
                                            "detail": "reused %s fresh %s" % (str(got)[:220], str(want)[:220])})
                    bad = in_force(cfg, option, got)
                    if bad:
                        br.failures.append({"clause": "C12/reuse/configured/every-option-is-in-force-in-every-round", "witness": desc, "detail": bad})
                    if len(br.samples) < 2 and shown and option in shown:
                        br.samples.append(desc)
        br.nontrivial = len(distinct)
        return br
    return run


def c12_bounded(tier, seed):
    def run():
        logging.getLogger("gtirb_rewriting").setLevel(logging.CRITICAL)
        br = BResult()
        rnd = random.Random(seed)
        maxlen, limit = (3, 220) if tier == "quick" else (4, 6000)
        br.bound = "programs of <= %d statements from the vocabulary in contracts/c12_13.py for %s (%s per ISA), targets = a local label / a module symbol; plus, in full, the family of several labels at one position (2 or 3, after ord/jmp/jcc/call/ret/bytes/nothing, before code / bytes / the end)" % (
            maxlen, ", ".join(ISAS), "a seed-chosen slice of %d + all single statements" % limit if limit else "all")
        br.clauses = ["C12/bytes-are-the-instructions-written", "C12/blocks-tile-the-data-in-order", "C12/at-most-one-empty-block-at-the-end",
                      "C12/control-transfer-ends-its-block-with-its-edges", "C12/indirect-transfer-targets-a-registered-proxy",
                      "C12/direct-edge-leads-to-the-block-of-its-label", "C12/label-is-a-symbol-on-the-block-starting-at-its-position",
                      "C12/unreferenced-byte-only-blocks-are-data", "C12/blocks-with-instructions-are-code", "C12/block-without-a-terminator-falls-through-to-the-next-block", "C12/one-expression-per-symbolic-operand",
                      "C12/expression-has-the-right-symbol-and-addend", "C12/expression-has-the-right-attributes", "C12/expression-size-recorded", "C12/supported-text-assembles", "C12/create_ir-is-a-faithful-image-of-the-result"]
        distinct = set()
        for isa_key in ISAS:
            for combo in programs(isa_key, maxlen, rnd, limit):
                for tc in (("label", "sym") if ("label" in combo or "dlabel" in combo) and any(k in combo for k in ("jmp", "jcc", "call", "symop", "symopimm")) else ("sym",)):
                    br.cases += 1
                    distinct.add((isa_key, combo, tc))
                    try:
                        pr, text = check_program(isa_key, combo, tc)
                    except Exception as e:
                        pr, text = [("C12/supported-text-assembles", "harness: %s: %s" % (type(e).__name__, str(e)[:100]))], str(combo)
                    for cl, d in pr:
                        br.failures.append({"clause": cl, "witness": {"isa": isa_key, "text": text.splitlines()}, "detail": d})
                    if len(br.samples) < 3:
                        br.samples.append({"isa": isa_key, "text": text.splitlines()})
        # section switches: a direct jump / conditional jump / call from one section to a label in ANOTHER section (one label, two labels
        # at the same position, a label after other code of that section): the edge leads to the block of the label
        for isa_key in ("x64-att",):
            isa, ff, syntax, cs = ISAS[isa_key]
            for insn, etype, has_ft in (("jmp", "Branch", False), ("je", "Branch", True), ("call", "Call", True)):
                for target_shape in ("cold:\nnop", "cold:\ncold2:\nnop", "cold0:\ncold:\nnop", "nop\ncold:\ncold2:\nret", "cold:\n.byte 1\ncold2:\nnop"):
                    text = "%s cold\nnop\n.section .text.cold,\"ax\"\n%s" % (insn, target_shape)
                    ir, m, modsym = mk_module(isa, ff)
                    a = Assembler(m)
                    br.cases += 1
                    distinct.add(("xsec", insn, target_shape))
                    desc = {"isa": isa_key, "text": text.splitlines()}
                    try:
                        a.assemble(text, syntax)
                        res = a.finalize()
                    except Exception as e:       # noqa
                        br.failures.append({"clause": "C12/supported-text-assembles", "witness": desc, "detail": "%s: %s" % (type(e).__name__, str(e)[:100])})
                        continue
                    cold = [s_ for s_ in res.symbols if s_.name == "cold"]
                    src = res.text_section.blocks[0]
                    out = [(e.label.type.name, e.target) for e in res.cfg.out_edges(src)]
                    ok = len(cold) == 1 and any(t == etype and tg is cold[0].referent for t, tg in out) and (("Fallthrough" in [t for t, _ in out]) == has_ft) and len(out) == (2 if has_ft else 1)
                    if ok and cold[0].referent not in res.sections[".text.cold"].blocks:
                        ok = False
                    if not ok:
                        br.failures.append({"clause": "C12/direct-edge-leads-to-the-block-of-its-label", "witness": desc,
                                            "detail": "out-edges of the first block: %s; cold -> %s" % ([(t, type(tg).__name__, getattr(tg, "offset", None)) for t, tg in out], cold and type(cold[0].referent).__name__)})
        # attributes of control-transfer operands that name an EXTERNAL symbol in a position-independent ELF module: the x86 psABIs send
        # every such branch through the PLT, whatever the kind of branch (call, jmp, conditional jump)
        from gtirb_rewriting import _auxdata as _ax
        from gtirb_test_helpers import add_proxy_block
        for isa_key in ("x64-att", "x64-intel", "ia32"):
            isa, ff, syntax, cs = ISAS[isa_key]
            for btype in (["DYN"], ["EXEC"]):
                seen = {}
                for text in ("call ext", "jmp ext", "je ext", "jne ext", "nop\nje ext\nnop", "jmp ext\nnop"):
                    ir, m = create_test_module(gtirb.Module.FileFormat.ELF, isa)
                    _ax.binary_type.set(m, list(btype))
                    ext = add_symbol(m, "ext", add_proxy_block(m))
                    a = Assembler(m)
                    br.cases += 1
                    distinct.add(("attrs", isa_key, tuple(btype), text))
                    try:
                        a.assemble(text, syntax)
                        res = a.finalize()
                    except Exception as e:       # noqa
                        br.failures.append({"clause": "C12/supported-text-assembles", "witness": {"isa": isa_key, "binary type": btype, "text": text.splitlines()}, "detail": "%s: %s" % (type(e).__name__, str(e)[:100])})
                        continue
                    ex = [e for e in res.text_section.symbolic_expressions.values() if e.symbol is ext]
                    if len(ex) != 1:
                        br.failures.append({"clause": "C12/one-expression-per-symbolic-operand", "witness": {"isa": isa_key, "text": text.splitlines()}, "detail": "%d expressions name ext" % len(ex)})
                        continue
                    seen[text] = sorted(x.name for x in ex[0].attributes)
                want = ["PLT"] if btype == ["DYN"] else None
                for text, got in seen.items():
                    if (want is not None and got != want) or got != seen.get("call ext", got):
                        br.failures.append({"clause": "C12/expression-has-the-right-attributes", "witness": {"isa": isa_key, "binary type": btype, "text": text.splitlines()},
                                            "detail": "attributes %s; 'call ext' gets %s%s" % (got, seen.get("call ext"), "" if want is None else ", the psABI demands %s" % want)})
        br.nontrivial = len(distinct)
        return br
    return run


# ------------------------------------------------------------------------------------------------ C13
def precreate_label_harness(ctx):
    """exhaustive case split of _SymbolCreator._precreate_label on the real code with a fake parser state"""
    for temporary, suffix, taken in itertools.product((False, True), (None, "_7"), ("free", "local", "module-unsuffixed", "module-suffixed")):
        ir, m, modsym = mk_module(gtirb.Module.ISA.X64, gtirb.Module.FileFormat.ELF)
        name = ".Ltmp" if temporary else "glob"
        final = name + (suffix if (temporary and suffix is not None) else "")
        if taken == "module-unsuffixed":
            gtirb.Symbol(name, payload=gtirb.ProxyBlock(module=m), module=m)
        if taken == "module-suffixed":
            gtirb.Symbol(final, payload=gtirb.ProxyBlock(module=m), module=m)
        a = Assembler(m, temp_symbol_suffix=suffix)
        st = a._state
        if taken == "local":
            st.local_symbols[name] = gtirb.Symbol(final)
        creator = AS._SymbolCreator(st)
        label = type("L", (), {"name": name, "is_temporary": temporary})()
        pstate = type("P", (), {"loc": None})()
        want_err = taken != "free"
        locals0 = dict(st.local_symbols)
        modsyms0 = set(m.symbols)
        try:
            s = creator._precreate_label(pstate, label)
            ok = (not want_err) and s.name == final and st.local_symbols.get(name) is s
            ctx.prove("precreate_label/creates-the-suffixed-symbol-exactly-when-the-name-is-free", z3.BoolVal(bool(ok)),
                      note="temporary=%s suffix=%s taken=%s -> created %s" % (temporary, suffix, taken, s.name))
        except MultipleDefinitionsError:
            ctx.prove("precreate_label/MultipleDefinitionsError-exactly-when-the-name-is-taken", z3.BoolVal(want_err),
                      note="temporary=%s suffix=%s taken=%s" % (temporary, suffix, taken))
            # a refused definition leaves no trace: a caller that survives the error keeps resolving the name as before
            same = dict(st.local_symbols) == locals0 and all(st.local_symbols[k] is v for k, v in locals0.items()) and set(m.symbols) == modsyms0
            ctx.prove("precreate_label/a-refused-definition-changes-nothing", z3.BoolVal(bool(same)),
                      note="temporary=%s suffix=%s taken=%s: local symbols now %s" % (temporary, suffix, taken, sorted(st.local_symbols)))
    ctx.cover("enumerated")


def symbol_lookup_harness(ctx):
    for where, allow, temporary, suffix in itertools.product(("local", "module", "both", "nowhere"), (False, True), (False, True), (None, "_7")):
        ir, m, modsym = mk_module(gtirb.Module.ISA.X64, gtirb.Module.FileFormat.ELF)
        a = Assembler(m, allow_undef_symbols=allow, temp_symbol_suffix=suffix)
        st = a._state
        loc = gtirb.Symbol("modsym" if where == "both" else "locsym")
        if where in ("local", "both"):
            st.local_symbols[loc.name] = loc
        name = {"local": "locsym", "module": "modsym", "both": "modsym", "nowhere": "ghost"}[where]
        streamer = AS._Streamer(st)
        got = streamer._symbol_lookup(name)
        want = {"local": loc, "both": loc, "module": modsym, "nowhere": None}[where]
        ctx.prove("symbol_lookup/local-first-then-the-modules-own-symbol-object", z3.BoolVal(got is want), note="%s" % where)
        # stand-in for the assembler's symbol object: the name as written, and whether the assembler regards it as temporary
        mcsym = type("S", (), {"name": name, "is_temporary": temporary, "__getattr__": lambda self_, n: False})()
        try:
            r1 = streamer._resolve_symbol(mcsym, None)
            r2 = streamer._resolve_symbol(mcsym, None)
            if where == "nowhere":
                ok = allow and r1 is r2 and isinstance(r1.referent, gtirb.ProxyBlock) and r1.referent in st.proxies and st.local_symbols.get(name) is r1 and r1.name == name
                ok = ok and streamer._symbol_lookup(name) is r1
                ctx.prove("resolve_symbol/unknown-name-allowed-gives-exactly-one-proxy-backed-symbol", z3.BoolVal(bool(ok)),
                          note="temporary=%s suffix=%s: %s, %s, recorded under %s" % (temporary, suffix, r1.name, "same object twice" if r1 is r2 else "TWO objects", sorted(st.local_symbols)))
            else:
                ctx.prove("resolve_symbol/known-name-binds-to-the-existing-object", z3.BoolVal(r1 is want and r2 is want))
        except UndefSymbolError:
            ctx.prove("resolve_symbol/UndefSymbolError-exactly-for-unknown-names-when-not-allowed", z3.BoolVal(where == "nowhere" and not allow))
    ctx.cover("enumerated")


def c13_bounded(tier, seed):
    def run():
        logging.getLogger("gtirb_rewriting").setLevel(logging.CRITICAL)
        br = BResult()
        br.bound = "x64 AT&T: a patch with a temporary label assembled 1..5 times with distinct suffixes; every registered ABI: a patch with a label carrying that ABI's temporary prefix and one with a directional label, assembled twice; every split of 9 programs (<= 6 lines; labels in the middle, at the very start, stacked, before data, in a second section) into chunks at line boundaries"
        br.clauses = ["C13/repeated-patch-never-yields-two-symbols-with-one-name", "C13/no-copy-captures-another-copys-label",
                      "C13/chunked-assembly-equals-whole-assembly", "C13/chunked-assembly-equals-whole-assembly/boundary-inside-a-non-text-section",
                      "C13/existing-name-binds-to-the-module-symbol-object", "C13/defining-an-existing-name-is-refused-across-patches-of-one-rewrite"]
        isa, ff, syntax, cs = ISAS["x64-att"]
        patch = "jmp .Lskip\nnop\n.Lskip:\nnop"
        for n in range(1, 6):
            ir, m, modsym = mk_module(isa, ff)
            names, ok = [], True
            for i in range(n):
                a = Assembler(m, temp_symbol_suffix="_%d" % (i + 1))
                a.assemble(patch, syntax)
                res = a.finalize()
                br.cases += 1
                (lab,) = [s for s in res.symbols]
                names.append(lab.name)
                tg = [e.target for e in res.cfg if e.label.type.name == "Branch"]
                if not tg or tg[0] is not lab.referent:
                    br.failures.append({"clause": "C13/no-copy-captures-another-copys-label", "witness": {"copies": n, "copy": i}, "detail": "jmp does not target this copy's label"})
                for s in res.symbols:
                    s.module = m
            if len(set(names)) != len(names):
                br.failures.append({"clause": "C13/repeated-patch-never-yields-two-symbols-with-one-name", "witness": {"copies": n}, "detail": str(names)})
        # ... on every ABI, with the prefix THAT ABI gives temporary labels (".L" on most, "L" on IA32 PE, "$" on MIPS32) and with the
        # directional labels ("1:" / "1f") the assembler names itself
        from gtirb_rewriting.abi import ABI as _ABI, _ABIS as _ALL
        for (isa_, ff_), abi_ in sorted(_ALL.items(), key=lambda kv: (kv[0][0].name, kv[0][1].name)):
            ir, m, modsym = mk_module(isa_, ff_)
            pref = abi_.temporary_label_prefix()
            jmp = {"X64": "jmp %s", "IA32": "jmp %s", "ARM64": "b %s", "MIPS32": ".set noreorder\nj %s\nnop"}[isa_.name]
            for lab, ref in ((pref + "skip", pref + "skip"), ("1", "1f")):
                text = (jmp % ref) + "\nnop\n" + lab + ":\nnop"
                names, desc = [], {"isa": isa_.name, "format": ff_.name, "temporary label prefix": pref, "patch": text.splitlines(), "suffixes": ["_1", "_2"]}
                try:
                    for i in range(2):
                        a = Assembler(m, temp_symbol_suffix="_%d" % (i + 1))
                        a.assemble(text, X86Syntax.ATT)
                        res = a.finalize()
                        br.cases += 1
                        labs = [s_ for s_ in res.symbols]
                        names += [s_.name for s_ in labs]
                        tg = [e.target for e in res.cfg if e.label.type.name == "Branch"]
                        if len(labs) != 1 or not tg or tg[0] is not labs[0].referent:
                            br.failures.append({"clause": "C13/no-copy-captures-another-copys-label", "witness": dict(desc, copy=i), "detail": "the jump does not target this copy's label (%d labels)" % len(labs)})
                        if labs and not labs[0].name.endswith("_%d" % (i + 1)):
                            br.failures.append({"clause": "C13/repeated-patch-never-yields-two-symbols-with-one-name", "witness": dict(desc, copy=i), "detail": "temporary label %s does not carry this copy's suffix" % labs[0].name})
                        for s_ in res.symbols:
                            s_.module = m
                except Exception as ex:      # noqa
                    br.failures.append({"clause": "C13/repeated-patch-never-yields-two-symbols-with-one-name", "witness": desc, "detail": "%s: %s" % (type(ex).__name__, str(ex)[:100])})
                    continue
                if len(set(names)) != len(names):
                    br.failures.append({"clause": "C13/repeated-patch-never-yields-two-symbols-with-one-name", "witness": desc, "detail": str(names)})
        progs = ["nop\nLab:\npushq %rax\njmp Lab", "call modsym\nnop\nret", "pushq %rax\nA1:\nje A1\n.byte 1, 2\nnop", "movq modsym(%rip), %rax\nB1:\nnop\njmp B1\nret",
                 # labels at the very start of the text (their block is still empty when the next chunk arrives), stacked labels,
                 # a label right before data directives, a leading label in a data section
                 "Lab:\nnop\njmp Lab", "Lab:\nA1:\nnop\nje A1\njmp Lab", "Lab:\n.byte 1, 2\nnop\njmp Lab",
                 "nop\n.section .rodata\nB1:\n.string \"x\"\n.text\nleaq B1(%rip), %rax", "Lab:\ncall modsym\nA1:\nB1:\nret\njmp A1"]

        def dump(res):
            sec = res.text_section
            return (bytes(sec.data).hex(), [(type(b).__name__, b.offset, b.size) for b in sec.blocks],
                    sorted((s.name, s.referent.offset if isinstance(s.referent, gtirb.ByteBlock) else "proxy") for s in res.symbols),
                    sorted((e.source.offset, getattr(e.target, "offset", "proxy"), e.label.type.name, bool(e.label.conditional)) for e in res.cfg),
                    sorted((k, type(v).__name__, v.symbol.name, v.offset) for k, v in sec.symbolic_expressions.items()))
        distinct = set()
        for p in progs:
            lines = p.splitlines()
            ir, m, modsym = mk_module(isa, ff)
            a = Assembler(m)
            a.assemble(p, syntax)
            whole = dump(a.finalize())
            for cuts in itertools.product((0, 1), repeat=len(lines) - 1):
                chunks, cur = [], [lines[0]]
                for c, l in zip(cuts, lines[1:]):
                    if c:
                        chunks.append(cur)
                        cur = []
                    cur.append(l)
                chunks.append(cur)
                # skip splits where a chunk refers forward to a label defined in a later chunk
                defined, fwd = set(), False
                for ch in chunks:
                    here = {l[:-1] for l in ch if l.endswith(":")}
                    for l in ch:
                        for tok in ("Lab", "A1", "B1"):
                            if tok in l and not l.endswith(":") and tok not in defined | here:
                                fwd = True
                    defined |= here
                if fwd:
                    continue
                ir2, m2, _ = mk_module(isa, ff)
                a2 = Assembler(m2)
                br.cases += 1
                distinct.add((p, cuts))
                try:
                    for ch in chunks:
                        a2.assemble("\n".join(ch), syntax)
                    got = dump(a2.finalize())
                except Exception as e:
                    got = "%s: %s" % (type(e).__name__, str(e)[:80])
                if got != whole:
                    # is some chunk boundary inside a non-text section?  (every assemble() call starts in .text again)
                    cur_sec, inside = ".text", False
                    for ch in chunks[:-1]:
                        for l in ch:
                            if l.startswith(".section "):
                                cur_sec = l.split()[1]
                            elif l in (".text", ".data"):
                                cur_sec = l
                        inside = inside or cur_sec != ".text"
                    clause = "C13/chunked-assembly-equals-whole-assembly" + ("/boundary-inside-a-non-text-section" if inside else "")
                    br.failures.append({"clause": clause, "witness": {"chunks": chunks}, "detail": "chunked %s whole %s" % (str(got)[:200], str(whole)[:200])})
            res_sym = [v.symbol for v in []]
        ir, m, modsym = mk_module(isa, ff)
        a = Assembler(m)
        a.assemble("call modsym\nmovq modsym(%rip), %rax", syntax)
        res = a.finalize()
        br.cases += 1
        if not all(e.symbol is modsym for e in res.text_section.symbolic_expressions.values()) or any(s.name == "modsym" for s in res.symbols):
            br.failures.append({"clause": "C13/existing-name-binds-to-the-module-symbol-object", "witness": {}, "detail": "a duplicate of the module's symbol was created"})
        # names that LOOK temporary (.L prefix) but belong to the module: they must still bind to the module's symbol object, with and
        # without a temp_symbol_suffix, and defining one of them again is a MultipleDefinitionsError
        for suffix in (None, "_9"):
            ir, m, modsym = mk_module(isa, ff)
            blk = modsym.referent
            tmod = add_symbol(m, ".L_1008", blk)
            a = Assembler(m, temp_symbol_suffix=suffix)
            br.cases += 1
            desc = {"module symbol": ".L_1008", "temp_symbol_suffix": suffix, "patch": ["jmp .L_1008", "movq .L_1008(%rip), %rax"]}
            try:
                a.assemble("jmp .L_1008\nmovq .L_1008(%rip), %rax", syntax)
                res = a.finalize()
                exprs = list(res.text_section.symbolic_expressions.values())
                if len(exprs) != 2 or not all(e.symbol is tmod for e in exprs) or any(s_.name.startswith(".L_1008") for s_ in res.symbols):
                    br.failures.append({"clause": "C13/existing-name-binds-to-the-module-symbol-object", "witness": desc,
                                        "detail": "expressions bind to %s; new symbols %s" % ([("module object" if e.symbol is tmod else e.symbol.name) for e in exprs], [s_.name for s_ in res.symbols])})
            except Exception as e:
                br.failures.append({"clause": "C13/existing-name-binds-to-the-module-symbol-object", "witness": desc, "detail": "%s: %s" % (type(e).__name__, str(e)[:100])})
        # several patches in ONE RewritingContext.apply(): a global label defined by an earlier patch is a module symbol for every later
        # patch (references bind to that object; defining it again is refused), whatever was looked up before it existed
        from gtirb_rewriting import RewritingContext as _RC, Patch as _Patch, patch_constraints as _pc
        from gtirb_rewriting.assembler import MultipleDefinitionsError as _MDE
        from gtirb_test_helpers import add_edge as _add_edge, add_proxy_block as _add_proxy

        def _mk(txt):
            @_pc()
            def p_(c):
                return txt
            return _Patch.from_function(p_)
        for second, expect in (("jmp glob", "binds"), ("glob:\nnop", "refused"), ("leaq glob(%rip), %rax", "binds")):
            for first_refs_unknown in (False, True):
                ir, m = create_test_module(gtirb.Module.FileFormat.ELF, gtirb.Module.ISA.X64)
                _, tbi = add_text_section(m, address=0x1000)
                b0, b1 = add_code_block(tbi, b"\x90\x90"), add_code_block(tbi, b"\x90\xc3")
                _add_edge(ir.cfg, b0, b1, gtirb.EdgeType.Fallthrough)
                _add_edge(ir.cfg, b1, _add_proxy(m), gtirb.EdgeType.Return)
                rc = _RC(m, [])
                rc.insert_at(b0, 1, _mk("nop\nglob:\nnop"))
                rc.insert_at(b1, 1, _mk(second))
                br.cases += 1
                desc = {"first patch (lower address)": ["nop", "glob:", "nop"], "second patch": second.splitlines()}
                try:
                    rc.apply()
                    outcome = "applied"
                except _MDE:
                    outcome = "MultipleDefinitionsError"
                except Exception as e:      # noqa
                    outcome = "%s: %s" % (type(e).__name__, str(e)[:80])
                globs = [s_ for s_ in m.symbols if s_.name == "glob"]
                if expect == "refused":
                    if outcome != "MultipleDefinitionsError":
                        br.failures.append({"clause": "C13/defining-an-existing-name-is-refused-across-patches-of-one-rewrite", "witness": desc, "detail": "%s; %d symbols named glob" % (outcome, len(globs))})
                else:
                    uses = [e for i_ in m.byte_intervals for e in i_.symbolic_expressions.values() if getattr(e, "symbol", None) is not None and e.symbol.name == "glob"]
                    if outcome != "applied" or len(globs) != 1 or not uses or not all(e.symbol is globs[0] for e in uses):
                        br.failures.append({"clause": "C13/existing-name-binds-to-the-module-symbol-object", "witness": desc, "detail": "%s; %d symbols named glob; %d uses" % (outcome, len(globs), len(uses))})
        br.nontrivial = len(distinct) + 14
        br.samples = [{"patch": patch.splitlines()}]
        return br
    return run


def jobs_c12(tier="quick", seed=0):
    yield Job("C12/precreate_label", precreate_label_harness, kind="E", func="gtirb_rewriting.assembler.assembler:_SymbolCreator._precreate_label", expect_cover=("enumerated",))
    yield Job("C12/symbol_lookup", symbol_lookup_harness, kind="E", func="gtirb_rewriting.assembler.assembler:_Streamer._symbol_lookup/_resolve_symbol", expect_cover=("enumerated",))
    yield Job("C12/assembler-reuse-bounded", assembler_reuse(tier, seed), kind="B", func="gtirb_rewriting.assembler.assembler:Assembler.finalize")
    yield Job("C12/finalize_keeps_configuration", finalize_keeps_configuration_harness, kind="E", func="gtirb_rewriting.assembler.assembler:Assembler.finalize", expect_cover=("enumerated",))
    yield Job("C12/configured-assembler-reuse-bounded", configured_reuse(tier, seed), kind="B", func="gtirb_rewriting.assembler.assembler:Assembler.finalize")
    yield Job("C12/operand-forms-bounded", operand_forms(tier, seed), kind="B", func="gtirb_rewriting.assembler.assembler:_Streamer._fixup_to_symbolic_operand/_mcexpr_to_symbolic_operand")
    yield Job("C12/assembler-vs-capstone-bounded", c12_bounded(tier, seed), kind="B", func="gtirb_rewriting.assembler.assembler:Assembler")


def jobs_c13(tier="quick", seed=0):
    yield Job("C13/precreate_label", precreate_label_harness, kind="E", func="gtirb_rewriting.assembler.assembler:_SymbolCreator._precreate_label", expect_cover=("enumerated",))
    yield Job("C13/symbol_lookup", symbol_lookup_harness, kind="E", func="gtirb_rewriting.assembler.assembler:_Streamer._symbol_lookup/_resolve_symbol", expect_cover=("enumerated",))
    from . import c16_invoke
    for j in c16_invoke.jobs(tier, seed):
        j.id = "C13/" + j.id
        yield j
    yield Job("C13/incremental-and-suffix-bounded", c13_bounded(tier, seed), kind="B", func="gtirb_rewriting.assembler.assembler:Assembler.assemble")
