"""C08 -- see contracts/registry.json for the clauses; D kernels + bounded apply-level stand-in."""
from . import apply_bounded, kernels


def jobs(tier="quick", seed=0):
    yield from kernels.jobs_for("C08", tier, seed)
    yield apply_bounded.job("C08", tier, seed)
