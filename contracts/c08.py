"""C08 -- see contracts/registry.json for the clauses; D kernels + bounded apply-level stand-in + explicit procedures of a patch."""
import itertools

import gtirb

from pyvc.run import BResult, Job

from . import apply_bounded, kernels

# (name, lines): instructions are one-byte nops, so the offset of a line is the number of nops before it
EXPLICIT = {
    "one-procedure": [".cfi_startproc", "nop", ".cfi_def_cfa_offset 16", "nop", ".cfi_endproc"],
    "two-procedures-back-to-back": [".cfi_startproc", "nop", ".cfi_def_cfa_offset 16", "nop", ".cfi_endproc", ".cfi_startproc", "nop", ".cfi_def_cfa_offset 24", "nop", ".cfi_endproc"],
    "two-procedures-with-code-between": [".cfi_startproc", "nop", ".cfi_endproc", "nop", ".cfi_startproc", "nop", ".cfi_def_cfa_offset 32", "nop", ".cfi_endproc"],
    "three-procedures-back-to-back": [".cfi_startproc", "nop", ".cfi_endproc", ".cfi_startproc", "nop", ".cfi_def_cfa_offset 16", ".cfi_endproc", ".cfi_startproc", "nop", ".cfi_endproc"],
    "procedure-after-plain-code": ["nop", "nop", ".cfi_startproc", "nop", ".cfi_def_cfa_offset 16", "nop", ".cfi_endproc"],
    # a second procedure in ANOTHER section, closed right after its last instruction (the directive sits on a trailing empty block)
    "procedure-in-another-section": [".cfi_startproc", "nop", ".cfi_def_cfa_offset 16", "nop", ".cfi_endproc", '.section .text.cold,"ax",@progbits', ".cfi_startproc", "nop", "ret", ".cfi_endproc"],
    # several labels at ONE position, each followed by a directive: the directives take effect in the order written
    "stacked-labels-each-with-a-directive": [".cfi_startproc", "nop", ".La:", ".cfi_remember_state", ".Lb:", ".cfi_def_cfa_offset 24", ".Lc:", ".cfi_restore_state", "nop", ".cfi_endproc"],
    "stacked-labels-two-offsets": [".cfi_startproc", "nop", ".La:", ".cfi_def_cfa_offset 16", ".Lb:", ".cfi_def_cfa_offset 24", "nop", ".Lc:", ".cfi_def_cfa_offset 32", ".Ld:", ".cfi_def_cfa_offset 40", ".Le:", "nop", ".cfi_endproc"],
}


for _k in list(EXPLICIT):
    # (the evaluator starts a procedure without any rule: the CIE's initial CFA rule is given explicitly)
    EXPLICIT[_k] = [x for l in EXPLICIT[_k] for x in ([l, ".cfi_def_cfa %rsp, 8"] if l == ".cfi_startproc" else [l])]


def _expected(lines):
    """per nop index: None outside a procedure, else the CFA offset in effect BEFORE that instruction (8 at a startproc on x86-64)"""
    out, inside, cfa, saved = [], False, None, []
    for l in lines:
        if l.startswith(".section"):
            break                           # (the per-instruction comparison is made for the main section; the whole module must still evaluate)
        if l.endswith(":"):
            continue
        if l == ".cfi_remember_state":
            saved.append(cfa)
        elif l == ".cfi_restore_state":
            cfa = saved.pop()
        elif l == ".cfi_startproc":
            inside, cfa = True, 8
        elif l == ".cfi_endproc":
            inside, cfa = False, None
        elif l.startswith(".cfi_def_cfa_offset"):
            cfa = int(l.split()[1])
        elif l.startswith(".cfi_def_cfa "):
            cfa = int(l.split(",")[1])
        else:
            out.append(cfa if inside else None)
    return out


def explicit_procedures(tier, seed):
    """C08 for code that brings its OWN procedures (a function inserted with register_insert_function, an assembler result turned into an
    IR): "every CFI procedure is opened and closed exactly once and in order", the unwind state at every instruction is what the text says"""
    def run():
        import logging
        from bounded import scen
        from gtirb_rewriting import RewritingContext
        from gtirb_rewriting.assembler import Assembler
        from gtirb_rewriting.dwarf.cfi_eval import evaluate_cfi_directives
        from gtirb_test_helpers import add_text_section, create_test_module
        logging.getLogger("gtirb_rewriting").setLevel(logging.CRITICAL)
        br = BResult()
        br.bound = "5 texts with explicit .cfi_startproc / .cfi_endproc (one, two and three procedures, back to back, with code between, after plain code) x {register_insert_function into the scen module (with / without its own CFI), Assembler(implicit_cfi_procedure=False).finalize().create_ir()}"
        br.clauses = ["C08/explicit/evaluates-cleanly", "C08/explicit/every-instruction-inside-a-procedure-iff-the-text-says-so-with-the-state-the-text-gives",
                      "C08/explicit/every-procedure-of-the-text-is-opened-and-closed-once-on-blocks-of-the-module"]
        distinct = set()

        def states(m, blocks):
            """offset (from the first block) of every nop -> CFA offset or None, from the evaluator"""
            blocks = sorted(blocks, key=lambda b: b.address)
            base = blocks[0].address
            cur, events = None, {}
            for blk, off, st in evaluate_cfi_directives(m, blocks):
                events[blk.address + off - base] = None if st is None else getattr(st.current.cfa, "offset", "?")
            total = sum(b.size for b in blocks)
            out = []
            for i in range(total):
                if i in events:
                    cur = events[i]
                out.append(cur)
            return out
        for (name, lines), how in itertools.product(EXPLICIT.items(), ("inserted-function", "inserted-function-into-a-module-with-cfi", "create_ir")):
            br.cases += 1
            distinct.add((name, how))
            desc = {"text": lines, "through": how}
            want = _expected(lines)
            try:
                if how == "create_ir":
                    ir, m = create_test_module(gtirb.Module.FileFormat.ELF, gtirb.Module.ISA.X64)
                    add_text_section(m, address=0x1000)
                    a = Assembler(m, implicit_cfi_procedure=False)
                    a.assemble("\n".join(lines))
                    ir2 = a.finalize().create_ir()
                    m2 = ir2.modules[0]
                    for n_, bi_ in enumerate(sorted(m2.byte_intervals, key=lambda x: x.section.name)):
                        if bi_.address is None:
                            bi_.address = 0x4000 + 0x1000 * n_       # (one address range per section: the evaluator walks blocks in address order)
                    got = states(m2, [b for b in m2.code_blocks if b.section.name == ".text"])
                else:
                    ir, m, bi, blocks, fl = scen.build(scen.Shape("plain", True, cfi="whole" if how.endswith("with-cfi") else "none"))
                    rc = RewritingContext(m, fl)
                    s_ = rc.register_insert_function("newfn", scen.mkpatch("\n".join(lines)))
                    rc.apply()
                    # the module's own code still evaluates, and so does the new function
                    list(evaluate_cfi_directives(m, sorted(m.code_blocks, key=lambda b: b.address)))
                    got = states(m, [b for b in s_.referent.byte_interval.blocks if isinstance(b, gtirb.CodeBlock)])
            except Exception as ex:      # noqa
                br.failures.append({"clause": "C08/explicit/evaluates-cleanly", "witness": desc, "detail": "%s: %s" % (type(ex).__name__, str(ex)[:100])})
                continue
            # "every CFI procedure is opened and closed exactly once": as many .cfi_startproc / .cfi_endproc ON BLOCKS OF THE MODULE as the text has
            # (whether an unclosed procedure makes the evaluator fail depends on which section the layout happens to put first)
            from gtirb_rewriting import _auxdata as _ad
            mm = m2 if how == "create_ir" else m
            live = set(mm.byte_blocks)
            tab = _ad.cfi_directives.get(mm) or {}
            base = 0 if how != "inserted-function-into-a-module-with-cfi" else 1
            for d in (".cfi_startproc", ".cfi_endproc"):
                have = sum(1 for k, ds in tab.items() if k.element_id in live for x in ds if x[0] == d)
                stray = sum(1 for k, ds in tab.items() if k.element_id not in live for x in ds if x[0] == d)
                if have != lines.count(d) + base or stray:
                    br.failures.append({"clause": "C08/explicit/every-procedure-of-the-text-is-opened-and-closed-once-on-blocks-of-the-module", "witness": desc,
                                        "detail": "%s: the text has %d, blocks of the module carry %d (+%d the module had), %d sit on blocks that are not in the module" % (d, lines.count(d), have - base, base, stray)})
            if got[:len(want)] != want:
                br.failures.append({"clause": "C08/explicit/every-instruction-inside-a-procedure-iff-the-text-says-so-with-the-state-the-text-gives", "witness": desc,
                                    "detail": "CFA offset per instruction %s, the text says %s" % (got[:len(want)], want)})
            if len(br.samples) < 2:
                br.samples.append(desc)
        br.nontrivial = len(distinct)
        return br
    return run


def across_applies(tier, seed):
    """nothing is carried over from one apply() to the next: a rewrite that passed on its own passes again when another module (with CFI
    procedures ending at the very positions the second rewrite inserts at) was rewritten in the same process just before"""
    def run():
        import logging
        from bounded import driver, validators as VAL
        from bounded import scen
        logging.getLogger("gtirb_rewriting").setLevel(logging.CRITICAL)
        br = BResult()
        br.bound = "first apply(): a module with one of 5 CFI layouts and an ordinary insertion; second apply() in the same process: a CFI-carrying patch inserted at every boundary of b0 / b1 / b2 of a module with no or another CFI layout"
        br.clauses = ["C08/across-applies/the-second-rewrite-is-judged-as-if-it-were-the-first"]
        distinct = set()
        seconds = []
        for cfi2 in ("none", "b0b1", "b1b2", "whole"):
            sh = scen.Shape("plain", True, cfi=cfi2)
            for t, offs in ((0, (0, 1)), (1, (0, 1, 3)), (2, (0, 1, 2))):
                for o in offs:
                    seconds.append((sh, [("ins", o, 0, "cfi", t)]))
        vals = [VAL.c08_cfi]
        # each second rewrite alone (the process may already have seen others: that is the point -- they all have to agree)
        for cfi1 in ("whole", "b1only", "endatb1", "b0b1", "b1b2"):
            for sh2, ed2 in seconds:
                try:
                    driver.run_scenario(scen.Shape("plain", True, cfi=cfi1), [("ins", 1, 0, "plain")], [])
                    info, problems = driver.run_scenario(sh2, ed2, vals)
                except Exception as ex:      # noqa
                    problems = [("EXC", "%s: %s" % (type(ex).__name__, str(ex)[:100]))]
                br.cases += 1
                distinct.add((cfi1, repr(sh2), tuple(ed2[0])))
                for clause, detail in problems:
                    br.failures.append({"clause": "C08/across-applies/the-second-rewrite-is-judged-as-if-it-were-the-first",
                                        "witness": {"first apply": "CFI layout %s, a plain insertion into b1" % cfi1, "second apply": {"shape": repr(sh2), "edits": [list(e) for e in ed2]}},
                                        "detail": "%s: %s" % (clause, detail)})
        br.nontrivial = len(distinct)
        return br
    return run


def jobs(tier="quick", seed=0):
    yield from kernels.jobs_for("C08", tier, seed)
    yield apply_bounded.job("C08", tier, seed)
    yield Job("C08/across-applies-bounded", across_applies(tier, seed), kind="B", func="gtirb_rewriting.rewriting:_CFIProcedureTracker / RewritingContext.apply")
    yield Job("C08/explicit-procedures-bounded", explicit_procedures(tier, seed), kind="B", func="gtirb_rewriting.assembler._create_gtirb:create_cfi_directives / rewriting:_apply_function_insertion")
