from .c12_13 import jobs_c13 as jobs  # noqa: F401
