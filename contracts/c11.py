from .c09_10_11 import jobs_c11 as jobs  # noqa: F401
