"""C16 -- the prologue / epilogue generated around a patch make the patch transparent.

Functions under contract (real source):
  abi:_IA32/_X86_64/_ARM64_ELF/_MIPS32_ELF._create_prologue_and_epilogue
      executed by CPython on a clobber list of n *symbolic* pairwise-distinct registers (E over n = 0..|all_registers|,
      x clobbers_flags x align_stack x is_leaf_function, ARM64 additionally over where the flags register comes from);
      the emitted text (f-strings with register holes) is executed on spec/machine.py from a symbolic machine state,
      the patch body is havoc (may change declared registers, flags iff declared, any memory below its entry sp).
  abi:ABI._allocate_patch_registers   (contracts/c16_alloc.py)
Clauses (each a z3 obligation, all initial states, all register choices):
  RESTORE  every register, the flags and sp have their entry values after the epilogue
  BELOW    every store is strictly below the entry sp;  REDZONE  and below sp0 - red_zone when the function may be a leaf
  OWN      every load reads a slot this code stored;  stores never partially overlap
  ADJ      stack_adjustment is not None  =>  equals sp0 - sp_at_body
  ALIGN    align_stack => sp_at_body = 0 mod calling_convention().stack_alignment   (ARM64: sp 16-aligned at each access
           and the adjustment a multiple of 16, given the architectural precondition sp0 = 0 mod 16)
Loud failures specified as such: MIPS align_stack -> NotImplementedError; ARM64 clobbers_flags with neither a scratch
register nor an available register -> IndexError.
"""
import itertools

import z3

from gtirb_rewriting import abi as A
from gtirb_rewriting.abi import _PatchRegisterAllocation
from gtirb_rewriting.assembly import Constraints, X86Syntax

from pyvc import core, shims
from pyvc.core import Unsupported
from pyvc.run import Job
from pyvc.sym import SymInt, zint
from spec.machine import Machine, SymReg, Unmodelled

PROPERTY = "C16"


def abis():
    out = []
    for (isa, ff), abi in A._ABIS.items():
        syntax = {"X64": "att", "IA32": "att", "ARM64": "arm64", "MIPS32": "mips"}[isa.name]
        out.append(("%s-%s" % (isa.name, ff.name), abi, syntax))
    return out


def excluded_indices(abi):
    """registers that cannot meaningfully be declared clobbered by a patch: the stack pointer itself and hard-wired
    registers that appear in all_registers() (MIPS: zero, sp)"""
    bad = set()
    spn = {n.lower() for n in abi.stack_register().sizes.values()}
    for i, r in enumerate(abi.all_registers()):
        names = {n.lower() for n in r.sizes.values()}
        if names & spn or "zero" in names:
            bad.add(i)
    return bad


def mk_regs(ctx, abi, n, prefix="r", increasing=True):
    U = abi.all_registers()
    regs = [SymReg(SymInt(ctx.int("%s%d" % (prefix, i))), U) for i in range(n)]
    bad = excluded_indices(abi)
    for i, r in enumerate(regs):
        t = zint(r.idx)
        ctx.assume(z3.And(t >= 0, t < len(U)))
        for b in bad:
            ctx.assume(t != b)
        if i and increasing:
            ctx.assume(zint(regs[i - 1].idx) < t)          # postcondition of _allocate_patch_registers: sorted by ABI index
    return regs


def run_case(ctx, name, abi, syntax, n, flags, align, leaf, variant, concrete=None):
    """variant (ARM64 only): 'scratch' flags register = a scratch register (one of the clobbered), 'avail' = popped from
    available_registers, 'none' = neither exists.  concrete: replay mode, dict with concrete register indices / state."""
    tag = "%s/n=%d/flags=%d/align=%d/leaf=%d/%s" % (name, n, flags, align, leaf, variant)
    U = abi.all_registers()
    if concrete is None:
        regs = mk_regs(ctx, abi, n)
    else:
        regs = [SymReg(i, U) for i in concrete["regs"]]
    scratch, avail = [], []
    if variant == "scratch":
        if n == 0:
            raise core.PathEnd()
        k = ctx.choose(n, "which-scratch") if concrete is None else concrete.get("scratch_k", 0)
        scratch = [regs[k]]
    elif variant == "avail":
        if concrete is None:
            av = SymReg(SymInt(ctx.int("avail0")), U)
            ctx.assume(z3.And(zint(av.idx) >= 0, zint(av.idx) < len(U)))
            for b in excluded_indices(abi):
                ctx.assume(zint(av.idx) != b)
            for r in regs:
                ctx.assume(zint(av.idx) != zint(r.idx))
        else:
            av = SymReg(concrete["avail0"], U)
        avail = [av]
    if concrete is None and not ctx.feasible():
        raise core.PathInfeasible()          # e.g. no register left to be "available" when all are clobbered
    cons = Constraints(clobbers_flags=bool(flags), align_stack=bool(align))
    use = _PatchRegisterAllocation(list(regs), list(scratch), list(avail))
    cc_align = None
    try:
        cc_align = abi.calling_convention().stack_alignment
    except NotImplementedError:
        pass
    try:
        pro, epi, adj = abi._create_prologue_and_epilogue(cons, use, bool(leaf))
        pro, epi = list(pro), list(epi)
    except NotImplementedError:
        ctx.prove(tag + "/LOUD/NotImplementedError-only-for-MIPS-align_stack", z3.BoolVal(syntax == "mips" and bool(align)))
        return None
    except IndexError:
        ctx.prove(tag + "/LOUD/IndexError-only-for-ARM64-flags-without-any-free-register",
                  z3.BoolVal(syntax == "arm64" and bool(flags) and variant == "none"))
        return None
    ctx.cover("generated")
    m = Machine(ctx, abi, syntax)
    if concrete is not None:
        m.sp = m.sp0 = z3.IntVal(concrete["sp0"])
    if syntax == "arm64":
        ctx.assume(m.sp0 % 16 == 0)                     # architectural: sp is 16-byte aligned whenever used as a base
    for s in pro + epi:
        if syntax == "att" and s.x86_syntax != X86Syntax.ATT:
            raise Unmodelled("snippet syntax %r" % (s.x86_syntax,))
    for s in pro:
        m.run(s.code)
    sp_body = m.sp
    nstores_pro = len(m.stores)
    declared = lambda j: z3.Or([j == zint(r.idx) for r in regs] + [z3.BoolVal(False)])
    has_flags = syntax != "mips"                       # MIPS32 has no condition flags; clobbers_flags is meaningless there
    m.havoc_body(declared, bool(flags) and has_flags)
    for s in epi:
        m.run(s.code)
    j = ctx.int("j_reg")
    ctx.assume(z3.And(j >= 0, j < len(U)))
    P = ctx.prove
    P(tag + "/RESTORE/registers", z3.Select(m.reg, j) == z3.Select(m.reg0, j))
    if flags:
        P(tag + "/RESTORE/flags", m.flags == m.flags0)
    else:
        # the patch does not touch the flags; transparency then needs the generated code not to change them either
        P(tag + "/TRANSPARENT/flags-untouched-when-not-declared", m.flags == m.flags0)
    P(tag + "/RESTORE/sp", m.sp == m.sp0)
    P(tag + "/BELOW/every-store-below-entry-sp", z3.And([a + wd <= m.sp0 for a, wd in m.stores] + [z3.BoolVal(True)]))
    rz = abi.red_zone_size()
    if rz and leaf:
        P(tag + "/REDZONE/no-store-inside-the-red-zone", z3.And([a + wd <= m.sp0 - rz for a, wd in m.stores] + [z3.BoolVal(True)]))
    P(tag + "/OWN/every-load-reads-a-slot-stored-here", z3.And([own for _, _, own in m.loads] + [z3.BoolVal(True)]))
    P(tag + "/OWN/stores-identical-or-disjoint",
      z3.And([z3.Or(z3.And(a1 == a2, w1 == w2), a1 + w1 <= a2, a2 + w2 <= a1) for (a1, w1), (a2, w2) in itertools.combinations(m.stores, 2)] + [z3.BoolVal(True)]))
    if adj is not None:
        P(tag + "/ADJ/reported-adjustment-is-the-real-displacement", m.sp0 - sp_body == zint(adj))
    if syntax == "arm64":
        P(tag + "/ALIGN/sp-16-aligned-at-every-access", z3.And(m.sp_aligned_at_access + [z3.BoolVal(True)]))
        P(tag + "/ALIGN/adjustment-multiple-of-16", z3.And(z3.BoolVal(adj is not None), zint(adj) % 16 == 0, sp_body % 16 == 0))
    elif align and cc_align:
        P(tag + "/ALIGN/body-runs-with-ABI-aligned-stack", sp_body % cc_align == 0)
    return m, pro, epi, adj


def make_harness(name, abi, syntax, flags, align, leaf, variant):
    U = len(abi.all_registers()) - len(excluded_indices(abi))

    def harness(ctx):
        n = ctx.choose(U + 1, "n-clobbered")
        run_case(ctx, name, abi, syntax, n, flags, align, leaf, variant)
    return harness


def make_replay(name, abi, syntax, flags, align, leaf, variant):
    def rp(clause, model):
        def val(prefix, d=0):
            k = [x for x in model if x.startswith(prefix + "!")]
            return model[k[0]] if k else d
        n = int(clause.split("/n=")[1].split("/")[0])
        conc = {"regs": [val("r%d" % i) for i in range(n)], "sp0": val("sp0", 0x7FFF0010), "avail0": val("avail0", 0), "scratch_k": 0}
        U = abi.all_registers()
        # native run of the real generator with the concrete registers (text as emitted), then concrete evaluation
        regs = [U[i] for i in conc["regs"]]
        cons = Constraints(clobbers_flags=bool(flags), align_stack=bool(align))
        use = _PatchRegisterAllocation(list(regs), [regs[0]] if variant == "scratch" and regs else [], [U[conc["avail0"]]] if variant == "avail" else [])
        try:
            pro, epi, adj = abi._create_prologue_and_epilogue(cons, use, bool(leaf))
            text = {"prologue": [s.code.strip() for s in pro], "epilogue": [s.code.strip() for s in epi], "stack_adjustment": adj}
        except Exception as e:
            return {"confirmed": None, "error": "generator raised %s natively" % type(e).__name__}
        sub = core.Ctx([], 20000)
        old = core.CUR
        core.CUR = sub
        try:
            run_case(sub, name, abi, syntax, n, flags, align, leaf, variant, concrete=conc)
        except Exception as e:
            core.CUR = old
            return {"confirmed": None, "error": "%s: %s" % (type(e).__name__, e), "text": text}
        core.CUR = old
        failed = [r.name for r in sub.results if r.status == "failed"]
        return {"confirmed": bool(failed), "registers": [r.name for r in regs], "sp0": conc["sp0"], "generated": text,
                "failed_on_concrete_run": failed[:6],
                "note": "real generator run natively on these registers; its text evaluated from the concrete entry state (register values, memory and the patch body remain universally quantified)"}
    return rp


def jobs(tier="quick", seed=0):
    for name, abi, syntax in abis():
        variants = ["scratch", "avail", "none"] if syntax == "arm64" else ["-"]
        for flags, align, leaf in itertools.product((0, 1), repeat=3):
            if leaf and not abi.red_zone_size():
                continue
            if flags and syntax == "mips":
                continue            # no flags register on MIPS32            # is_leaf_function only matters with a red zone; leaf=0 covers the code path (asserted per ABI below)
            for v in variants:
                if syntax == "arm64" and not flags and v != "none":
                    continue
                yield Job("C16/%s/flags=%d/align=%d/leaf=%d/%s" % (name, flags, align, leaf, v),
                          make_harness(name, abi, syntax, flags, align, leaf, v), setup=lambda: shims.installed([A]),
                          replay=make_replay(name, abi, syntax, flags, align, leaf, v), kind="E",
                          func="gtirb_rewriting.abi:%s._create_prologue_and_epilogue" % type(abi).__mro__[1].__name__ if type(abi).__name__.count("_") > 1 else "gtirb_rewriting.abi:%s._create_prologue_and_epilogue" % type(abi).__name__,
                          timeout_ms=30000, max_seconds=1200)


# ------------------------------------------------------------------------------------------------ apply-level bounded: several sites
def several_sites_bounded(tier, seed):
    """C16 through RewritingContext.apply(): the SAME Patch object inserted at several sites (a non-leaf function first, then a leaf
    function, and the other way round) -- the frame built around each invocation must fit THAT site: in a leaf function (or outside any
    function) of an ABI with a red zone nothing may be written inside the red zone; the stack pointer is back where it was."""
    def run():
        import logging
        import capstone
        from gtirb_rewriting import Patch, RewritingContext, patch_constraints
        from bounded import scen
        from pyvc.run import BResult
        logging.getLogger("gtirb_rewriting").setLevel(logging.CRITICAL)
        md = capstone.Cs(capstone.CS_ARCH_X86, capstone.CS_MODE_64)
        md.detail = True
        br = BResult()
        br.bound = ("x86-64 ELF module of bounded/scen.py (f calls g; g is a leaf); one Patch object with constraints (clobbers / flags / scratch / align in 6 combinations) inserted into "
                    "f's call block and into g, and two distinct Patch objects as a control; stack writes of each inserted frame emulated from its capstone disassembly")
        br.clauses = ["C16/apply/no-write-inside-the-red-zone-of-a-leaf-function-at-any-site", "C16/apply/stack-pointer-restored-at-every-site"]

        def emulate(code):
            """(lowest offset written relative to the entry stack pointer before any red-zone skip..., final sp offset, red-zone writes)"""
            sp, rz = 0, []
            for ins in md.disasm(code, 0):
                mn, ops = ins.mnemonic, ins.op_str
                if mn in ("push", "pushfq"):
                    sp -= 8
                    if -128 <= sp < 0:
                        rz.append("%s %s writes [entry sp%+d]" % (mn, ops, sp))
                elif mn in ("pop", "popfq"):
                    sp += 8
                elif mn == "lea" and ops.startswith("rsp, [rsp"):
                    inner = ops[ops.index("[") + 1:ops.index("]")].replace(" ", "")
                    sp += int(inner[3:], 16) if len(inner) > 3 else 0
                elif mn in ("sub", "add") and ops.startswith("rsp, "):
                    k = int(ops.split(",")[1], 16)
                    sp += -k if mn == "sub" else k
                elif mn == "and" and ops.startswith("rsp"):
                    return None                      # alignment: displacement unknown statically (covered by the E obligations)
            return sp, rz
        combos = [dict(clobbers_registers=("rax",)), dict(clobbers_flags=True), dict(clobbers_registers=("rax", "rcx"), clobbers_flags=True),
                  dict(scratch_registers=2), dict(preserve_caller_saved_registers=True), dict(scratch_registers=1, clobbers_flags=True)]
        distinct = set()
        for ci, cons in enumerate(combos):
            for shared in (True, False):
                ir, m, bi, blocks, fl = scen.build(scen.Shape("call", True))

                def mk():
                    @patch_constraints(**cons)
                    def pat(ctx):
                        return "nop"
                    return Patch.from_function(pat)
                p1 = mk()
                p2 = p1 if shared else mk()
                rc = RewritingContext(m, fl)
                rc.insert_at(blocks[1], 0, p1)          # f: calls g -> not a leaf (lower address: applied first)
                rc.insert_at(blocks[3], 0, p2)          # g: a leaf
                br.cases += 1
                distinct.add((ci, shared))
                desc = {"constraints": {k: list(v) if isinstance(v, tuple) else v for k, v in cons.items()}, "same Patch object at both sites": shared}
                with scen.PatchRecorder() as rec:
                    try:
                        rc.apply()
                    except Exception as ex:      # noqa
                        br.failures.append({"clause": "C16/apply/stack-pointer-restored-at-every-site", "witness": desc, "detail": "%s: %s" % (type(ex).__name__, str(ex)[:100])})
                        continue
                for r in rec.records:
                    leaf = r["block"] is blocks[3]
                    em = emulate(r["bytes"])
                    if em is None:
                        continue
                    sp, rz = em
                    if sp != 0:
                        br.failures.append({"clause": "C16/apply/stack-pointer-restored-at-every-site", "witness": dict(desc, site="g (leaf)" if leaf else "f (not a leaf)"), "detail": "frame leaves sp at entry%+d: %s" % (sp, r["bytes"].hex())})
                    if leaf and rz:
                        br.failures.append({"clause": "C16/apply/no-write-inside-the-red-zone-of-a-leaf-function-at-any-site", "witness": dict(desc, site="g (leaf)"), "detail": "; ".join(rz[:2]) + " -- frame " + r["bytes"].hex()})
                if len(br.samples) < 2:
                    br.samples.append(desc)
        br.nontrivial = len(distinct)
        return br
    return run


_jobs_e = jobs


def jobs(tier="quick", seed=0):
    yield from _jobs_e(tier, seed)
    yield Job("C16/apply-several-sites-bounded", several_sites_bounded(tier, seed), kind="B", func="gtirb_rewriting.rewriting:RewritingContext._invoke_patch")
