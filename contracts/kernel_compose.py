"""Heap kernel, part 9: the COMPOSITION -- _modify.edit:insert / delete / _cleanup_modified_blocks (carry C01 geometry and bytes, C02
label positions, C06 function membership through one whole modification).

The real insert() and delete() run with their REAL callees (split_block, remove_block, join_blocks, update_fallthrough_target,
_cleanup_modified_blocks ...) on real gtirb objects and the real ModifyCache.  Symbolic: the size S of the block, the offset o
and the replaced / deleted length L (all integers with 0 <= o, 0 <= L, o + L <= S, S > 0), and the size of every non-empty block of
the patch.  Enumerated (E): block kind x out-edge configuration x function information x shape of the patch (blocks, labels,
trailing empty block) as the real Assembler produces it for a fixed set of texts.  Because the patches (and the neighbourhood
of the block) are a fixed finite set and not an exhaustive classification, the jobs are kind "S": symbolic values, bounded counts --
a stand-in that is never counted as proved.

One callee is replaced by its contract, edit_byte_interval (proved for all arguments in kernel_edit.py; the real ByteInterval cannot
hold a symbolic byte string): the stub checks the callee's PRECONDITION at the call (an obligation of the caller), records the splice
(ghost state) and applies the proved postcondition (size, every non-static block at or behind the splice point shifted).

Contract of one modification, on the listing view:
  B  exactly one splice reaches the interval: at offset(block) + o, removing L bytes, putting the patch's bytes (insert) / nothing
     (delete) -- i.e. contents' = old[:B+o] + patch + old[B+o+L:]                                                        (C01)
  G  afterwards the blocks between the untouched predecessor and the untouched successor tile [B, B + S - L + P) in the order the
     cache reports, without gaps or overlaps, none of them empty, all in the interval; the successor sits at B + S - L + P; no
     other block of the interval moved; the interval's size grew by P - L                                                (C01)
  L  the start label of the block is still at B; its end-of-block label is at B + S - L + P (behind anything inserted at its end);
     a label defined by the patch is at B + o + its position in the patch; every label designates a block of the module   (C02)
  E  fallthrough edges inside the region lead to the physically next block; edges INTO the block still reach the block at B; when the
     block's last instruction survives (o + L < S) its out-edges leave the last block of the region unchanged; when code is put
     behind the last instruction (o = S) the non-fallthrough edges stay with the code that ends at B + S; a branch inside the patch
     leads to the block its label designates                                                                            (C03)
  F  every block of the region is in the function the block was in (code into a function's block belongs to it)          (C06)
  R  insert returns the last block of the region (the place later insertions at this position go behind)
Whole-block deletion (o = 0, L = S) has its own contract in kernel_remove.py; here: one splice removing S bytes, the successor at B.
Expressions and offset-keyed tables are not in this kernel (patch expressions would need symbolic keys in real gtirb dicts): their
composition stays with the bounded apply-level check; their arithmetic is in kernel_edit / kernel_split / kernel_join.
"""
import importlib

import gtirb
import z3
from gtirb_test_helpers import add_code_block, add_data_block, add_edge, add_function, add_proxy_block, add_symbol, add_text_section, create_test_module

import gtirb_functions
from gtirb_rewriting import _auxdata
from gtirb_rewriting._modify import make_modify_cache
from gtirb_rewriting.assembler import Assembler

from pyvc import core, instrument, shims
from pyvc.run import Job
from pyvc.sym import SymBytes, SymInt, zint

from . import kernel_split

ED = importlib.import_module("gtirb_rewriting._modify.edit")
SP = importlib.import_module("gtirb_rewriting._modify.split")
JN = importlib.import_module("gtirb_rewriting._modify.join")
RM = importlib.import_module("gtirb_rewriting._modify.remove")

PATCHES = {
    "one-block": "nop",
    "branch-over": "jne .Lp\nnop\n.Lp:\nnop",
    "label-at-end": "jne .Lp\nnop\n.Lp:",
    "ends-with-call": "nop\ncall tgt",
    "ends-with-jmp": "nop\njmp tgt",
    "data": ".byte 1\n.byte 2",
    "calls-its-own-function": "call f",
}


def z(v):
    return zint(v) if not isinstance(v, int) else z3.IntVal(v)


EDGE_CONFIGS = kernel_split.EDGE_CONFIGS + ["return"]


def build(kind, edges, funcs, ff="ELF"):
    """kernel_split's module (prev | blk | nxt | tgt; f = {prev, blk, nxt}, g = {tgt}) plus: a block that returns, symbols for both functions"""
    H = kernel_split.build(kind, "none" if edges == "return" else edges, funcs, getattr(gtirb.Module.FileFormat, ff))
    ir, m, bi, prev, blk, nxt, tgt = H[:7]
    if edges == "return":
        add_edge(ir.cfg, blk, add_proxy_block(m), gtirb.EdgeType.Return)
    names = {s.name for s in m.symbols}
    if "tgt" not in names:
        add_symbol(m, "tgt", tgt)
    if "f" not in names:
        add_symbol(m, "f", prev)
    return H


def assemble(m, text):
    a = Assembler(m)
    a.assemble(text)
    res = a.finalize()
    # insert()'s precondition "the last block can hold further code" is established by its caller, _invoke_patch, like this
    last = res.text_section.blocks[-1]
    if not isinstance(last, gtirb.CodeBlock) or any(res.cfg.out_edges(last)):
        res.text_section.blocks.append(gtirb.CodeBlock(offset=last.offset + last.size))
    return res


def symbolic_patch(ctx, res):
    """give every non-empty block of the assembled patch a symbolic positive size; offsets follow; the bytes become a symbolic string"""
    sec = res.text_section
    off = z3.IntVal(0)
    sizes = []
    for i, b in enumerate(sec.blocks):
        b._offset = SymInt(off) if i else 0
        if b.size:
            p = ctx.int("patch_block%d_size" % i)
            ctx.assume(p > 0)
            b._size = SymInt(p)
            off = off + p
            sizes.append(p)
    P = off
    sec.data = SymBytes.sym(SymInt(P), ctx.array("patch_bytes"))
    # expressions of the patch: outside this kernel (symbolic keys in real gtirb dicts)
    sec.symbolic_expressions.clear()
    sec.symbolic_expression_sizes.clear()
    return P


class EditStub:
    """edit_byte_interval by contract (kernel_edit.py): precondition checked, splice recorded, proved postcondition applied"""

    def __init__(self, ctx, tag):
        self.ctx, self.tag, self.splices = ctx, tag, []

    def __call__(self, bi, offset, length, content, static_blocks=()):
        c = self.ctx
        o, ln = z(offset), z(length)
        c.prove(self.tag + "/PRE/edit_byte_interval-is-called-with-a-range-inside-the-interval", z3.And(o >= 0, ln >= 0, o + ln <= z(bi.size)))
        n = shims.len_(content)
        delta = z(n) - ln
        self.splices.append((o, ln, content))
        bi.size = SymInt(z3.simplify(z(bi.size) + delta))
        # (iteration in the cache's order: a set of blocks iterates in identity order, which differs from run to run)
        order, seen = [], set()
        x = self.first
        while x is not None and id(x) not in seen:
            seen.add(id(x))
            order.append(x)
            x = self.cache.adjacent_blocks(x)[1]
        rest = [b for b in bi.blocks if id(b) not in seen]
        if rest:
            raise core.Unsupported("a block of the interval is not in the cache's ordering")
        for b in order:
            if b.byte_interval is not bi or b in static_blocks:
                continue
            if c.branch(z(b.offset) >= o):
                b._offset = SymInt(z3.simplify(z(b.offset) + delta))


def chain(cache, first, last, limit=12):
    out = [first]
    while out[-1] is not last and len(out) < limit:
        n = cache.adjacent_blocks(out[-1])[1]
        if n is None:
            break
        out.append(n)
    return out


def position(cache, s):
    r = cache.reference_cache.get_referent(s)
    if not isinstance(r, gtirb.ByteBlock):
        return None, r
    return z(r.offset) + (z(r.size) if s.at_end else 0), r


def make_harness(op, kind, edges, funcs, patch, ff="ELF"):
    def harness(ctx):
        ir, m, bi, prev, blk, nxt, tgt, s_start, s_end, fl = build(kind, edges, funcs, ff)
        S, o, L = ctx.int("block_size"), ctx.int("offset"), ctx.int("length")
        ctx.assume(z3.And(S > 0, o >= 0, L >= 0, o + L <= S))
        if op == "delete":
            ctx.assume(z3.And(L > 0, L < S))              # L = 0 is a no-op by definition; L = S is remove_block's contract (kernel_remove)
        res = P = None
        if op == "insert":
            res = assemble(m, PATCHES[patch])
            patch_syms = {s.name: (s, s.referent, s.at_end) for s in res.symbols}
        tag = op
        stub = EditStub(ctx, tag)
        with make_modify_cache(m, fl) as cache:
            stub.cache, stub.first = cache, prev
            B = 1
            blk._size = SymInt(S)
            nxt._offset = SymInt(B + S)
            tgt._offset = SymInt(B + S + 2)
            bi.size = SymInt(B + S + 3)
            size0 = z(bi.size)
            if op == "insert":
                P = symbolic_patch(ctx, res)
                patch_pos = {n: (z(r.offset) + (z(r.size) if at_end else 0)) for n, (s, r, at_end) in patch_syms.items() if isinstance(r, gtirb.ByteBlock)}
            else:
                P = z3.IntVal(0)
            fu0 = cache.functions_by_block.get(blk)
            ET = gtirb.EdgeType
            out0 = sorted(((e.label.type.name, bool(e.label.conditional), id(e.target)) for e in blk.outgoing_edges)) if kind == "code" else []
            in0 = sorted(((e.label.type.name, id(e.source)) for e in blk.incoming_edges)) if kind == "code" else []
            patch_branches = []
            if op == "insert":
                lab_of = {id(r): n for n, (s_, r, ae) in patch_syms.items() if isinstance(r, gtirb.ByteBlock) and not ae}
                patch_branches = [(e, lab_of[id(e.target)]) for e in res.cfg if e.label.type == ET.Branch and id(e.target) in lab_of]
            saved = ED.edit_byte_interval
            ED.edit_byte_interval = stub
            try:
                if op == "insert":
                    ret = ED.insert(cache, blk, SymInt(o), SymInt(L), res)
                else:
                    ret = ED.delete(cache, blk, SymInt(o), SymInt(L))
            finally:
                ED.edit_byte_interval = saved
            ctx.cover("returned")
            Pv = ctx.prove
            # B: one splice
            ok = len(stub.splices) == 1
            Pv(tag + "/B/exactly-one-splice-reaches-the-interval", z3.BoolVal(ok), note="%d splices" % len(stub.splices))
            if ok:
                so, sl, sc = stub.splices[0]
                Pv(tag + "/B/the-splice-is-at-block-plus-offset-and-removes-the-requested-length", z3.And(so == B + o, sl == L))
                Pv(tag + "/B/the-splice-puts-the-patch-bytes", z3.BoolVal((sc is res.text_section.data) if op == "insert" else (shims.len_(sc) == 0)))
            # G: tiling
            ch = chain(cache, prev, nxt)
            good = ch[0] is prev and ch[-1] is nxt and all(b.byte_interval is bi for b in ch)
            Pv(tag + "/G/the-ordering-leads-from-the-predecessor-to-the-successor-through-blocks-of-the-interval", z3.BoolVal(good), note="%d blocks" % len(ch))
            if good:
                tile = [z(ch[i + 1].offset) == z(ch[i].offset) + z(ch[i].size) for i in range(len(ch) - 1)]
                Pv(tag + "/G/blocks-tile-the-region-without-gap-or-overlap", z3.And(tile + [z(prev.offset) == 0, z(prev.size) == 1]))
                Pv(tag + "/G/no-empty-block-left-in-the-region", z3.And([z(b.size) > 0 for b in ch[1:-1]] + [z3.BoolVal(len(ch) > 2)]))
                Pv(tag + "/G/successor-and-later-blocks-shifted-by-the-size-change", z3.And(z(nxt.offset) == B + S - L + P, z(nxt.size) == 2, z(tgt.offset) == B + S - L + P + 2))
                Pv(tag + "/G/no-other-block-in-the-interval", z3.BoolVal(set(bi.blocks) == set(ch) | {tgt}))
                if op == "insert":
                    Pv(tag + "/R/returns-the-last-block-of-the-region", z3.BoolVal(ret is ch[-2]))
                else:
                    Pv(tag + "/R/returns-a-block-of-the-region", z3.BoolVal(any(ret is b for b in ch[1:-1])))
                # what _apply_modifications relies on for the NEXT modification of the same block (kernel_applymods.py assumes exactly
                # this of insert / delete): the returned block ends where the region ends and starts no later than the first position a
                # later modification can name (behind the inserted bytes / at the deletion point)
                if isinstance(ret, gtirb.ByteBlock):
                    Pv(tag + "/R/returned-block-ends-at-the-end-of-the-region", z(ret.offset) + z(ret.size) == B + S - L + P)
                    Pv(tag + "/R/returned-block-starts-no-later-than-the-position-behind-the-modification", z(ret.offset) <= B + o + P)
            Pv(tag + "/G/interval-size-grew-by-the-size-change", z(bi.size) == size0 + P - L)
            # L: labels
            live = set(m.byte_blocks)
            ps, rs = position(cache, s_start)
            pe, re_ = position(cache, s_end)
            Pv(tag + "/L/start-label-still-at-the-start-of-the-block", z3.And(z3.BoolVal(ps is not None and rs in live), (ps if ps is not None else z3.IntVal(-1)) == B))
            Pv(tag + "/L/end-label-behind-the-last-byte-and-anything-inserted-at-the-end", z3.And(z3.BoolVal(pe is not None and re_ in live), (pe if pe is not None else z3.IntVal(-1)) == B + S - L + P))
            if op == "insert":
                for n, (s, r0, ae0) in sorted(patch_syms.items()):
                    if n not in patch_pos:
                        continue
                    pp, rr = position(cache, s)
                    Pv(tag + "/L/patch-label-at-its-position-inside-the-spliced-patch", z3.And(z3.BoolVal(pp is not None and rr in live and s.module is m), (pp if pp is not None else z3.IntVal(-1)) == B + o + patch_pos[n]),
                       note="label %s" % n)
            # E: edges
            if good and kind == "code":
                region = ch[1:-1]
                okft = all(sum(1 for e in a.outgoing_edges if e.label.type == ET.Fallthrough) <= 1 and
                           all(e.target is b for e in a.outgoing_edges if e.label.type == ET.Fallthrough) for a, b in zip(region, ch[2:]) if isinstance(a, gtirb.CodeBlock))
                Pv(tag + "/E/fallthrough-edges-of-the-region-lead-to-the-physically-next-block", z3.BoolVal(bool(okft)))
                in1 = sorted(((e.label.type.name, id(e.source)) for e in region[0].incoming_edges if e.source not in region))
                Pv(tag + "/E/edges-into-the-block-still-reach-the-block-at-its-position", z3.And(z3.BoolVal(in1 == [x for x in in0]), z(region[0].offset) == B))
                # (Return edges are compared by kind only: their targets follow the callers of the function -- clause RET below)
                noret = lambda xs: sorted(x if x[0] != "Return" else ("Return",) for x in xs)
                if ctx.branch(o + L < S):
                    out1 = sorted(((e.label.type.name, bool(e.label.conditional), id(e.target)) for e in region[-1].outgoing_edges))
                    Pv(tag + "/E/surviving-last-instruction-keeps-its-out-edges-on-the-last-block-of-the-region", z3.BoolVal(sorted(set(noret(out1))) == sorted(set(noret(out0)))))
                elif op == "insert" and ctx.branch(z3.And(o == S, L == 0)):
                    nonft = sorted(set(noret([x for x in out0 if x[0] != "Fallthrough"])))
                    holders = [b for b in region if isinstance(b, gtirb.CodeBlock) and
                               sorted(set(noret([(e.label.type.name, bool(e.label.conditional), id(e.target)) for e in b.outgoing_edges
                                                 if e.label.type != ET.Fallthrough and (e.target not in region or e.label.type == ET.Return) and not (e.label.type in (ET.Call, ET.Branch, ET.Return) and b is not region[0])]))) == nonft]
                    if nonft:
                        Pv(tag + "/E/code-put-behind-the-last-instruction-leaves-its-edges-with-the-code-ending-there",
                           z3.And(z3.BoolVal(region[0] in holders), z(region[0].offset) + z(region[0].size) == B + S))
                for e, lab in patch_branches:
                    sref, _, _ = patch_syms[lab]
                    pp, rr = position(cache, sref)
                    # (edges are immutable values: the patch's edge object may have been replaced when blocks were joined or removed)
                    found = [x for b in region if isinstance(b, gtirb.CodeBlock) for x in b.outgoing_edges
                             if x.label.type == ET.Branch and bool(x.label.conditional) == bool(e.label.conditional) and x.target is rr]
                    Pv(tag + "/E/branch-inside-the-patch-leads-to-the-block-its-label-designates", z3.BoolVal(len(found) == 1), note="label %s: %d such edges" % (lab, len(found)))
            # RET: the returns of a function lead exactly to the return sites of the calls that target it, or to one unknown proxy
            if good and kind == "code" and funcs:
                fbx = _auxdata.function_blocks.get(m) or {}
                fex = _auxdata.function_entries.get(m) or {}
                badret = []
                for u, bs in fbx.items():
                    sites = set()
                    for ent in fex.get(u, ()):
                        for e in ent.incoming_edges:
                            if e.label.type == ET.Call and isinstance(e.source, gtirb.CodeBlock):
                                sites.update(x.target for x in e.source.outgoing_edges if x.label.type == ET.Fallthrough)
                    for b in bs:
                        rets = [e.target for e in b.outgoing_edges if e.label.type == ET.Return]
                        if not rets:
                            continue
                        real = {t for t in rets if not isinstance(t, gtirb.ProxyBlock)}
                        prox = [t for t in rets if isinstance(t, gtirb.ProxyBlock)]
                        if sites and (real != sites or prox):
                            badret.append("a returning block returns to %d of its %d return sites and %d proxies" % (len(real & sites), len(sites), len(prox)))
                        if not sites and (real or len(prox) != 1):
                            badret.append("a returning block of an uncalled function returns to %d blocks and %d proxies" % (len(real), len(prox)))
                Pv(tag + "/E/returns-of-every-function-lead-exactly-to-the-return-sites-of-its-callers-or-one-proxy", z3.BoolVal(not badret), note="; ".join(badret[:2]))
            # F: functions
            if good and kind == "code":
                fb = _auxdata.function_blocks.get(m) or {}
                if funcs:
                    okf = all(cache.functions_by_block.get(b) == fu0 and b in fb.get(fu0, ()) for b in ch[1:-1] if isinstance(b, gtirb.CodeBlock))
                    Pv(tag + "/F/every-code-block-of-the-region-is-in-the-blocks-function", z3.BoolVal(bool(okf) and fu0 is not None))
                    Pv(tag + "/F/data-blocks-are-in-no-function", z3.BoolVal(all(cache.functions_by_block.get(b) is None for b in ch[1:-1] if isinstance(b, gtirb.DataBlock))))
                else:
                    Pv(tag + "/F/no-function-invented", z3.BoolVal(all(cache.functions_by_block.get(b) is None for b in ch)))
    return harness


def make_replay(op, kind, edges, funcs, patch, ff="ELF"):
    def rp(clause, model):
        """native: the real insert / delete with ALL their real callees (edit_byte_interval included) on the concrete shape, at the
        model's values and at the corner values; oracle: the contract stated on concrete numbers, bytes included"""
        def val(prefix, d):
            kx = [x for x in model if x.startswith(prefix + "!")]
            return model[kx[0]] if kx and isinstance(model[kx[0]], int) else d
        S = 4
        cases = {(max(0, min(val("offset", 1), S)), 0)}
        for o in range(S + 1):
            for L in range(S - o + 1):
                cases.add((o, L))
        bad = []
        ET = gtirb.EdgeType
        for o, L in sorted(cases):
            if op == "delete" and not (0 < L < S):
                continue
            ir, m, bi, prev, blk, nxt, tgt, s_start, s_end, fl = build(kind, edges, funcs, ff)
            old = bytes(bi.contents)
            if kind == "code":
                bi.contents = bytearray(old[:1] + bytes([0x50, 0x51, 0x52, 0x53]) + old[5:])       # distinguishable bytes in the block
                old = bytes(bi.contents)
            B = blk.offset
            res, pdata, P = None, b"", 0
            if op == "insert":
                res = assemble(m, PATCHES[patch])
                pdata = bytes(res.text_section.data)
                P = len(pdata)
                labels = {s.name: (s, s.referent.offset + (s.referent.size if s.at_end else 0)) for s in res.symbols if isinstance(s.referent, gtirb.ByteBlock)}
            desc = "%s o=%d L=%d" % (op, o, L)
            try:
                with make_modify_cache(m, fl) as cache:
                    if op == "insert":
                        ED.insert(cache, blk, o, L, res)
                    else:
                        ED.delete(cache, blk, o, L)
            except Exception as ex:      # noqa
                bad.append("%s: %s: %s" % (desc, type(ex).__name__, str(ex)[:60]))
                continue
            want = old[:B + o] + pdata + old[B + o + L:]
            if bytes(bi.contents) != want or bi.size != len(want):
                bad.append("%s: bytes are %s, expected %s" % (desc, bytes(bi.contents).hex(), want.hex()))
            blocks = sorted((b for b in bi.blocks), key=lambda b: (b.offset, b.size))
            pos = 0
            for b in blocks:
                if b.offset != pos or (b.size == 0):
                    bad.append("%s: blocks do not tile the interval (block at %d+%d, expected at %d, non-empty)" % (desc, b.offset, b.size, pos))
                    break
                pos = b.offset + b.size
            if nxt.offset != B + S - L + P:
                bad.append("%s: the successor is at %d, expected %d" % (desc, nxt.offset, B + S - L + P))
            p1 = s_start.referent.offset + (s_start.referent.size if s_start.at_end else 0) if isinstance(s_start.referent, gtirb.ByteBlock) else None
            p2 = s_end.referent.offset + (s_end.referent.size if s_end.at_end else 0) if isinstance(s_end.referent, gtirb.ByteBlock) else None
            if p1 != B or p2 != B + S - L + P or s_start.referent not in bi.blocks or s_end.referent not in bi.blocks:
                bad.append("%s: start label at %s (expected %d), end label at %s (expected %d)" % (desc, p1, B, p2, B + S - L + P))
            if op == "insert":
                for n, (s, rel) in labels.items():
                    r = s.referent
                    pp = r.offset + (r.size if s.at_end else 0) if isinstance(r, gtirb.ByteBlock) else None
                    if pp != B + o + rel or r not in bi.blocks:
                        bad.append("%s: patch label %s at %s, expected %d" % (desc, n, pp, B + o + rel))
            if kind == "code":
                region = [b for b in blocks if B <= b.offset < B + S - L + P]
                for a, b in zip(region, blocks[blocks.index(region[0]) + 1:] if region else []):
                    if isinstance(a, gtirb.CodeBlock) and any(e.label.type == ET.Fallthrough and e.target is not b for e in a.outgoing_edges):
                        bad.append("%s: a fallthrough edge of the block at %d does not lead to the next block" % (desc, a.offset))
                if funcs and region:
                    fb = _auxdata.function_blocks.get(m) or {}
                    owner = [u for u, bs in fb.items() if prev in bs]
                    if not owner or any(isinstance(b, gtirb.CodeBlock) and b not in fb[owner[0]] for b in region):
                        bad.append("%s: a code block of the region is not in the block's function" % desc)
        return {"confirmed": bool(bad), "shape": [op, kind, edges, funcs, patch], "observed": bad[:5]}
    return rp


class setup:
    def __enter__(self):
        self.cms = [shims.installed([ED, SP, JN, RM])]
        for c in self.cms:
            c.__enter__()
        return self

    def __exit__(self, *e):
        for c in reversed(self.cms):
            c.__exit__(*e)
        return False


BOUND = ("every integer symbolic (block size, offset, length, size of every patch block); COUNTS bounded: one block with one predecessor and one successor, "
         "patches of 1..3 blocks assembled from 6 texts (one block / branch over a block / label at the end / ends with call / ends with jmp / data), 5 out-edge configurations, "
         "with and without function information, ELF and PE; expressions and offset-keyed tables empty")


def jobs(tier="quick", seed=0):
    for ff in ("ELF", "PE"):
        for kind in ("code", "data"):
            for edges in (EDGE_CONFIGS if kind == "code" else ["none"]):
                for funcs in ((False, True) if kind == "code" else (False,)):
                    sfx = "" if ff == "ELF" else "/PE"
                    yield Job("K/compose/delete/%s/%s/%s%s" % (kind, edges, "funcs" if funcs else "nofuncs", sfx), make_harness("delete", kind, edges, funcs, None, ff), setup=setup,
                              replay=make_replay("delete", kind, edges, funcs, None, ff), kind="S", meta={"bound": BOUND},
                              func="gtirb_rewriting._modify.edit:delete/_cleanup_modified_blocks", expect_cover=("returned",), timeout_ms=30000)
                    for patch in PATCHES:
                        if (patch == "data") != (kind == "data"):
                            continue
                        yield Job("K/compose/insert/%s/%s/%s/%s%s" % (kind, edges, "funcs" if funcs else "nofuncs", patch, sfx), make_harness("insert", kind, edges, funcs, patch, ff), setup=setup,
                                  replay=make_replay("insert", kind, edges, funcs, patch, ff), kind="S", meta={"bound": BOUND},
                                  func="gtirb_rewriting._modify.edit:insert/_cleanup_modified_blocks", expect_cover=("returned",), timeout_ms=30000)
