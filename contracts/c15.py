"""C15 -- evaluate_cfi_directives implements the DWARF call-frame rules and fails cleanly.

Function under contract: gtirb_rewriting.dwarf.cfi_eval:evaluate_cfi_directives (real source; a generator with
four nested loops), plus RowState.__init__/__copy__ and ProcedureState.__copy__.

Loop contracts (pre-order ordinals):
  #2  for directive in directives       invariant: abs(state) == fold(step, directives[:k]) and SEP
      proved per directive name (static case split on the if/elif chain; arguments and the whole procedure state
      symbolic): the body implements spec.cfi_sem.step on the abstraction, raises CFIStateError/ValueError exactly
      when the standard says the sequence is ill-formed and no other exception class.
  #3  for inst in parse_cfi_instructions(...)   same, per escaped instruction kind (spec.cfi_sem.step_inst);
      parse_cfi_instructions itself by its C14 contract (stub).
  exit of #2: initial := copy(current) iff a procedure started at this location; the triple yielded is
      (block, offset, state after all directives at that offset).
abs(): registers dict -> function column -> rule (compared pointwise at a skolem column), CFA rule -> tuple.
SEP (representation invariant): the RowState objects reachable from the state and their `registers` dicts are
pairwise distinct objects; components a directive must not touch are replaced by *opaque* sentinels whose any use is
loud (Unsupported), which proves the frame for every value of those components.
"""
import copy as _copy
import uuid

import gtirb
import z3

from gtirb_rewriting import _auxdata
from gtirb_rewriting._auxdata import NULL_UUID
from gtirb_rewriting.abi import ABI
from gtirb_rewriting.dwarf import cfi, cfi_eval as E
from gtirb_rewriting.dwarf.dwarf2 import PointerEncodings

from pyvc import core, instrument, shims
from pyvc.containers import MapBase, PDict, PList
from pyvc.core import PathEnd, Unsupported
from pyvc.run import Job
from pyvc.sym import SymBool, SymInt, is_sym, mk_int, zint
from spec import cfi_sem as S

PROPERTY = "C15"
I = z3.IntSort()
TAG = z3.Function("rule_tag", I, I, I)
RA = z3.Function("rule_a", I, I, I)
RE = z3.Function("rule_e", I, I, I)
NONEMPTY = z3.Function("regs_nonempty", I, z3.BoolSort())
CFATAG = z3.Function("cfa_tag", I, I)
CFAREG = z3.Function("cfa_reg", I, I)
CFAOFF = z3.Function("cfa_off", I, I)
CFAEX = z3.Function("cfa_expr", I, I)
STK = z3.Function("stack_row", I, I)          # row id of the i-th saved row

DIRECTIVES = object()        # marker: "the list of directives at this offset"
INSTS = object()             # marker: "the parsed escaped instructions"


class Opaque:
    """a component the directive under proof must not look at or change: any use is loud"""

    def __init__(self, name):
        object.__setattr__(self, "_n", name)

    def _boom(self, *a, **k):
        raise Unsupported("the code inspected/modified component '%s' that its contract frames out" % object.__getattribute__(self, "_n"))

    __getattr__ = __setattr__ = __bool__ = __len__ = __iter__ = __copy__ = __deepcopy__ = __reduce_ex__ = __eq__ = __hash__ = _boom

    def __repr__(self):
        return "<opaque %s>" % object.__getattribute__(self, "_n")


class ExprMarker:
    """an (uninterpreted) DWARF expression, identified by a symbolic id"""

    def __init__(self, eid):
        self.eid = eid

    def __eq__(self, o):
        from pyvc.sym import mk_bool
        return mk_bool(zint(self.eid) == zint(o.eid)) if isinstance(o, ExprMarker) else False

    def __hash__(self):
        raise Unsupported("hash of expression marker")


def expr_id(t):
    if isinstance(t, tuple) and len(t) == 1 and isinstance(t[0], ExprMarker):
        return zint(t[0].eid)
    return None


def rule_term(r):
    z = z3.IntVal(0)
    if r is None:
        return (z3.IntVal(S.NONE), z, z)
    if type(r) is E.RegisterUndefined:
        return (z3.IntVal(S.UNDEF), z, z)
    if type(r) is E.RegisterSameValue:
        return (z3.IntVal(S.SAME), z, z)
    if type(r) is E.RegisterOffset:
        return (z3.IntVal(S.OFFSET), zint(r.offset), z)
    if type(r) is E.RegValOffset:
        return (z3.IntVal(S.VALOFFSET), zint(r.offset), z)
    if type(r) is E.RegisterInRegister:
        return (z3.IntVal(S.INREG), zint(r.register), z)
    if type(r) is E.RegisterAtExpression and expr_id(r.expression) is not None:
        return (z3.IntVal(S.ATEXPR), z, expr_id(r.expression))
    if type(r) is E.RegisterIsExpression and expr_id(r.expression) is not None:
        return (z3.IntVal(S.ISEXPR), z, expr_id(r.expression))
    return (z3.IntVal(-1), z, z)            # not a rule the standard knows


def cfa_term(c):
    z = z3.IntVal(0)
    if c is None:
        return (z3.IntVal(S.CFA_NONE), z, z, z)
    if type(c) is E.CFARegisterOffset:
        return (z3.IntVal(S.CFA_REGOFF), zint(c.register), zint(c.offset), z)
    if type(c) is E.CFAExpression and expr_id(c.expression) is not None:
        return (z3.IntVal(S.CFA_EXPR), z, z, expr_id(c.expression))
    return (z3.IntVal(-1), z, z, z)


def tup_eq(a, b):
    # only the fields meaningful for the tag are compared: normalise by tag
    return z3.And([x == y for x, y in zip(a, b)])


def norm_rule(t):
    tag, a, e = t
    uses_a = z3.Or(tag == S.OFFSET, tag == S.VALOFFSET, tag == S.INREG)
    uses_e = z3.Or(tag == S.ATEXPR, tag == S.ISEXPR)
    return (tag, z3.If(uses_a, a, 0), z3.If(uses_e, e, 0))


def norm_cfa(t):
    tag, r, o, e = t
    return (tag, z3.If(tag == S.CFA_REGOFF, r, 0), z3.If(tag == S.CFA_REGOFF, o, 0), z3.If(tag == S.CFA_EXPR, e, 0))


def base_rule(bid, r):
    return (TAG(bid, zint(r)), RA(bid, zint(r)), RE(bid, zint(r)))


def mk_regs(ctx, bid):
    """an arbitrary registers dict: column r has rule (TAG, RA, RE)(bid, r), none when TAG == 0"""
    def has(k):
        ctx.assume(z3.And(TAG(bid, k) >= 0, TAG(bid, k) <= 7))
        ctx.assume(z3.Implies(TAG(bid, k) != 0, NONEMPTY(bid)))
        return TAG(bid, k) != 0

    def get(k):
        kt = zint(k)
        t = ctx.case([TAG(bid, kt) == i for i in range(1, 8)], "rule-kind") + 1
        a, e = SymInt(RA(bid, kt)), SymInt(RE(bid, kt))
        return {1: lambda: E.RegisterUndefined(), 2: lambda: E.RegisterSameValue(), 3: lambda: E.RegisterOffset(a),
                4: lambda: E.RegValOffset(a), 5: lambda: E.RegisterInRegister(a),
                6: lambda: E.RegisterAtExpression((ExprMarker(e),)), 7: lambda: E.RegisterIsExpression((ExprMarker(e),))}[t]()
    b = MapBase(has, get, "regs%s" % bid)
    b.nonempty = NONEMPTY(bid)
    b.bid = bid
    d = PDict(base=b)
    return d


def mk_cfa(ctx, bid):
    ch = ctx.case([CFATAG(bid) == t for t in (0, 1, 2)], "cfa-kind")
    if ch == 0:
        return None
    if ch == 1:
        return E.CFARegisterOffset(SymInt(CFAREG(bid)), SymInt(CFAOFF(bid)))
    return E.CFAExpression((ExprMarker(SymInt(CFAEX(bid))),))


def mk_row(ctx, bid, regs=True, cfa=True, name="row"):
    row = object.__new__(E.RowState)
    row.registers = mk_regs(ctx, bid) if regs else Opaque(name + ".registers")
    row.cfa = mk_cfa(ctx, bid) if cfa else Opaque(name + ".cfa")
    row._bid = bid
    return row


def link(ctx, bid, rq):
    """definition of NONEMPTY (exists a column with a rule) and of the tag range, instantiated at column rq"""
    ctx.assume(z3.And(TAG(bid, rq) >= 0, TAG(bid, rq) <= 7, z3.Implies(TAG(bid, rq) != 0, NONEMPTY(bid))))


def rule_of(regs, rq):
    """abstraction of a registers dict at column rq (path-splitting lookup)"""
    v = regs.get(rq) if isinstance(regs, (PDict, dict)) else None
    return rule_term(v)


def dict_untouched(d):
    return isinstance(d, Opaque) or (isinstance(d, PDict) and not d.log)


# ------------------------------------------------------------------------------------------------ the loop contracts
FOCUS = {
    ".cfi_startproc": "none", ".cfi_endproc": "none", ".cfi_personality": "none", ".cfi_lsda": "none",
    ".cfi_return_column": "none",
    ".cfi_def_cfa": "cfa", ".cfi_def_cfa_register": "cfa", ".cfi_def_cfa_offset": "cfa", ".cfi_adjust_cfa_offset": "cfa",
    ".cfi_undefined": "regs", ".cfi_same_value": "regs", ".cfi_register": "regs", ".cfi_val_offset": "regs",
    ".cfi_offset": "regs", ".cfi_rel_offset": "regs", ".cfi_restore": "regs+init",
    ".cfi_remember_state": "stack", ".cfi_restore_state": "stack", ".cfi_escape": "row",
}


def mk_state(ctx, focus):
    """an arbitrary ProcedureState; components outside `focus` are opaque"""
    st = object.__new__(E.ProcedureState)
    st.return_column = SymInt(ctx.int("retcol"))
    st.personality = Opaque("personality")
    st.lsda = Opaque("lsda")
    cb, ib = ctx.int("cur_row", inp=False), ctx.int("init_row", inp=False)
    ctx.assume(cb != ib)
    if focus == "none":
        st.current, st.initial, st.save_stack = Opaque("current"), Opaque("initial"), Opaque("save_stack")
    else:
        st.current = mk_row(ctx, cb, regs=focus in ("regs", "regs+init", "stack", "row", "all"), cfa=focus in ("cfa", "stack", "row", "all"), name="current")
        st.initial = mk_row(ctx, ib, regs=focus in ("regs+init", "all"), cfa=False, name="initial") if focus in ("regs+init", "all") else Opaque("initial")
        if focus in ("stack", "all"):
            n = ctx.int("stack_len")
            ctx.assume(n >= 0)

            def base(i):
                it = zint(i)
                ctx.assume(z3.And(STK(it) != cb, STK(it) != ib))
                r = mk_row(ctx, STK(it), name="saved")
                r._stk_index = i
                return r
            st.save_stack = PList(SymInt(n), base)
        else:
            st.save_stack = Opaque("save_stack")
    return st


def _register_state_inputs(ctx, g, st):
    """make the relevant part of the symbolic pre-state visible in counter-models (for native replay)"""
    args = g["args"] if isinstance(g["args"], list) else []
    cur = st.current
    if not isinstance(cur, Opaque):
        bid = cur._bid
        if not isinstance(cur.__dict__.get("cfa"), Opaque):
            ctx.inputs.update({"pre_cfa_tag": CFATAG(bid), "pre_cfa_reg": CFAREG(bid), "pre_cfa_off": CFAOFF(bid)})
        if args and isinstance(cur.__dict__.get("registers"), PDict):
            r = zint(args[0])
            ctx.inputs.update({"pre_rule_tag": TAG(bid, r), "pre_rule_a": RA(bid, r)})
    ini = st.initial
    if args and not isinstance(ini, Opaque) and isinstance(ini.__dict__.get("registers"), PDict):
        r = zint(args[0])
        ctx.inputs.update({"init_rule_tag": TAG(ini._bid, r), "init_rule_a": RA(ini._bid, r)})


class DirectiveLoop(instrument.LoopSpec):
    local_names = ("name", "args", "sym_or_uuid", "directive", "encoding", "pointer_encoding", "column", "register", "offset",
                   "register1", "register2", "current_rule", "inst")

    def __init__(self, ctx, iterable, env):
        super().__init__(ctx, iterable, env)
        self.not_applicable = iterable is not DIRECTIVES
        self.g = ctx.ghost

    def establish(self, env):
        self.ctx.prove("group/started_procedure-reset-at-each-location", z3.BoolVal(env["started_procedure"] is False))

    def havoc(self, env):
        ctx, g = self.ctx, self.g
        name = g["name"]
        in_proc = g["in_proc"]
        st = mk_state(ctx, g["focus"]) if in_proc else None
        g["S0"] = st
        if st is not None:
            g["snap"] = dict(current=st.current, initial=st.initial, save_stack=st.save_stack, personality=st.personality,
                             lsda=st.lsda, return_column=st.return_column,
                             cur_cfa=getattr(st.current, "__dict__", {}).get("cfa"), cur_regs=getattr(st.current, "__dict__", {}).get("registers"),
                             stack_n=st.save_stack.n if isinstance(st.save_stack, PList) else None)
        if st is not None:
            _register_state_inputs(ctx, g, st)
        sp = SymBool(ctx.bool("started_procedure")) if g["mode"] == "exit" else False
        g["started0"] = sp
        return {"state": st, "started_procedure": sp}

    def has_next(self):
        return self.g["mode"] == "step"

    def element(self):
        g = self.g
        d = (g["name"], g["args"], g["sym"])
        return d

    def preserved(self, env):
        check_after_directive(self.ctx, self.g, env)


class EscapeLoop(instrument.LoopSpec):
    local_names = ("inst",)

    def __init__(self, ctx, iterable, env):
        super().__init__(ctx, iterable, env)
        self.not_applicable = iterable is not INSTS
        self.g = ctx.ghost

    def establish(self, env):
        pass

    def havoc(self, env):
        # the inner loop only writes state.current.cfa and state.current.registers: re-havoc exactly those
        ctx, g = self.ctx, self.g
        st = env["state"]
        self.ctx.prove("escape/state-still-the-procedure-state", z3.BoolVal(st is g["S0"]))
        nb = ctx.int("cur_row_k", inp=False)
        st.current.registers = mk_regs(ctx, nb)
        st.current.cfa = mk_cfa(ctx, nb)
        g["esc_bid"] = nb
        g["esc_cfa0"] = st.current.cfa
        g["esc_regs0"] = st.current.registers
        return {}

    def has_next(self):
        return SymBool(self.ctx.bool("more_insts", inp=False))

    def element(self):
        ctx, g = self.ctx, self.g
        kinds = ["def_cfa_expression", "expression", "val_expression", "nop", "other"]
        k = kinds[ctx.choose(len(kinds), "inst-kind")]
        reg, eid = SymInt(ctx.int("inst_reg")), SymInt(ctx.int("inst_expr", inp=False))
        ctx.assume(zint(reg) >= 0)
        g["inst_kind"], g["inst_reg"], g["inst_eid"] = k, reg, eid

        def mk(cls, **kw):
            o = object.__new__(cls)
            for a, b in kw.items():
                object.__setattr__(o, a, b)
            return o
        if k == "def_cfa_expression":
            return mk(cfi.InstDefCFAExpression, expression=[ExprMarker(eid)])
        if k == "expression":
            return mk(cfi.InstExpression, register=reg, expression=[ExprMarker(eid)])
        if k == "val_expression":
            return mk(cfi.InstValExpression, register=reg, expression=[ExprMarker(eid)])
        if k == "nop":
            return mk(cfi.InstNop)
        others = [c for c in set(cfi.Instruction._per_type_storage[cfi.CallFrameInstructions].opcodes.values())
                  if c not in (cfi.InstDefCFAExpression, cfi.InstExpression, cfi.InstValExpression, cfi.InstNop)]
        others.sort(key=lambda c: c.__name__)
        c = others[ctx.choose(len(others), "other-inst")]
        g["inst_other"] = c.__name__
        return mk(c, **{f.name: SymInt(ctx.int("f_" + f.name, inp=False)) for f, _ in c._fields_and_encoders()})

    def preserved(self, env):
        ctx, g = self.ctx, self.g
        st = env["state"]
        k = g["inst_kind"]
        if k == "other":
            ctx.fail("escape/%s/unsupported-instruction-is-NotImplementedError" % k, "instruction %s was accepted silently" % g.get("inst_other"))
            raise PathEnd()
        pre = S.Pre()
        bid = g["esc_bid"]
        pre.rule = lambda q: base_rule(bid, q)
        post = S.step_inst(k, zint(g["inst_reg"]), zint(g["inst_eid"]), pre)
        tag = "escape/" + k
        ctx.prove(tag + "/same-state-and-row-objects", z3.BoolVal(st is g["S0"] and st.current is g["snap"]["current"]))
        want_cfa = post.cfa if post.cfa is not None else cfa_term(g["esc_cfa0"])
        ctx.prove(tag + "/cfa-rule", tup_eq(norm_cfa(cfa_term(st.current.cfa)), norm_cfa(want_cfa)))
        rq = ctx.int("rq")
        ctx.prove(tag + "/registers-dict-object-kept", z3.BoolVal(st.current.registers is g["esc_regs0"]))
        got = rule_of(st.current.registers, SymInt(rq))
        want = post.rule(rq) if post.rule is not None else base_rule(bid, rq)
        ctx.prove(tag + "/register-rules", tup_eq(norm_rule(got), norm_rule(want)))
        frame_ok(ctx, tag, g, st, skip=("current",))


def frame_ok(ctx, tag, g, st, skip=()):
    sn = g["snap"]
    for comp in ("initial", "save_stack", "personality", "lsda", "current"):
        if comp in skip:
            continue
        ctx.prove(tag + "/frame/%s-object-unchanged" % comp, z3.BoolVal(getattr(st, comp) is sn[comp]))
    if "return_column" not in skip:
        ctx.prove(tag + "/frame/return_column", zint(st.return_column) == zint(sn["return_column"]))
    if "initial" not in skip and not isinstance(sn["initial"], Opaque):
        ini = sn["initial"]
        ctx.prove(tag + "/frame/initial-row-untouched", z3.BoolVal(dict_untouched(ini.registers) and isinstance(ini.cfa, Opaque)))
    if "save_stack" not in skip and isinstance(sn["save_stack"], PList):
        ctx.prove(tag + "/frame/save_stack-untouched", z3.And(zint(st.save_stack.n) == zint(sn["stack_n"]), z3.BoolVal(st.save_stack.items == [])))


def check_after_directive(ctx, g, env):
    """normal completion of the body for directive g['name'] from pre-state g['S0']: compare with the standard"""
    name, args, st0, st = g["name"], g["args"], g["S0"], env["state"]
    tag = name
    pre = S.Pre()
    pre.in_proc = st0 is not None
    zargs = [zint(a) for a in args] if name != ".cfi_escape" else []
    sn = g.get("snap")
    if st0 is not None and not isinstance(sn["current"], Opaque):
        cur = sn["current"]
        if not isinstance(sn["cur_cfa"], Opaque):
            pre.cfa = cfa_term(sn["cur_cfa"])
        if isinstance(sn["cur_regs"], PDict):
            cb = sn["cur_regs"].base.bid
            pre.rule = lambda q: base_rule(cb, q)
        if not isinstance(sn["initial"], Opaque) and isinstance(sn["initial"].registers, PDict):
            ib = sn["initial"].registers.base.bid
            pre.init_rule = lambda q: base_rule(ib, q)
        if isinstance(sn["save_stack"], PList):
            pre.stack_len = zint(sn["stack_n"])
    if name == ".cfi_escape":
        # the effect on current.{cfa,registers} is the fold proved by the inner loop contract; here: the frame
        ctx.prove(tag + "/in-procedure", z3.BoolVal(st0 is not None))
        ctx.prove(tag + "/same-state-object", z3.BoolVal(st is st0))
        ctx.prove(tag + "/parse-called-with-abi-byteorder-and-pointer-size", z3.BoolVal(g.get("parse_args") == g["abi_params"]))
        frame_ok(ctx, tag, g, st)
        raise_if = None
        return
    if name in (".cfi_personality", ".cfi_lsda"):
        zargs = [ctx.concretize(zargs[0])]
    post = S.step(name, zargs, pre, has_symbol=isinstance(g["sym"], gtirb.Symbol), default_retcol=g["default_retcol"])
    if post.error is not None:
        ctx.prove(tag + "/error-not-missed", z3.Not(post.error[1]), note="the standard makes this an error (%s) but the code went on" % post.error[0])
    g["started_after"] = env["started_procedure"]
    if post.fresh_proc:
        ok = isinstance(st, E.ProcedureState) and st is not st0
        ctx.prove(tag + "/new-procedure-state", z3.BoolVal(ok))
        if ok:
            ctx.prove(tag + "/return-column-is-the-ABI-default", zint(st.return_column) == post.retcol)
            ctx.prove(tag + "/no-personality-no-lsda", z3.BoolVal(st.personality is None and st.lsda is None))
            rows_ok = all(type(r) is E.RowState and r.cfa is None and isinstance(r.registers, (dict, PDict)) and len(r.registers) == 0 and
                          (not isinstance(r.registers, PDict) or r.registers.base is None) for r in (st.current, st.initial))
            ctx.prove(tag + "/rows-empty", z3.BoolVal(rows_ok))
            ctx.prove(tag + "/SEP", z3.BoolVal(st.current is not st.initial and st.current.registers is not st.initial.registers and st.save_stack == []))
            ctx.prove(tag + "/marks-started_procedure", z3.BoolVal(env["started_procedure"] is True))
        return
    if not post.in_proc:
        ctx.prove(tag + "/leaves-procedure", z3.BoolVal(st is None))
        return
    ctx.prove(tag + "/same-state-object", z3.BoolVal(st is st0))
    ctx.prove(tag + "/started_procedure-unchanged", z3.BoolVal(env["started_procedure"] is g["started0"]))
    skip = set()
    # return column
    if post.retcol is not None:
        ctx.prove(tag + "/return_column", zint(st.return_column) == post.retcol)
        skip.add("return_column")
    # personality / lsda
    for comp, val in (("personality", post.pers), ("lsda", post.lsda)):
        if val == "same":
            continue
        skip.add(comp)
        got = getattr(st, comp)
        if val == "none":
            ctx.prove(tag + "/%s-omitted" % comp, z3.BoolVal(got is None))
        else:
            ok = type(got) is E.EncodedPointer and got.symbol is g["sym"] and isinstance(got.encoding, PointerEncodings)
            ctx.prove(tag + "/%s-set" % comp, z3.And(z3.BoolVal(ok), zint(int(got.encoding)) == zint(val[1])) if ok else z3.BoolVal(False))
    # current row
    if post.push or post.pop:
        skip.add("save_stack")
    if post.pop:
        skip.add("current")
    frame_ok(ctx, tag, g, st, skip=skip)
    if post.pop:
        row = st.current
        ok = type(row) is E.RowState and getattr(row, "_stk_index", None) is not None
        ctx.prove(tag + "/current-is-the-popped-row", z3.And(z3.BoolVal(ok), zint(row._stk_index) == pre.stack_len - 1) if ok else z3.BoolVal(False))
        if ok:
            ctx.prove(tag + "/popped-row-unmodified", z3.BoolVal(dict_untouched(row.registers)))
        ctx.prove(tag + "/stack-shrinks-by-one", z3.And(z3.BoolVal(st.save_stack is sn["save_stack"] and st.save_stack.items == []),
                                                          zint(st.save_stack.n) == pre.stack_len - 1))
        return
    cur = st.current
    if not isinstance(cur, Opaque):
        if not isinstance(sn["cur_cfa"], Opaque):
            want = post.cfa if post.cfa is not None else pre.cfa
            ctx.prove(tag + "/cfa-rule", tup_eq(norm_cfa(cfa_term(cur.cfa)), norm_cfa(want)))
        else:
            ctx.prove(tag + "/cfa-untouched", z3.BoolVal(cur.cfa is sn["cur_cfa"]))
        if isinstance(sn["cur_regs"], PDict):
            ctx.prove(tag + "/registers-dict-object-kept", z3.BoolVal(cur.registers is sn["cur_regs"]))
            rq = ctx.int("rq")
            got = rule_of(cur.registers, SymInt(rq))
            want = post.rule(rq) if post.rule is not None else pre.rule(rq)
            ctx.prove(tag + "/register-rules", tup_eq(norm_rule(got), norm_rule(want)))
        else:
            ctx.prove(tag + "/registers-untouched", z3.BoolVal(cur.registers is sn["cur_regs"]))
    if post.push:
        stk = st.save_stack
        ok = stk is sn["save_stack"] and len(stk.items) == 1 and type(stk.items[0]) is E.RowState
        ctx.prove(tag + "/stack-grows-by-one", z3.And(z3.BoolVal(ok), zint(stk.n) == pre.stack_len))
        if ok:
            new = stk.items[0]
            ctx.prove(tag + "/SEP/saved-row-is-a-fresh-object", z3.BoolVal(new is not cur and new.registers is not cur.registers))
            ctx.prove(tag + "/saved-cfa", tup_eq(norm_cfa(cfa_term(new.cfa)), norm_cfa(pre.cfa)))
            rq2 = ctx.int("rq_saved")
            link(ctx, sn["cur_regs"].base.bid, rq2)
            ctx.prove(tag + "/saved-register-rules", tup_eq(norm_rule(rule_of(new.registers, SymInt(rq2))), norm_rule(pre.rule(rq2))))


# ------------------------------------------------------------------------------------------------ harnesses
def mk_module(isa, ff):
    ir = gtirb.IR()
    m = gtirb.Module(isa=isa, file_format=ff, name="m", ir=ir)
    s = gtirb.Section(name=".text", module=m)
    bi = gtirb.ByteInterval(contents=b"\x90" * 8, address=0x1000, section=s)
    b = gtirb.CodeBlock(offset=0, size=4, byte_interval=bi)
    m.aux_data["cfiDirectives"] = gtirb.AuxData(type_name=_auxdata.cfi_directives.type_name, data={gtirb.Offset(b, 0): DIRECTIVES})
    return m, b


class EscapeArgs:
    def __pyvc_bytes__(self):
        return ("payload", self)


class _PointerEncodingsShim:
    """stands for the name PointerEncodings in cfi_eval: the enum constructor needs a machine integer, so a symbolic
    byte is enumerated (complete case split over its feasible values) before the real constructor is called"""

    def __call__(self, v):
        if is_sym(v):
            v = core.CUR.concretize(zint(v))
        return PointerEncodings(v)

    def __getattr__(self, n):
        return getattr(PointerEncodings, n)


class setup:
    def __enter__(self):
        self.cms = [shims.installed([E, cfi], extra={E.__name__: {"PointerEncodings": _PointerEncodingsShim()}}),
                    instrument.instrumented({
                        "cfi_eval:evaluate_cfi_directives": (E.evaluate_cfi_directives, {2: DirectiveLoop, 3: EscapeLoop}, False),
                        "cfi_eval:RowState.__init__": (E.RowState.__init__, {}, True),
                    })]
        for c in self.cms:
            c.__enter__()
        self.real_parse = cfi.parse_cfi_instructions

        def parse_stub(value, byteorder, ptr_size):
            core.CUR.ghost["parse_args"] = (value[1] if isinstance(value, tuple) else value, byteorder, ptr_size)
            return INSTS
        cfi.parse_cfi_instructions = parse_stub
        return self

    def __exit__(self, *e):
        cfi.parse_cfi_instructions = self.real_parse
        for c in reversed(self.cms):
            c.__exit__(*e)
        return False


ABIS = [(gtirb.Module.ISA.X64, gtirb.Module.FileFormat.ELF), (gtirb.Module.ISA.ARM64, gtirb.Module.FileFormat.ELF),
        (gtirb.Module.ISA.MIPS32, gtirb.Module.FileFormat.ELF)]


def directive_harness(name, in_proc, isa, ff):
    def harness(ctx):
        g = ctx.ghost
        m, block = mk_module(isa, ff)
        abi = ABI.get(m)
        g.update(name=name, in_proc=in_proc, focus=FOCUS[name], mode="step", default_retcol=abi.default_dwarf_eh_return_column(),
                 abi_params=None)
        if name == ".cfi_escape":
            ea = EscapeArgs()
            g["args"] = ea
            g["abi_params"] = (ea, abi.byteorder(), abi.pointer_size())
        else:
            g["args"] = [SymInt(ctx.int("arg%d" % i)) for i in range(S.ARITY[name])]
        if name in (".cfi_personality", ".cfi_lsda"):
            ctx.assume(z3.And(zint(g["args"][0]) >= 0, zint(g["args"][0]) < 256))      # an encoding is one byte
            g["sym"] = [gtirb.Symbol("personality_fn"), NULL_UUID, uuid.UUID(int=77)][ctx.choose(3, "symbol-or-uuid")]
        else:
            g["sym"] = NULL_UUID
        gen = E.evaluate_cfi_directives(m, [block])
        try:
            next(gen)
            ctx.fail(name + "/engine", "generator yielded although the loop rule should end the path")
        except (PathEnd, Unsupported, core.PathInfeasible, core.EngineError):
            raise
        except StopIteration:
            ctx.fail(name + "/engine", "generator finished without visiting the directive")
        except BaseException as e:
            # an exception escaped the evaluator: the standard must call this sequence ill-formed
            ctx.cover("raised")
            kind = "state" if isinstance(e, E.CFIStateError) else "value" if isinstance(e, ValueError) else type(e).__name__
            pre = S.Pre()
            st0 = g.get("S0")
            pre.in_proc = st0 is not None
            if name == ".cfi_escape" and pre.in_proc:
                allowed = isinstance(e, NotImplementedError) and g.get("inst_kind") == "other"
                ctx.prove(name + "/escape-raises-only-NotImplementedError-for-undocumented-instructions", z3.BoolVal(allowed),
                          note="raised %s" % type(e).__name__)
                return
            sn = g.get("snap") or {}
            if name == ".cfi_escape":
                g["args"] = []
            if st0 is not None and not isinstance(sn.get("current"), Opaque):
                if not isinstance(sn["cur_cfa"], Opaque):
                    pre.cfa = cfa_term(sn["cur_cfa"])
                if isinstance(sn["cur_regs"], PDict):
                    cb = sn["cur_regs"].base.bid
                    pre.rule = lambda q: base_rule(cb, q)
                if not isinstance(sn["initial"], Opaque):
                    ib = sn["initial"].registers.base.bid
                    pre.init_rule = lambda q: base_rule(ib, q)
                if isinstance(sn["save_stack"], PList):
                    pre.stack_len = zint(sn["stack_n"])
            zargs = [zint(a) for a in g["args"]]
            if name in (".cfi_personality", ".cfi_lsda") and pre.in_proc:
                zargs = [ctx.concretize(zargs[0])]
            post = S.step(name, zargs, pre, has_symbol=isinstance(g["sym"], gtirb.Symbol),
                          default_retcol=g["default_retcol"])
            if kind not in ("state", "value"):
                ctx.fail(name + "/raises-only-CFIStateError-or-ValueError", "raised %s: %s" % (type(e).__name__, str(e)[:60]))
                return
            if post.error is None:
                ctx.fail(name + "/no-spurious-error", "well-formed per the standard but raised %s: %s" % (type(e).__name__, str(e)[:60]))
                return
            ctx.prove(name + "/error-only-when-ill-formed", post.error[1])
            ctx.prove(name + "/error-class", z3.BoolVal(kind == post.error[0]), note="raised %s, standard-side classification %s" % (kind, post.error[0]))
    return harness


def group_end_harness(isa, ff):
    """exit path of loop #2: initial := copy(current) iff started_procedure; then the yield"""
    def harness(ctx):
        g = ctx.ghost
        m, block = mk_module(isa, ff)
        abi = ABI.get(m)
        in_proc = bool(ctx.choose(2, "in-procedure"))
        g.update(name="<end of location>", in_proc=in_proc, focus="all", mode="exit", default_retcol=0, args=[], sym=NULL_UUID)
        gen = E.evaluate_cfi_directives(m, [block])
        blk, off, st = next(gen)
        ctx.cover("yielded")
        ctx.prove("yield/block-and-offset", z3.BoolVal(blk is block and off == 0))
        st0 = g["S0"]
        ctx.prove("yield/state-is-the-evaluated-state", z3.BoolVal(st is st0))
        if st0 is None:
            return
        sn = g["snap"]
        started = g["started0"]
        cur = st.current
        ctx.prove("yield/current-row-untouched", z3.BoolVal(cur is sn["current"] and dict_untouched(cur.registers) and cur.cfa is sn["cur_cfa"]))
        if st.initial is sn["initial"]:
            ctx.prove("yield/initial-kept-only-if-no-procedure-started-here", z3.Not(zint(started) != 0) if is_sym(started) else z3.BoolVal(not started))
        else:
            ini = st.initial
            ctx.prove("yield/initial-replaced-only-if-procedure-started-here", (zint(started) != 0) if is_sym(started) else z3.BoolVal(bool(started)))
            ok = type(ini) is E.RowState and ini is not cur and ini.registers is not cur.registers and isinstance(ini.registers, PDict)
            ctx.prove("yield/SEP/initial-is-a-fresh-copy", z3.BoolVal(ok))
            if ok:
                cb = sn["cur_regs"].base.bid
                rq = ctx.int("rq")
                link(ctx, cb, rq)
                ctx.prove("yield/initial-rules-equal-current", tup_eq(norm_rule(rule_of(ini.registers, SymInt(rq))), norm_rule(base_rule(cb, rq))))
                ctx.prove("yield/initial-cfa-equal-current", tup_eq(norm_cfa(cfa_term(ini.cfa)), norm_cfa(cfa_term(cur.cfa))))
        frame_ok(ctx, "yield", g, st, skip=("initial",))
    return harness


def copy_harness(ctx):
    """ProcedureState.__copy__ / RowState.__copy__: result fresh, SEP-separated, same abstraction.
    The list comprehension over save_stack is a pure map: stack depth 0..3 enumerated (E); rows and rules symbolic."""
    depth = ctx.choose(4, "stack-depth")
    st = object.__new__(E.ProcedureState)
    st.return_column = SymInt(ctx.int("retcol"))
    st.personality = [None, E.EncodedPointer(PointerEncodings.absptr, gtirb.Symbol("p"))][ctx.choose(2, "pers")]
    st.lsda = None
    ids = [ctx.int("row%d" % i, inp=False) for i in range(depth + 2)]
    ctx.assume(z3.Distinct(ids) if len(ids) > 1 else True)
    rows = [mk_row(ctx, b, regs=True, cfa=False, name="row%d" % i) for i, b in enumerate(ids)]
    st.current, st.initial, st.save_stack = rows[0], rows[1], rows[2:]
    c = _copy.copy(st)
    ctx.cover("copied")
    ctx.prove("copy/fresh-state", z3.BoolVal(type(c) is E.ProcedureState and c is not st))
    ctx.prove("copy/scalars", z3.And(zint(c.return_column) == zint(st.return_column), z3.BoolVal(c.personality is st.personality and c.lsda is st.lsda)))
    ok = isinstance(c.save_stack, list) and len(c.save_stack) == depth and c.save_stack is not st.save_stack
    ctx.prove("copy/stack-depth", z3.BoolVal(ok))
    if not ok:
        return
    pairs = [(c.current, st.current), (c.initial, st.initial)] + list(zip(c.save_stack, st.save_stack))
    allrows = [p[0] for p in pairs] + [p[1] for p in pairs]
    ctx.prove("copy/SEP/rows-and-dicts-pairwise-distinct", z3.BoolVal(all(type(r) is E.RowState for r in allrows) and
              len({id(r) for r in allrows}) == len(allrows) and len({id(r.registers) for r in allrows}) == len(allrows)))
    ctx.prove("copy/cfa-rules-carried-over", z3.BoolVal(all(a.cfa is b.cfa for a, b in pairs)))
    ctx.prove("copy/originals-untouched", z3.BoolVal(all(dict_untouched(b.registers) for a, b in pairs)))
    k = ctx.choose(len(pairs), "which-row")
    a, b = pairs[k]
    rq = ctx.int("rq")
    link(ctx, b.registers.base.bid, rq)
    ctx.prove("copy/register-rules-equal", tup_eq(norm_rule(rule_of(a.registers, SymInt(rq))), norm_rule(base_rule(b.registers.base.bid, rq))))


# ------------------------------------------------------------------------------------------------ native replay
def _rule_directive(tag, r, a):
    from gtirb_rewriting.dwarf import expr as X
    if tag == S.UNDEF:
        return (".cfi_undefined", [r], NULL_UUID, None)
    if tag == S.SAME:
        return (".cfi_same_value", [r], NULL_UUID, None)
    if tag == S.OFFSET:
        return (".cfi_offset", [r, a], NULL_UUID, None)
    if tag == S.VALOFFSET:
        return (".cfi_val_offset", [r, a], NULL_UUID, None)
    if tag == S.INREG:
        return (".cfi_register", [r, a], NULL_UUID, None)
    if tag in (S.ATEXPR, S.ISEXPR) and r >= 0:
        i = (cfi.InstExpression if tag == S.ATEXPR else cfi.InstValExpression)(r, [X.OpLit(1)])
        return (".cfi_escape", list(bytes(i.encode("little", 8))), NULL_UUID, [i])
    return None


def replay_directive(name, in_proc, isa, ff):
    """rebuild the counter-model's pre-state with directives, run the real evaluator, compare with the fold of the spec"""
    def rp(clause, model):
        from gtirb_rewriting.dwarf import expr as X

        def val(prefix, d=0):
            if prefix in model:
                return model[prefix]
            k = [x for x in model if x.startswith(prefix + "!")]
            return model[k[0]] if k else d
        args = [val("arg%d" % i) for i in range(S.ARITY.get(name, 0))]
        m, b0 = mk_module(isa, ff)
        bi = b0.byte_interval
        sym = gtirb.Symbol("personality_fn", module=m)
        loc0, loc1 = [], []           # directives at the startproc location (-> initial rules) and at a later one
        exact = True
        if in_proc:
            loc0.append((".cfi_startproc", [], NULL_UUID, None))
            r = args[0] if args else 0
            it, ia = val("init_rule_tag"), val("init_rule_a")
            ct, ca = val("pre_rule_tag", it), val("pre_rule_a", ia)
            if it:
                d = _rule_directive(it, r, ia)
                exact &= d is not None
                loc0 += [d] if d else []
            if (ct, ca) != (it, ia) or ct in (S.ATEXPR, S.ISEXPR):
                d = _rule_directive(ct, r, ca) if ct else None
                if ct == 0 and it != 0:
                    exact = False         # a register with an initial rule cannot be brought back to "no rule"
                loc1 += [d] if d else []
            tg = val("pre_cfa_tag")
            if tg == S.CFA_REGOFF:
                loc1.append((".cfi_def_cfa", [val("pre_cfa_reg"), val("pre_cfa_off")], NULL_UUID, None))
            elif tg == S.CFA_EXPR:
                i = cfi.InstDefCFAExpression([X.OpBReg(7, 8)])
                loc1.append((".cfi_escape", list(bytes(i.encode("little", 8))), NULL_UUID, [i]))
            for _ in range(max(0, min(val("stack_len"), 6))):
                loc1.append((".cfi_remember_state", [], NULL_UUID, None))
        if name == ".cfi_escape":
            insts = [cfi.InstExpression(2, [X.OpLit(3)]), cfi.InstValExpression(3, [X.OpDup()]), cfi.InstDefCFAExpression([X.OpBReg(6, -8)]), cfi.InstNop()]
            last = (name, list(b"".join(bytes(i.encode("little", 8)) for i in insts)), NULL_UUID, insts)
        elif name in (".cfi_personality", ".cfi_lsda"):
            last = (name, args, sym, None)
        else:
            last = (name, args, NULL_UUID, None)
        tails = [[last], [last, (".cfi_remember_state", [], NULL_UUID, None)], [last, (".cfi_restore", [args[0] if args else 0], NULL_UUID, None)]]
        for tail in tails:
            flat = [(b0, 0, loc0)] if loc0 else []
            flat.append((b0, 2, loc1 + tail))
            table = {gtirb.Offset(b, off): [d[:3] for d in ds] for b, off, ds in flat}
            m.aux_data["cfiDirectives"] = gtirb.AuxData(type_name=_auxdata.cfi_directives.type_name, data=table)
            try:
                err, gerr, want, (got, _) = run_and_compare(m, [b0], [b0], flat)
            except Exception as e:
                return {"confirmed": None, "error": "oracle: %s: %s" % (type(e).__name__, e)}
            desc = [[(d[0], d[1]) for d in ds] for _, _, ds in flat]
            if err != gerr:
                return {"confirmed": True, "directives": desc, "expected": "error=%s" % err, "observed": "error=%s" % gerr}
            for (b1, o1, s1), (b2, o2, s2) in zip(got, want):
                if s1 != s2:
                    return {"confirmed": True, "directives": desc, "at_offset": o1, "expected": repr(s2), "observed": repr(s1)}
            if tail is tails[0] and err:
                break
        return {"confirmed": False, "exact_prestate": exact, "observed": "native runs agree with the fold of the standard's step"}
    return rp


def jobs(tier="quick", seed=0):
    names = list(S.ARITY) + [".cfi_escape"]
    abis = ABIS if tier == "thorough" else ABIS[:1]
    for isa, ff in abis:
        ab = "%s-%s" % (isa.name, ff.name)
        for name in names:
            for in_proc in (True, False):
                yield Job("C15/step/%s/%s/%s" % (ab, name, "in-proc" if in_proc else "outside"), directive_harness(name, in_proc, isa, ff),
                          setup=setup, replay=replay_directive(name, in_proc, isa, ff), kind="D",
                          func="gtirb_rewriting.dwarf.cfi_eval:evaluate_cfi_directives", timeout_ms=20000)
        yield Job("C15/location-end/%s" % ab, group_end_harness(isa, ff), setup=setup, kind="D",
                  func="gtirb_rewriting.dwarf.cfi_eval:evaluate_cfi_directives", expect_cover=("yielded",))
    yield Job("C15/copy", copy_harness, setup=setup, kind="D", func="gtirb_rewriting.dwarf.cfi_eval:ProcedureState.__copy__/RowState.__copy__",
              expect_cover=("copied",))


# ------------------------------------------------------------------------------------------------ bounded: whole sequences, order, reset
def _ev(t):
    t = z3.simplify(t) if z3.is_expr(t) else t
    if z3.is_expr(t):
        if z3.is_int_value(t):
            return t.as_long()
        if z3.is_true(t):
            return True
        if z3.is_false(t):
            return False
        raise ValueError("not concrete: %s" % t)
    return t


class _Abs:
    """concrete abstract state for the sequence oracle (fold of spec.cfi_sem.step)"""

    def __init__(self):
        self.in_proc = False

    def start(self, retcol):
        self.in_proc, self.retcol, self.pers, self.lsda = True, retcol, None, None
        self.cfa, self.rules, self.init_cfa, self.init_rules, self.stack = (0, 0, 0, 0), {}, (0, 0, 0, 0), {}, []

    def pre(self):
        p = S.Pre()
        p.in_proc = self.in_proc
        if self.in_proc:
            I_ = z3.IntVal
            p.cfa = tuple(I_(x) for x in self.cfa)
            p.rule = lambda q: tuple(I_(x) for x in self.rules.get(_ev(q), (0, 0, 0)))
            p.init_rule = lambda q: tuple(I_(x) for x in self.init_rules.get(_ev(q), (0, 0, 0)))
            p.stack_len = I_(len(self.stack))
        return p

    def apply(self, post, touched):
        if post.cfa is not None:
            self.cfa = tuple(_ev(x) for x in norm_cfa(post.cfa))
        if post.rule is not None:
            for r in touched:
                t = tuple(_ev(x) for x in norm_rule(post.rule(z3.IntVal(r))))
                if t[0] == 0:
                    self.rules.pop(r, None)
                else:
                    self.rules[r] = t

    def snapshot(self):
        if not self.in_proc:
            return None
        return (self.retcol, self.pers, self.lsda, self.cfa, dict(self.rules), self.init_cfa, dict(self.init_rules),
                [(c, dict(r)) for c, r in self.stack])


def _abs_of_real(st):
    if st is None:
        return None

    def row(r):
        return (tuple(_ev(x) for x in norm_cfa(_cfa_native(r.cfa))), {k: tuple(_ev(x) for x in norm_rule(_rule_native(v))) for k, v in r.registers.items()})
    cur, ini = row(st.current), row(st.initial)
    pe = lambda p: None if p is None else (int(p.encoding), p.symbol.name)
    return (st.return_column, pe(st.personality), pe(st.lsda), cur[0], cur[1], ini[0], ini[1], [row(r) for r in st.save_stack])


def _expr_native(t):
    return hash(tuple(repr(o) for o in t)) % (1 << 30)


def _rule_native(r):
    if isinstance(r, (E.RegisterAtExpression, E.RegisterIsExpression)):
        return (z3.IntVal(S.ATEXPR if isinstance(r, E.RegisterAtExpression) else S.ISEXPR), z3.IntVal(0), z3.IntVal(_expr_native(r.expression)))
    return rule_term(r)


def _cfa_native(c):
    if isinstance(c, E.CFAExpression):
        return (z3.IntVal(S.CFA_EXPR), z3.IntVal(0), z3.IntVal(0), z3.IntVal(_expr_native(c.expression)))
    return cfa_term(c)


def shuffled_order(rnd, blocks):
    sh = list(blocks)
    rnd.shuffle(sh)
    return sh


def run_and_compare(m, blocks, shuffled, flat):
    """oracle = fold of spec.cfi_sem.step over the directives in address order; real = evaluate_cfi_directives on the
    blocks in the given order.  returns (expected error, observed error, expected yields, (observed yields, order))"""
    # oracle
    ab = _Abs()
    want, err = [], None
    for b, off, ds in flat:
        startedhere = False
        for nm, args, su, insts in ds:
            pre = ab.pre()
            if nm == ".cfi_escape":
                if not ab.in_proc:
                    err = "state"
                    break
                for i in insts:
                    kind = {cfi.InstNop: "nop", cfi.InstDefCFAExpression: "def_cfa_expression", cfi.InstExpression: "expression",
                            cfi.InstValExpression: "val_expression"}[type(i)]
                    reg = getattr(i, "register", 0)
                    post = S.step_inst(kind, z3.IntVal(reg), z3.IntVal(_expr_native(tuple(getattr(i, "expression", ())))), ab.pre())
                    ab.apply(post, [reg])
                continue
            post = S.step(nm, [z3.IntVal(a) for a in args], pre, has_symbol=isinstance(su, gtirb.Symbol), default_retcol=16)
            if post.error is not None and _ev(post.error[1]):
                err = post.error[0]
                break
            if post.fresh_proc:
                ab.start(16)
                startedhere = True
                continue
            if not post.in_proc:
                ab.in_proc = False
                continue
            if post.retcol is not None:
                ab.retcol = _ev(post.retcol)
            for comp, val in (("pers", post.pers), ("lsda", post.lsda)):
                if val == "none":
                    setattr(ab, comp, None)
                elif val != "same":
                    setattr(ab, comp, (_ev(val[1]), su.name))
            if post.push:
                ab.stack.append((ab.cfa, dict(ab.rules)))
            elif post.pop:
                ab.cfa, ab.rules = ab.stack.pop()
            else:
                ab.apply(post, [args[0]] if args else [])
        if err:
            break
        if ab.in_proc and startedhere:
            ab.init_cfa, ab.init_rules = ab.cfa, dict(ab.rules)
        want.append((b, off, ab.snapshot()))
    # real
    got, gerr = [], None
    try:
        for b, off, st in E.evaluate_cfi_directives(m, shuffled):
            got.append((b, off, _abs_of_real(_copy.copy(st) if st is not None else None)))
    except E.CFIStateError:
        gerr = "state"
    except ValueError:
        gerr = "value"
    except Exception as e:
        gerr = type(e).__name__
    return err, gerr, want, (got, shuffled)


def sequences_bounded(seed, n_seq):
    import random
    from gtirb_rewriting.dwarf import expr as X
    from pyvc.run import BResult

    def run():
        rnd = random.Random(seed)
        br = BResult()
        br.bound = "%d pseudo-random directive sequences (seed %d): <= 3 code blocks given in shuffled order, <= 3 locations per block, <= 4 directives per location, registers 0..3, ill-formed ones included" % (n_seq, seed)
        br.clauses = ["sequence/yields-at-each-location-in-address-order", "sequence/state-equals-fold-of-standard-step", "sequence/errors-only-CFIStateError-ValueError-when-ill-formed"]
        isa, ff = ABIS[0]
        sym = None
        names = list(S.ARITY) + [".cfi_escape"]
        weights = [3, 2, 1, 1, 1, 3, 2, 2, 2, 2, 2, 2, 2, 2, 3, 2, 2, 2, 2]
        distinct = set()
        for it in range(n_seq):
            ir = gtirb.IR()
            m = gtirb.Module(isa=isa, file_format=ff, name="m", ir=ir)
            sec = gtirb.Section(name=".text", module=m)
            bi = gtirb.ByteInterval(contents=b"\x90" * 64, address=0x1000, section=sec)
            sym = gtirb.Symbol("pers", module=m)
            blocks = [gtirb.CodeBlock(offset=16 * i, size=16, byte_interval=bi) for i in range(rnd.randint(1, 3))]
            table = {}
            flat = []
            started = rnd.random() < 0.85
            for b in blocks:
                for off in sorted(rnd.sample(range(0, 16), rnd.randint(0, 3))):
                    ds = []
                    for _ in range(rnd.randint(1, 4)):
                        nm = ".cfi_startproc" if (not flat and not ds and started) else rnd.choices(names, weights)[0]
                        if nm == ".cfi_escape":
                            insts = [rnd.choice([cfi.InstNop(), cfi.InstDefCFAExpression([X.OpBReg(7, rnd.randint(-9, 9))]),
                                                 cfi.InstExpression(rnd.randint(0, 3), [X.OpLit(rnd.randint(0, 5))]),
                                                 cfi.InstValExpression(rnd.randint(0, 3), [X.OpDup()])]) for _ in range(rnd.randint(0, 3))]
                            args = list(b"".join(bytes(i.encode("little", 8)) for i in insts))
                            ds.append((nm, args, NULL_UUID, insts))
                        elif nm in (".cfi_personality", ".cfi_lsda"):
                            enc = rnd.choice([0xFF, 0x00, 0x1B, 0x9B])
                            ds.append((nm, [enc], rnd.choice([sym, sym, NULL_UUID]), None))
                        else:
                            ds.append((nm, [rnd.randint(0, 3) if k == 0 else rnd.randint(-16, 16) for k in range(S.ARITY[nm])], NULL_UUID, None))
                    table[gtirb.Offset(b, off)] = [d[:3] for d in ds]
                    flat.append((b, off, ds))
            m.aux_data["cfiDirectives"] = gtirb.AuxData(type_name=_auxdata.cfi_directives.type_name, data=table)
            err, gerr, want, got = run_and_compare(m, blocks, shuffled_order(rnd, blocks), flat)
            shuffled = got[1]
            got = got[0]
            br.cases += 1
            key = (len(flat), err, tuple(d[0] for _, _, ds in flat for d in ds))
            distinct.add(key)
            desc = {"directives": [[(d[0], d[1]) for d in ds] for _, _, ds in flat], "block_order": [blocks.index(b) for b in shuffled]}
            if gerr != err:
                br.failures.append({"clause": "sequence/errors-only-CFIStateError-ValueError-when-ill-formed", "witness": desc,
                                    "detail": "expected %s, observed %s" % (err, gerr)})
                continue
            cmp_want = want if err is None else want[:len(got)]
            if [(blocks.index(b), o) for b, o, _ in got] != [(blocks.index(b), o) for b, o, _ in cmp_want] and err is None:
                br.failures.append({"clause": "sequence/yields-at-each-location-in-address-order", "witness": desc, "detail": repr([(blocks.index(b), o) for b, o, _ in got])})
                continue
            for (b1, o1, s1), (b2, o2, s2) in zip(got, cmp_want):
                if s1 != s2:
                    br.failures.append({"clause": "sequence/state-equals-fold-of-standard-step", "witness": desc,
                                        "detail": "at block %d+%d: observed %r expected %r" % (blocks.index(b1), o1, s1, s2)})
                    break
            if len(br.samples) < 2:
                br.samples.append(desc)
        br.nontrivial = len(distinct)
        return br
    return run


_jobs15 = jobs


# return-address column of a CIE as GCC / LLVM emit it (and the psABIs define it): x86-64 RA = 16, AArch64 x30 = 30, MIPS $ra = 31.
# Cross-checked in this sandbox with clang-14 --target=<triple> -funwind-tables -c and llvm-dwarfdump-14 --eh-frame.
STANDARD_RETURN_COLUMN = {gtirb.Module.ISA.X64: 16, gtirb.Module.ISA.ARM64: 30, gtirb.Module.ISA.MIPS32: 31}


def return_column_harness(ctx):
    """the state of a procedure without .cfi_return_column carries the ABI's return-address column (E over the ELF ABIs), and an explicit
    .cfi_return_column replaces it for that procedure only"""
    isa = list(STANDARD_RETURN_COLUMN)[ctx.choose(len(STANDARD_RETURN_COLUMN), "isa")]
    m, block = mk_module(isa, gtirb.Module.FileFormat.ELF)
    b2 = gtirb.CodeBlock(offset=4, size=4)          # the interval of mk_module holds 8 bytes, its block the first 4
    b2.byte_interval = block.byte_interval
    U = NULL_UUID
    tab = {gtirb.Offset(block, 0): [(".cfi_startproc", [], U)], gtirb.Offset(block, 1): [(".cfi_return_column", [5], U)], gtirb.Offset(block, 2): [(".cfi_undefined", [1], U)],
           gtirb.Offset(block, 4): [(".cfi_endproc", [], U)],
           gtirb.Offset(b2, 0): [(".cfi_startproc", [], U)], gtirb.Offset(b2, 1): [(".cfi_undefined", [1], U)], gtirb.Offset(b2, 4): [(".cfi_endproc", [], U)]}
    _auxdata.cfi_directives.set(m, tab)
    got = [(blk is b2, off, None if st is None else st.return_column) for blk, off, st in E.evaluate_cfi_directives(m, [block, b2])]
    want = STANDARD_RETURN_COLUMN[isa]
    ctx.prove("return-column/default-is-the-ABI's-return-address-register-and-an-explicit-one-lasts-to-the-end-of-its-procedure",
              z3.BoolVal(got == [(False, 0, want), (False, 1, 5), (False, 2, 5), (False, 4, None), (True, 0, want), (True, 1, want), (True, 4, None)]),
              note="%s: %s (standard column %d)" % (isa.name, got, want))
    ctx.cover("enumerated")


def every_abi_harness(ctx):
    """"fails cleanly" is said of every ABI: for EACH registered ISA / file format (the PE ones too, which define no return-address
    column) -- a table without directives on the blocks asked about evaluates to nothing; a directive outside any procedure and a stray
    .cfi_endproc are CFIStateError; a block without an address is ValueError; nothing else is ever raised by these inputs"""
    from gtirb_rewriting import abi as ABIM
    keys = sorted(ABIM._ABIS, key=lambda k: (k[0].name, k[1].name))
    isa, ff = keys[ctx.choose(len(keys), "abi")]
    U = NULL_UUID
    tag = "every-abi"
    note = "%s/%s" % (isa.name, ff.name)

    def run(table, detach=False):
        m, block = mk_module(isa, ff)
        other = gtirb.CodeBlock(offset=4, size=4)
        other.byte_interval = block.byte_interval
        _auxdata.cfi_directives.set(m, {gtirb.Offset(other if k == "other" else block, o): v for (k, o), v in table.items()})
        if detach:
            block.byte_interval.address = None
        try:
            return ("ok", [(off, st is None) for _, off, st in E.evaluate_cfi_directives(m, [block])])
        except Exception as ex:      # noqa
            return (type(ex).__name__, str(ex)[:60])
    ctx.cover("enumerated")
    r = run({("other", 0): [(".cfi_undefined", [1], U)]})
    ctx.prove(tag + "/a-table-without-directives-on-these-blocks-evaluates-to-nothing", z3.BoolVal(r == ("ok", [])), note="%s: %s" % (note, r))
    r = run({})
    ctx.prove(tag + "/an-empty-table-evaluates-to-nothing", z3.BoolVal(r == ("ok", [])), note="%s: %s" % (note, r))
    r = run({("b", 0): [(".cfi_undefined", [1], U)]})
    ctx.prove(tag + "/a-directive-outside-any-procedure-is-a-CFIStateError", z3.BoolVal(r[0] == "CFIStateError"), note="%s: %s" % (note, r))
    r = run({("b", 0): [(".cfi_endproc", [], U)]})
    ctx.prove(tag + "/a-stray-endproc-is-a-CFIStateError", z3.BoolVal(r[0] == "CFIStateError"), note="%s: %s" % (note, r))
    r = run({("b", 0): [(".cfi_undefined", [1], U)]}, detach=True)
    ctx.prove(tag + "/a-block-without-an-address-is-a-ValueError", z3.BoolVal(r[0] in ("ValueError", "CFIStateError")), note="%s: %s" % (note, r))


def jobs(tier="quick", seed=0):
    yield Job("C15/every-abi", every_abi_harness, kind="E", func="gtirb_rewriting.dwarf.cfi_eval:evaluate_cfi_directives (all registered ABIs)", expect_cover=("enumerated",))
    yield Job("C15/return-column", return_column_harness, kind="E", func="gtirb_rewriting.abi:*.default_dwarf_eh_return_column + dwarf.cfi_eval:evaluate_cfi_directives", expect_cover=("enumerated",))
    yield from _jobs15(tier, seed)
    # the contract of parse_cfi_instructions that the .cfi_escape obligations above ASSUME (modular stub) is discharged here too,
    # so that C15 does not rest on an assumption checked only under another property
    from . import c14_expr
    for j in c14_expr.jobs(tier, seed):
        if "/parse_cfi/" in j.id or "/lemma/" in j.id:
            j.id = "C15/dep/" + j.id
            yield j
    yield Job("C15/sequences-bounded", sequences_bounded(seed, 400 if tier == "quick" else 6000), kind="B",
              func="gtirb_rewriting.dwarf.cfi_eval:evaluate_cfi_directives")
