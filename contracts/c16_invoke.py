"""C16 / C13 / C11 -- rewriting.RewritingContext._invoke_patch (real source, loop-free apart from two snippet loops
over concrete lists): collaborators replaced by recording stubs, the leaf table entry and the patch answers symbolic.
  ORDER   the assembler receives: every prologue snippet in order, the patch text, every epilogue snippet in order,
          each with its own syntax; nothing else
  LEAF    is_leaf_function passed to the ABI  ==  (no function) or (leafFunctions[uuid] is truthy, default: leaf)
  CTX     get_asm sees the caller's context with stack_adjustment and scratch_registers from the allocation
  ID      _patch_id increases by exactly one when the patch produced text and is the assembler's temp-symbol suffix;
          unchanged (and nothing assembled) when the patch returns no text
  TAIL    an empty code block is appended iff the last block is data or has out-edges
"""
import dataclasses
import uuid as _uuid

import gtirb
import z3

from gtirb_rewriting import rewriting as RW
from gtirb_rewriting.assembly import Constraints, X86Syntax, _AsmSnippet
from gtirb_rewriting.patch import InsertionContext, Patch

from pyvc import core, shims
from pyvc.run import Job
from pyvc.sym import SymBool, SymInt, zint


class _Rec:
    pass


def harness(ctx):
    log = []
    has_fn = bool(ctx.choose(2, "in-function"))
    in_table = bool(ctx.choose(2, "in-leaf-table")) if has_fn else False
    leafv = SymInt(ctx.int("leaf_entry")) if in_table else None
    returns_text = bool(ctx.choose(2, "patch-returns-text"))
    last_kind = ["code-no-edges", "code-with-edges", "data"][ctx.choose(3, "last-block")] if returns_text else "code-no-edges"

    fn_uuid = _uuid.UUID(int=5)
    func = _Rec()
    func.uuid = fn_uuid
    pro = [_AsmSnippet("P0"), _AsmSnippet("P1", X86Syntax.INTEL)]
    epi = [_AsmSnippet("E0", X86Syntax.INTEL), _AsmSnippet("E1")]
    alloc = _Rec()
    alloc.scratch_registers = ["S0", "S1"]
    adj = SymInt(ctx.int("stack_adjustment"))

    class FakeABI:
        def _allocate_patch_registers(self, constraints):
            log.append(("alloc", constraints))
            return alloc

        def _create_prologue_and_epilogue(self, constraints, registers, is_leaf):
            log.append(("pe", constraints, registers, is_leaf))
            return pro, iter(epi), adj

    cons = Constraints(x86_syntax=X86Syntax.INTEL)

    class P(Patch):
        def __init__(self):
            super().__init__(cons)

        def get_asm(self, context, *args):
            log.append(("get_asm", context))
            return "BODY" if returns_text else ""

    blocks = []
    if last_kind == "data":
        blocks = [gtirb.CodeBlock(offset=0, size=2), gtirb.DataBlock(offset=2, size=2)]
    else:
        blocks = [gtirb.CodeBlock(offset=0, size=4)]
    text = _Rec()
    text.blocks = list(blocks)
    result = _Rec()
    result.text_section = text

    class FakeCFG:
        def out_edges(self, b):
            return iter([("edge",)] if last_kind == "code-with-edges" and b is blocks[-1] else [])
    result.cfg = FakeCFG()
    made = []

    class FakeTarget:
        def __init__(self, module):
            self.module = module
            self.symbol_lookup = lambda name: iter([name + "#1", name + "#2"])

    class FakeRefCache:
        def __init__(self):
            self.asked = []

        def get_referent(self, sym):
            self.asked.append(sym)

    refcache = FakeRefCache() if ctx.choose(2, "reference-cache-given") else None

    class FakeAssembler:
        ModuleTarget = FakeTarget

        def __init__(self, module, temp_symbol_suffix=None, trivially_unreachable=False, implicit_cfi_procedure=True, **kw):
            made.append(dict(module=module, suffix=temp_symbol_suffix, unreachable=trivially_unreachable, implicit=implicit_cfi_procedure, kw=kw))

        def assemble(self, code, syntax=None):
            log.append(("asm", code, syntax))

        def finalize(self):
            log.append(("finalize",))
            return result

    # a REAL RewritingContext (so that whatever state __init__ sets up exists), with the collaborators under contract replaced
    from gtirb_test_helpers import create_test_module
    _ir, _m = create_test_module(gtirb.Module.FileFormat.ELF, gtirb.Module.ISA.X64)
    # logging must be transparent: the same calls whether or not the context's logger lets DEBUG records through
    import logging as _logging
    lg = _logging.getLogger("pyvc.c16.invoke.%d" % ctx.choose(2, "debug-logging-enabled"))
    lg.propagate = False
    if not lg.handlers:
        lg.addHandler(_logging.NullHandler())
    lg.setLevel(_logging.DEBUG if lg.name.endswith("1") else _logging.WARNING)
    self_ = RW.RewritingContext(_m, [], logger=lg)
    self_._abi = FakeABI()
    self_._leaf_functions = {fn_uuid: leafv} if in_table else {}
    self_._patch_id = 41
    used = bool(ctx.choose(2, "suffix-42-already-used-in-module"))
    self_._used_label_suffixes = {42, 43} if used else set()
    want_id = 44 if used else 42
    self_._module = "MODULE"
    self_._log_patch_error = lambda *a: None
    ctx0 = InsertionContext(module="MODULE", function=func if has_fn else None, block="BLOCK", offset=3)
    target = gtirb.CodeBlock(offset=0, size=8)
    real = RW.Assembler
    RW.Assembler = FakeAssembler
    try:
        out = RW.RewritingContext._invoke_patch(self_, P(), target, 3, ctx0, reference_cache=refcache)
    finally:
        RW.Assembler = real
    pe = [e for e in log if e[0] == "pe"]
    P_ = ctx.prove
    P_("invoke/allocation-from-the-patch-constraints", z3.BoolVal([e for e in log if e[0] == "alloc"] == [("alloc", cons)] and len(pe) == 1 and pe[0][1] is cons and pe[0][2] is alloc))
    got_leaf = pe[0][3]
    want_leaf = z3.BoolVal(True) if not has_fn else (z3.BoolVal(True) if not in_table else zint(leafv) != 0)
    P_("invoke/LEAF/function-may-be-leaf-unless-recorded-otherwise", (zint(got_leaf) != 0 if not isinstance(got_leaf, bool) else z3.BoolVal(got_leaf)) == want_leaf)
    ga = [e for e in log if e[0] == "get_asm"]
    ok = len(ga) == 1 and ga[0][1].module == "MODULE" and ga[0][1].block == "BLOCK" and ga[0][1].offset == 3 and \
        ga[0][1].function is ctx0.function and ga[0][1].scratch_registers is alloc.scratch_registers
    P_("invoke/CTX/patch-sees-original-context-plus-allocation", z3.And(z3.BoolVal(ok), zint(ga[0][1].stack_adjustment) == zint(adj)) if ok else z3.BoolVal(False))
    asm = [e[1:] for e in log if e[0] == "asm"]
    if not returns_text:
        P_("invoke/ID/no-text-no-assembly-no-id", z3.BoolVal(out is None and not asm and not made and self_._patch_id == 41))
        return
    ctx.cover("assembled")
    P_("invoke/ORDER/prologue-body-epilogue", z3.BoolVal(asm == [("P0", X86Syntax.ATT), ("P1", X86Syntax.INTEL), ("BODY", X86Syntax.INTEL),
                                                                  ("E0", X86Syntax.INTEL), ("E1", X86Syntax.ATT)] and log[-1] == ("finalize",)))
    P_("invoke/ID/fresh-id-and-suffix", z3.BoolVal(self_._patch_id == want_id and len(made) == 1 and made[0]["suffix"] == "_%d" % want_id and isinstance(made[0]["module"], FakeTarget) and made[0]["module"].module == "MODULE"),
       note="the next patch id whose suffix no symbol of the module uses")
    # C09: symbols handed to the assembler have been resolved through the reference cache first
    got_syms = list(made[0]["module"].symbol_lookup("foo"))
    P_("invoke/CACHE/looked-up-symbols-resolved-through-the-reference-cache",
       z3.BoolVal(got_syms == ["foo#1", "foo#2"] and (refcache is None or refcache.asked == ["foo#1", "foo#2"])))
    want_extra = last_kind in ("data", "code-with-edges")
    got = out.text_section.blocks
    okt = out is result and got[:len(blocks)] == blocks and (len(got) == len(blocks) + (1 if want_extra else 0))
    if okt and want_extra:
        nb = got[-1]
        okt = isinstance(nb, gtirb.CodeBlock) and nb.size == 0 and nb.offset == blocks[-1].offset + blocks[-1].size
    P_("invoke/TAIL/continuation-block-iff-last-is-data-or-has-out-edges", z3.BoolVal(bool(okt)))


def jobs(tier="quick", seed=0):
    yield Job("C16/invoke_patch", harness, setup=lambda: shims.installed([]), kind="D",
              func="gtirb_rewriting.rewriting:RewritingContext._invoke_patch", expect_cover=("assembled",))
