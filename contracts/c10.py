from .c09_10_11 import jobs_c10 as jobs  # noqa: F401
