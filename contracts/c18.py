"""C18 -- retarget_symbol_uses is complete and precise.

D (real source, symbolic addend; E over ABIs x PIE x access type x definedness x attribute sets):
  _modify.retarget:_retarget_sym_expr   result is SymAddrConst(new symbol, SAME addend, attributes per the unique matching
                                        internal/external rule, unchanged when no rule matches); ValueError on two matching
                                        rules; NotImplementedError for SymAddrAddr
  abi:*._sym_expr_rules                 E: the rule tables say what the platform ABIs say (x86-64 ELF: external call -> PLT,
                                        external data reference in PIE code -> GOT+PCREL; AArch64 PIE: :lo12: / :got_lo12:, :got:)
  rewriting:RewritingContext.retarget_symbol_uses   the four refusals (foreign old/new symbol, retargeted twice, no referent)
B (bounded, labelled): retarget_symbol_uses on enumerated modules (A / B internal or external; uses of A in a call, a jump,
  a code reference, a data word, a CFI personality and symbolForwarding; bystander uses of K): completeness, precision,
  edges, and the return-edge clause (known finding F-C18).
"""
import itertools
import logging

import gtirb
import z3
from gtirb_capstone.instructions import GtirbInstructionDecoder
from gtirb_test_helpers import (add_code_block, add_data_block, add_data_section, add_edge, add_function, add_proxy_block, add_symbol,
                                add_text_section, create_test_module)

import gtirb_functions
from gtirb_rewriting import _auxdata
from gtirb_rewriting import abi as A
from gtirb_rewriting import rewriting as RW
from gtirb_rewriting._auxdata import NULL_UUID
from gtirb_rewriting._modify import retarget as RT
from gtirb_rewriting._modify.edit import AmbiguousIRError
from gtirb_rewriting.abi import _SymExprAttributeRule

from pyvc import core, shims
from pyvc.run import BResult, Job
from pyvc.sym import SymInt, zint

ATTR = gtirb.SymbolicExpression.Attribute
AT = _SymExprAttributeRule.AccessType


def abi_modules():
    out = []
    for (isa, ff), abi in A._ABIS.items():
        for pie in ((True, False) if ff == gtirb.Module.FileFormat.ELF else (False,)):
            ir, m = create_test_module(ff, isa)
            _auxdata.binary_type.set(m, ["DYN"] if pie else ["EXEC"])
            out.append(("%s-%s-%s" % (isa.name, ff.name, "pie" if pie else "nopie"), abi, m))
    return out


# what the platform ABIs say (independent of abi.py): (isa, pie) -> list of (access types, internal attrs, external attrs)
PLATFORM = {
    ("X64", "ELF", True): [({AT.CODE_REF}, set(), {ATTR.GOT, ATTR.PCREL}), ({AT.CONTROL_FLOW}, set(), {ATTR.PLT})],
    ("X64", "ELF", False): [({AT.CONTROL_FLOW, AT.CODE_REF}, set(), {ATTR.PLT})],
    ("ARM64", "ELF", True): [({AT.CODE_REF}, {ATTR.LO12}, {ATTR.LO12, ATTR.GOT}), ({AT.CODE_REF}, set(), {ATTR.GOT})],
}


def rules_table_harness(name, abi, m):
    def harness(ctx):
        rules = list(abi._sym_expr_rules(m))
        isa, ff, pie = name.split("-")
        want = PLATFORM.get((isa, ff, pie == "pie"), [])
        got = sorted(((sorted(a.name for a in r.access_types), sorted(x.name for x in r.internal_attrs), sorted(x.name for x in r.external_attrs)) for r in rules))
        exp = sorted(((sorted(a.name for a in acc), sorted(x.name for x in i), sorted(x.name for x in e)) for acc, i, e in want))
        ctx.prove("retarget/rules/%s/table-matches-the-platform-ABI" % name, z3.BoolVal(got == exp), note="got %s expected %s" % (got, exp))
        # no two rules can match the same (access, attrs, definedness): retargeting is then never ambiguous
        amb = False
        for r1, r2 in itertools.combinations(rules, 2):
            for defined in (True, False):
                if (r1.access_types & r2.access_types) and r1.get_relevant_attrs(defined) == r2.get_relevant_attrs(defined):
                    amb = True
        ctx.prove("retarget/rules/%s/never-ambiguous" % name, z3.BoolVal(not amb))
        # the rules are a function of the module asked about, not of what was asked before: the same ABI object asked about its other
        # kinds of module (PIE / non-PIE) and then about this one again gives each its own table
        hist = []
        for name2, abi2, m2 in abi_modules():
            if abi2 is abi:
                isa2, ff2, pie2 = name2.split("-")
                r2 = sorted(((sorted(a.name for a in r.access_types), sorted(x.name for x in r.internal_attrs), sorted(x.name for x in r.external_attrs)) for r in abi._sym_expr_rules(m2)))
                e2 = sorted(((sorted(a.name for a in acc), sorted(x.name for x in i), sorted(x.name for x in e)) for acc, i, e in PLATFORM.get((isa2, ff2, pie2 == "pie"), [])))
                if r2 != e2:
                    hist.append("%s: got %s expected %s" % (name2, r2, e2))
        again = sorted(((sorted(a.name for a in r.access_types), sorted(x.name for x in r.internal_attrs), sorted(x.name for x in r.external_attrs)) for r in abi._sym_expr_rules(m)))
        if again != exp:
            hist.append("%s asked again: got %s" % (name, again))
        ctx.prove("retarget/rules/%s/answer-depends-on-the-module-asked-about-not-on-earlier-requests" % name, z3.BoolVal(not hist), note="; ".join(hist)[:300])
    return harness


def sym_expr_harness(name, abi, m):
    def harness(ctx):
        rules = list(abi._sym_expr_rules(m))
        _, bi = add_text_section(m, address=0x1000)
        blk = add_code_block(bi, b"\x90" * 8)
        proxy = add_proxy_block(m)
        cands = [set(), {ATTR.PLT}, {ATTR.GOT, ATTR.PCREL}, {ATTR.LO12}, {ATTR.LO12, ATTR.GOT}, {ATTR.GOT}, {ATTR.PCREL}]
        attrs = cands[ctx.choose(len(cands), "attributes")]
        access = list(AT)[ctx.choose(len(AT), "access-type")]
        # a symbol is internal ("defined") when it designates a block of the module -- code OR data -- and external when it designates a proxy
        dblk = add_data_block(bi, b"\x00" * 8)
        old_kind = ["code", "data", "proxy"][ctx.choose(3, "old-referent")]
        new_kind = ["code", "data", "proxy"][ctx.choose(3, "new-referent")]
        old_def, new_def = old_kind != "proxy", new_kind != "proxy"
        old = gtirb.Symbol("old", payload={"code": blk, "data": dblk, "proxy": proxy}[old_kind], module=m)
        new = gtirb.Symbol("new", payload={"code": blk, "data": dblk, "proxy": add_proxy_block(m)}[new_kind], module=m)
        addend = ctx.int("addend")
        expr = gtirb.SymAddrConst(SymInt(addend), old, set(attrs))
        matching = [r for r in rules if access in r.access_types and attrs == r.get_relevant_attrs(old_def)]
        tag = "retarget/_retarget_sym_expr/%s" % name
        try:
            res = RT._retarget_sym_expr(old, new, bi, 3, expr, access, rules)
        except ValueError:
            ctx.prove(tag + "/ValueError-only-when-two-rules-match", z3.BoolVal(len(matching) > 1))
            return
        ctx.cover("retargeted")
        ctx.prove(tag + "/refers-to-the-new-symbol", z3.BoolVal(type(res) is gtirb.SymAddrConst and res.symbol is new))
        ctx.prove(tag + "/same-addend", zint(res.offset) == addend)
        want = set(attrs) if not matching else matching[0].get_relevant_attrs(new_def)
        ctx.prove(tag + "/attributes-converted-per-the-unique-matching-rule-else-unchanged", z3.BoolVal(set(res.attributes) == set(want) and len(matching) <= 1))
        ctx.prove(tag + "/original-expression-not-mutated", z3.And(z3.BoolVal(expr.symbol is old and set(expr.attributes) == set(attrs)), zint(expr.offset) == addend))
        # SymAddrAddr is refused loudly
        try:
            RT._retarget_sym_expr(old, new, bi, 3, gtirb.SymAddrAddr(1, 0, old, new), access, rules)
            ctx.fail(tag + "/SymAddrAddr-is-NotImplementedError", "accepted")
        except NotImplementedError:
            ctx.prove(tag + "/SymAddrAddr-is-NotImplementedError", z3.BoolVal(True))
        except ValueError:
            ctx.prove(tag + "/SymAddrAddr-is-NotImplementedError", z3.BoolVal(len(matching) > 1), note="ambiguity is reported first")
    return harness


def refusals_harness(ctx):
    ir, m = create_test_module(gtirb.Module.FileFormat.ELF, gtirb.Module.ISA.X64)
    _, bi = add_text_section(m, address=0x1000)
    b = add_code_block(bi, b"\x90")
    a, bsym = add_symbol(m, "a", b), add_symbol(m, "b", b)
    noref = gtirb.Symbol("noref", module=m)
    foreign = gtirb.Symbol("foreign", payload=gtirb.ProxyBlock())
    rc = RW.RewritingContext(m, [])
    for old, new, why in ((foreign, a, "foreign-old-symbol"), (a, foreign, "foreign-new-symbol"), (a, noref, "new-symbol-without-referent")):
        try:
            rc.retarget_symbol_uses(old, new)
            ctx.fail("retarget/refuses/" + why, "accepted")
        except ValueError:
            ctx.prove("retarget/refuses/" + why, z3.BoolVal(True))
        # a refused request leaves nothing behind: the context is as if it had never been made
        ctx.prove("retarget/a-refused-request-is-not-recorded", z3.BoolVal(not rc._symbol_retargets), note="after the refusal of %s the recorded requests are %s" % (
            why, {k.name: v.name for k, v in rc._symbol_retargets.items()}))
    try:
        rc.retarget_symbol_uses(a, bsym)
        accepted = True
    except ValueError as ex:
        accepted = False
        ctx.prove("retarget/a-valid-request-after-refused-ones-is-accepted", z3.BoolVal(False), note=str(ex))
    if not accepted:
        return
    ctx.prove("retarget/records-the-request", z3.BoolVal(rc._symbol_retargets == {a: bsym}))
    try:
        rc.retarget_symbol_uses(a, bsym)
        ctx.fail("retarget/refuses/retargeted-twice", "accepted")
    except ValueError:
        ctx.prove("retarget/refuses/retargeted-twice", z3.BoolVal(True))


def history_harness(ctx):
    """RewritingContext.retarget_symbol_uses (loop-free; symbols are opaque keys): after any history of requests the recorded map is
    exactly {old: new as requested} for the accepted ones, in request order; a request is refused iff its old symbol was already
    accepted (the other refusals are in refusals_harness).  E: all histories of up to 3 requests over 4 symbols, chains in both
    orders, swaps and self-retargets included -- the body only reads `old in map` and writes map[old] = new."""
    ir, m = create_test_module(gtirb.Module.FileFormat.ELF, gtirb.Module.ISA.X64)
    _, bi = add_text_section(m, address=0x1000)
    syms = [add_symbol(m, n, add_code_block(bi, b"\x90")) for n in "abcd"]
    rc = RW.RewritingContext(m, [])
    n = ctx.choose(3, "requests") + 1
    want = {}
    for i in range(n):
        old = syms[ctx.choose(4, "old%d" % i)]
        new = syms[ctx.choose(4, "new%d" % i)]
        try:
            rc.retarget_symbol_uses(old, new)
            accepted = True
        except ValueError:
            accepted = False
        ctx.prove("retarget/request-refused-iff-old-symbol-already-retargeted", z3.BoolVal(accepted == (old not in want)))
        if accepted:
            want[old] = new
    got = rc._symbol_retargets
    ctx.prove("retarget/recorded-map-is-exactly-the-requests-as-given", z3.BoolVal(list(got.items()) == list(want.items())
                                                                                 and all(got[k] is v for k, v in want.items())),
              note="a chain A->B, B->C stays a chain whatever the order of the two requests (uses of A go to B, uses of B go to C)")


def access_type_harness(ctx):
    """_sym_expr_access_type (D: instruction sizes and the expression offset are symbolic): the access type is CONTROL_FLOW iff the
    instruction that CONTAINS the expression's first byte (address <= expr < address + size) is a jump or a call, else CODE_REF;
    DATA for a data block.  On fixed-width ISAs the expression starts at the first byte of its instruction, so the boundary matters."""
    import capstone
    n = ctx.choose(3, "instructions") + 1
    sizes = [ctx.int("size%d" % i) for i in range(n)]
    for sz in sizes:
        ctx.assume(sz >= 1)
    base = ctx.int("block_address")
    ctx.assume(base >= 1)
    off = ctx.int("expression_offset")
    total = z3.Sum(sizes)
    ctx.assume(z3.And(off >= 0, off < total))
    kinds = [ctx.choose(3, "kind%d" % i) for i in range(n)]        # 0 ordinary, 1 jump, 2 call

    class Ins:
        def __init__(self, a, s, k):
            self.address, self.size, self.k = SymInt(a), SymInt(s), k

        def group(self, g):
            return (self.k == 1 and g == capstone.CS_GRP_JUMP) or (self.k == 2 and g == capstone.CS_GRP_CALL)
    insns, a = [], base
    for sz, k in zip(sizes, kinds):
        insns.append(Ins(a, sz, k))
        a = a + sz

    class Dec:
        def get_instructions(self, block):
            return iter(insns)
    # a CodeBlock whose address is the symbolic base (isinstance(block, gtirb.CodeBlock) must hold)
    fake = type("CB", (gtirb.CodeBlock,), {"address": property(lambda self: SymInt(base))})(offset=0, size=1)
    got = RT._sym_expr_access_type(fake, SymInt(off), Dec())
    ctx.cover("classified")
    # the instruction containing the byte
    starts = [base]
    for sz in sizes[:-1]:
        starts.append(starts[-1] + sz)
    cf = z3.Or([z3.And(st <= base + off, base + off < st + sz, z3.BoolVal(k in (1, 2))) for st, sz, k in zip(starts, sizes, kinds)])
    ctx.prove("sym_expr_access_type/control-flow-iff-the-containing-instruction-is-a-jump-or-call",
              z3.BoolVal(got == AT.CONTROL_FLOW) == cf if got in (AT.CONTROL_FLOW, AT.CODE_REF) else z3.BoolVal(False))
    d = gtirb.DataBlock(offset=0, size=4)
    bi = gtirb.ByteInterval(address=0x1000, size=4, contents=b"\0\0\0\0")
    d.byte_interval = bi
    ctx.prove("sym_expr_access_type/data-block-is-a-data-access", z3.BoolVal(RT._sym_expr_access_type(d, 0, Dec()) == AT.DATA))


def access_type_replay(clause, model):
    """native: concrete instruction sizes / offset from the counter-model (plus all small ones) on the real function"""
    import capstone

    def val(prefix, d):
        k = [x for x in model if x.startswith(prefix + "!")]
        return model[k[0]] if k else d
    cands = [([max(1, val("size%d" % i, 4)) for i in range(3)], max(0, val("expression_offset", 0)))]
    cands += [([a, b, c], o) for a in (1, 4) for b in (1, 4) for c in (1, 4) for o in range(a + b + c)]
    for sizes, off in cands:
        if off >= sum(sizes):
            continue
        for kinds in itertools.product((0, 1, 2), repeat=3):
            class Ins:
                def __init__(self, a, s, k):
                    self.address, self.size, self.k = a, s, k

                def group(self, g):
                    return (self.k == 1 and g == capstone.CS_GRP_JUMP) or (self.k == 2 and g == capstone.CS_GRP_CALL)
            base, insns, a = 0x1000, [], 0x1000
            for sz, k in zip(sizes, kinds):
                insns.append(Ins(a, sz, k))
                a += sz
            dec = type("D", (), {"get_instructions": lambda self, b: iter(insns)})()
            blk = type("CB", (gtirb.CodeBlock,), {"address": property(lambda self: base)})(offset=0, size=1)
            got = RT._sym_expr_access_type(blk, off, dec)
            owner = [i for i in insns if i.address <= base + off < i.address + i.size][0]
            want = AT.CONTROL_FLOW if owner.k in (1, 2) else AT.CODE_REF
            if got != want:
                return {"confirmed": True, "instruction sizes": sizes, "instruction kinds (0 ordinary, 1 jump, 2 call)": list(kinds), "expression offset": off,
                        "observed": got.name, "expected": want.name}
    return {"confirmed": False, "observed": "native runs satisfy the contract"}


def out_edges_harness(ctx):
    """_retarget_out_edges (loop over the block's concrete out-edges; E over edge type x direct x conditional x target x kind of the
    new referent): exactly the Branch / Call edges whose target is the old symbol's referent are moved to the new symbol's referent,
    label (type, conditional, DIRECT OR NOT) kept; every other edge untouched; a data referent is refused when an edge would move"""
    ET = gtirb.EdgeType
    ir, m = create_test_module(gtirb.Module.FileFormat.ELF, gtirb.Module.ISA.X64)
    _, bi = add_text_section(m, address=0x1000)
    src, a_blk, other, b_code, other2 = (add_code_block(bi, b"\x90") for _ in range(5))
    _, dbi = add_data_section(m, address=0x4000)
    b_data = add_data_block(dbi, b"\x00")
    a_kind = ctx.choose(2, "old-referent")          # code block / proxy
    a_ref = a_blk if a_kind == 0 else add_proxy_block(m)
    b_kind = ctx.choose(3, "new-referent")          # code block / proxy / data block
    b_ref = [b_code, add_proxy_block(m), b_data][b_kind]
    A_, B_ = gtirb.Symbol("A", payload=a_ref, module=m), gtirb.Symbol("B", payload=b_ref, module=m)
    etype = [ET.Branch, ET.Call, ET.Fallthrough, ET.Return][ctx.choose(4, "edge-type")]
    direct = bool(ctx.choose(2, "direct"))
    cond = bool(ctx.choose(2, "conditional"))
    to_a = bool(ctx.choose(2, "edge-targets-the-old-referent"))
    e1 = gtirb.Edge(src, a_ref if to_a else other, gtirb.EdgeLabel(etype, cond, direct))
    e2 = gtirb.Edge(src, other2, gtirb.EdgeLabel(ET.Fallthrough, False, True))          # bystander
    ir.cfg.add(e1)
    ir.cfg.add(e2)
    moves = to_a and etype in (ET.Branch, ET.Call)
    try:
        RT._retarget_out_edges(m, A_, B_, src)
        raised = False
    except AmbiguousIRError:
        raised = True
    now = sorted(((e.target, e.label.type, e.label.conditional, e.label.direct) for e in src.outgoing_edges), key=repr)
    ctx.prove("retarget_out_edges/refused-iff-control-flow-would-lead-into-data", z3.BoolVal(raised == (moves and b_kind == 2)))
    want_t = (b_ref if (moves and not raised) else (a_ref if to_a else other))
    want = sorted([(want_t, etype, cond, direct), (other2, ET.Fallthrough, False, True)], key=repr)
    ctx.prove("retarget_out_edges/exactly-the-branch-and-call-edges-to-the-old-referent-move-label-kept", z3.BoolVal(now == want),
              note="direct and indirect edges alike: the operand named A, the edge led to A's referent")


# ---- "no referent" requests, end to end (registration + apply), over the ways a symbol can lack a referent
# per ISA: (call A, jump A, instruction that takes A's address as data), each (bytes, offset of the operand expression)
_CODE_USES = {
    "X64": ((b"\xe8\x00\x00\x00\x00", 1), (b"\xe9\x00\x00\x00\x00", 1), (b"\xb8\x00\x00\x00\x00", 1)),
    "IA32": ((b"\xe8\x00\x00\x00\x00", 1), (b"\xe9\x00\x00\x00\x00", 1), (b"\xb8\x00\x00\x00\x00", 1)),
    "ARM64": ((b"\x00\x00\x00\x94", 0), (b"\x00\x00\x00\x14", 0), (b"\x00\x00\x00\x90", 0)),       # bl / b / adrp x0
}
_RET = {"X64": b"\xc3", "IA32": b"\xc3", "ARM64": b"\xc0\x03\x5f\xd6"}
# how the new symbol of the request lacks a referent: it has no payload at all, or it only carries an address ("integral" symbol:
# absolute symbols, linker-script symbols, section-end markers) -- wherever that address happens to lie
NOREF_KINDS = ("no-payload", "address-zero", "address-of-the-first-block", "address-inside-a-block", "address-of-a-later-block",
               "address-at-the-end-of-the-last-interval", "address-in-the-gap-between-intervals", "address-beyond-the-module")
USE_SETS = ("no-use-at-all", "call", "jump", "code-reference", "data-word", "cfi-personality", "symbolForwarding", "every-kind-of-use")


def noref_module(isa, ff, pie, a_internal, uses):
    """a module in which A is used in the places named by `uses` (the others name the bystander K); B is a valid target"""
    ir, m = create_test_module(ff, isa)
    if ff == gtirb.Module.FileFormat.ELF:
        _auxdata.binary_type.set(m, ["DYN"] if pie else ["EXEC"])
    _, tbi = add_text_section(m, address=0x1000)
    _, dbi = add_data_section(m, address=0x2000)
    enc, ret = _CODE_USES.get(isa.name), _RET.get(isa.name)
    pa = add_proxy_block(m)
    d0 = add_data_block(dbi, b"\x00" * 8)
    d1 = add_data_block(dbi, b"\x00" * 8)
    d2 = add_data_block(dbi, b"\x00" * 8)
    if enc:
        (cb, co), (jb, jo), (rb, ro) = enc
        main = add_code_block(tbi, cb)                 # call
        site = add_code_block(tbi, rb + jb)            # reference ; jump
        fa, fb, fk = (add_code_block(tbi, ret) for _ in range(3))
    else:
        fa, fb, fk = d1, d2, d2
    A_ = add_symbol(m, "A", fa if a_internal else pa)
    B_ = add_symbol(m, "B", fb)
    K_ = add_symbol(m, "K", fk)
    X_ = add_symbol(m, "X", d0)

    def who(use):
        return A_ if (use in uses) else K_
    if enc:
        tbi.symbolic_expressions[main.offset + co] = gtirb.SymAddrConst(0, who("call"), set())
        tbi.symbolic_expressions[site.offset + ro] = gtirb.SymAddrConst(0, who("code-reference"), set())
        tbi.symbolic_expressions[site.offset + len(rb) + jo] = gtirb.SymAddrConst(0, who("jump"), set())
        add_edge(ir.cfg, main, who("call").referent, gtirb.EdgeType.Call)
        add_edge(ir.cfg, main, site, gtirb.EdgeType.Fallthrough)
        add_edge(ir.cfg, site, who("jump").referent, gtirb.EdgeType.Branch)
        for f in (fa, fb, fk):
            add_edge(ir.cfg, f, add_proxy_block(m), gtirb.EdgeType.Return)
        add_symbol(m, "main", main)
        cfi_at = main
    else:
        cfi_at = d0
    dbi.symbolic_expressions[0] = gtirb.SymAddrConst(4, who("data-word"), set())
    _auxdata.cfi_directives.set(m, {gtirb.Offset(cfi_at, 0): [(".cfi_startproc", [], NULL_UUID), (".cfi_personality", [0x9B], who("cfi-personality"))]})
    _auxdata.symbol_forwarding.set(m, {X_: who("symbolForwarding")})
    first = main if enc else d0
    addr = {"address-zero": 0, "address-of-the-first-block": first.address, "address-inside-a-block": d0.address + 3,
            "address-of-a-later-block": d1.address, "address-at-the-end-of-the-last-interval": dbi.address + dbi.size,
            "address-in-the-gap-between-intervals": 0x1800, "address-beyond-the-module": 0x7FFF0000}
    return ir, m, A_, B_, K_, addr


def _mentions(m, sym):
    out = ["expression at %#x" % (i.address + k) for i in m.byte_intervals for k, e in i.symbolic_expressions.items() if sym in list(e.symbols)]
    out += ["CFI %s" % d[0] for ds in (_auxdata.cfi_directives.get(m) or {}).values() for d in ds if d[2] is sym]
    out += ["symbolForwarding of %s" % k.name for k, v in (_auxdata.symbol_forwarding.get(m) or {}).items() if v is sym]
    return out


def no_referent_harness(name, isa, ff, pie):
    """Last sentence of the property: a request whose new symbol has no referent is refused with an error -- by the time apply() returns
    at the latest -- whatever the reason the symbol has none (no payload / an address only, anywhere), whatever the uses of A (none,
    control flow, data references, CFI, symbolForwarding), A internal or external.  E: the finite family below on the real
    RewritingContext.  Control: the very same request with a target that HAS a referent is accepted and applied (so the refusals
    are not an artefact of the module)."""
    def harness(ctx):
        logging.getLogger("gtirb_rewriting").setLevel(logging.CRITICAL)
        has_code = isa.name in _CODE_USES
        use_sets = [u for u in USE_SETS if has_code or u not in ("call", "jump", "code-reference")]
        us = use_sets[ctx.choose(len(use_sets), "uses-of-A")]
        uses = set(USE_SETS[1:]) if us == "every-kind-of-use" else {us}
        a_internal = bool(ctx.choose(2, "A-internal"))
        kinds = NOREF_KINDS + ("control:has-a-referent",)
        kind = kinds[ctx.choose(len(kinds), "new-symbol")]
        ir, m, A_, B_, K_, addr = noref_module(isa, ff, pie, a_internal, uses)
        tag = "retarget/no-referent/%s" % name
        if kind == "control:has-a-referent":
            new = B_
        else:
            new = gtirb.Symbol("N", payload=addr.get(kind), module=m)
        had_referent = new.referent is not None
        rc = RW.RewritingContext(m, [])
        stage, err = "registration", None
        try:
            rc.retarget_symbol_uses(A_, new)
            stage = "apply"
            rc.apply()
            stage = None
        except Exception as ex:      # any error is a refusal
            err = ex
        what = "uses of A: %s; A %s; new symbol: %s" % (us, "internal" if a_internal else "external", kind)
        if had_referent:
            ctx.cover("control-accepted")
            left = _mentions(m, A_)
            ctx.prove(tag + "/control-the-same-request-with-a-target-that-has-a-referent-is-accepted-and-applied",
                      z3.BoolVal(err is None and not left), note="%s: %s, A still named by %s" % (what, "%s at %s: %s" % (type(err).__name__, stage, str(err)[:80]) if err else "no error", left))
            return
        ctx.cover("no-referent-request")
        dangling = _mentions(m, new)
        ctx.prove(tag + "/a-request-whose-new-symbol-has-no-referent-is-refused-with-an-error",
                  z3.BoolVal(err is not None),
                  note="%s (payload %r): accepted and applied without an error; afterwards the symbol (referent %s) is named by %s" % (
                      what, addr.get(kind), "a block" if new.referent is not None else None, dangling or "nothing"))
        if err is not None and stage == "registration":
            ctx.prove(tag + "/a-request-refused-at-registration-is-not-recorded-and-changes-nothing",
                      z3.BoolVal(not rc._symbol_retargets and not dangling))
    return harness


# ------------------------------------------------------------------------------------------------ bounded
def build(a_internal, b_internal, b_is_data, with_functions, b_alias=False):
    ir, m = create_test_module(gtirb.Module.FileFormat.ELF, gtirb.Module.ISA.X64)
    _auxdata.binary_type.set(m, ["DYN"])
    _, bi = add_text_section(m, address=0x1000)
    # main: call A ; retsite: jmp A ; lea A(%rip),%rax ; nop ; ret     fA: ret   fB: ret   k: ret
    main = add_code_block(bi, b"\xe8\x00\x00\x00\x00")
    retsite = add_code_block(bi, b"\x90\xeb\x00")
    site2 = add_code_block(bi, b"\x48\x8d\x05\x00\x00\x00\x00\xe8\x00\x00\x00\x00")     # lea A ; call K
    tail = add_code_block(bi, b"\xc3")
    fa = add_code_block(bi, b"\x90\xc3")
    fb = add_code_block(bi, b"\x90\x90\xc3")
    fk = add_code_block(bi, b"\xc3")
    _, dbi = add_data_section(m, address=0x4000)
    d0 = add_data_block(dbi, b"\x00" * 16)
    dB = add_data_block(dbi, b"\x00" * 8)
    pa, pb = add_proxy_block(m), add_proxy_block(m)
    A_ = add_symbol(m, "A", fa if a_internal else pa)
    # b_alias: B is another name for the very block / proxy that A designates (e.g. __GI_helper and helper)
    B_ = add_symbol(m, "B", A_.referent if b_alias else ((dB if b_is_data else fb) if b_internal else pb))
    K_ = add_symbol(m, "K", fk)
    X_ = add_symbol(m, "X", tail)
    smain = add_symbol(m, "main", main)
    plt = {ATTR.PLT} if not a_internal else set()
    got = {ATTR.GOT, ATTR.PCREL} if not a_internal else set()
    bi.symbolic_expressions[main.offset + 1] = gtirb.SymAddrConst(0, A_, set(plt))
    bi.symbolic_expressions[retsite.offset + 2] = gtirb.SymAddrConst(0, A_, set(plt))
    bi.symbolic_expressions[site2.offset + 3] = gtirb.SymAddrConst(7, A_, set(got))
    bi.symbolic_expressions[site2.offset + 8] = gtirb.SymAddrConst(0, K_, set())
    dbi.symbolic_expressions[0] = gtirb.SymAddrConst(16, A_, set())
    dbi.symbolic_expressions[8] = gtirb.SymAddrConst(0, K_, set())
    cfg = ir.cfg
    ta = fa if a_internal else pa
    add_edge(cfg, main, ta, gtirb.EdgeType.Call)
    add_edge(cfg, main, retsite, gtirb.EdgeType.Fallthrough)
    add_edge(cfg, retsite, ta, gtirb.EdgeType.Branch)
    add_edge(cfg, site2, fk, gtirb.EdgeType.Call)
    add_edge(cfg, site2, tail, gtirb.EdgeType.Fallthrough)
    add_edge(cfg, tail, add_proxy_block(m), gtirb.EdgeType.Return)
    if a_internal:
        add_edge(cfg, fa, retsite, gtirb.EdgeType.Return)
    add_edge(cfg, fb, add_proxy_block(m), gtirb.EdgeType.Return)
    add_edge(cfg, fk, tail, gtirb.EdgeType.Return)
    _auxdata.cfi_directives.set(m, {gtirb.Offset(main, 0): [(".cfi_startproc", [], NULL_UUID), (".cfi_personality", [0x9B], A_), (".cfi_lsda", [0x1B], K_)]})
    _auxdata.symbol_forwarding.set(m, {X_: A_, K_: X_})
    fl = []
    if with_functions:
        add_function(m, smain, main, {retsite, site2, tail})
        if a_internal:
            add_function(m, add_symbol(m, "fA", fa), fa)
        add_function(m, add_symbol(m, "fB", fb), fb)
        add_function(m, add_symbol(m, "fK", fk), fk)
        fl = gtirb_functions.Function.build_functions(m)
    return ir, m, dict(main=main, retsite=retsite, site2=site2, tail=tail, fa=fa, fb=fb, fk=fk, pa=pa, pb=pb, dB=dB, bi=bi, dbi=dbi,
                       A=A_, B=B_, K=K_, X=X_), fl


def bounded(tier, seed):
    def run():
        logging.getLogger("gtirb_rewriting").setLevel(logging.CRITICAL)
        br = BResult()
        br.bound = ("x86-64 ELF PIE module: A used by a call, a jump, a lea, a data word (+16), .cfi_personality and symbolForwarding; bystander K; "
                    "A internal/external x B internal code / internal data / external / an alias of A (same referent) x with/without function info; through RewritingContext.apply(); plus the chain K->A, A->B in both registration orders")
        br.clauses = ["C18/no-use-of-A-remains-and-each-now-refers-to-B-with-the-same-addend", "C18/attributes-converted-per-the-ABI-rule",
                      "C18/every-other-entry-untouched", "C18/branch-and-call-edges-lead-to-B", "C18/return-edges-follow-the-calls",
                      "C18/retargeting-control-flow-into-data-is-refused", "C18/chains-are-simultaneous-substitutions"]
        distinct = set()
        for a_int, (b_int, b_data), funcs in itertools.product((True, False), ((True, False), (True, True), (False, False), ("alias", False)), (False, True)):
            alias = b_int == "alias"
            if alias:
                b_int = a_int
            ir, m, H, fl = build(a_int, b_int, b_data, funcs, alias)
            br.cases += 1
            distinct.add((a_int, b_int, b_data, funcs, alias))
            desc = {"A": "internal" if a_int else "external", "B": "another symbol with the same referent as A" if alias else (("data" if b_data else "code") if b_int else "external"), "functions": funcs}
            before_k = [(i.address + k, e.symbol.name, e.offset, sorted(a.name for a in e.attributes)) for i in m.byte_intervals
                        for k, e in i.symbolic_expressions.items() if e.symbol is H["K"]]
            rc = RW.RewritingContext(m, fl)
            rc.retarget_symbol_uses(H["A"], H["B"])
            try:
                rc.apply()
            except AmbiguousIRError:
                if not (b_int and b_data):
                    br.failures.append({"clause": "C18/retargeting-control-flow-into-data-is-refused", "witness": desc, "detail": "AmbiguousIRError although B is a CFG node"})
                continue
            except Exception as e:
                br.failures.append({"clause": "C18/no-use-of-A-remains-and-each-now-refers-to-B-with-the-same-addend", "witness": desc, "detail": "%s: %s" % (type(e).__name__, str(e)[:100])})
                continue
            if b_int and b_data:
                br.failures.append({"clause": "C18/retargeting-control-flow-into-data-is-refused", "witness": desc, "detail": "accepted"})
                continue
            exprs = {(i.section.name, i.address + k): e for i in m.byte_intervals for k, e in i.symbolic_expressions.items()}
            uses_a = [k for k, e in exprs.items() if H["A"] in list(e.symbols)]
            if uses_a:
                br.failures.append({"clause": "C18/no-use-of-A-remains-and-each-now-refers-to-B-with-the-same-addend", "witness": desc, "detail": "A still used at %s" % uses_a})
            want = {0x1001: (0, "cf"), 0x1007: (0, "cf"), 0x100B: (7, "ref"), 0x4000: (16, "data")}
            for addr, (addend, kind) in want.items():
                e = [v for (s, a), v in exprs.items() if a == addr]
                if not e or e[0].symbol is not H["B"] or e[0].offset != addend:
                    br.failures.append({"clause": "C18/no-use-of-A-remains-and-each-now-refers-to-B-with-the-same-addend", "witness": desc, "detail": "at %#x: %r" % (addr, e)})
                    continue
                exp_attrs = {"cf": set() if b_int else {"PLT"}, "ref": set() if b_int else {"GOT", "PCREL"}, "data": set()}[kind]
                if {a.name for a in e[0].attributes} != exp_attrs:
                    br.failures.append({"clause": "C18/attributes-converted-per-the-ABI-rule", "witness": desc,
                                        "detail": "at %#x: %s expected %s" % (addr, sorted(a.name for a in e[0].attributes), sorted(exp_attrs))})
            after_k = [(i.address + k, e.symbol.name, e.offset, sorted(a.name for a in e.attributes)) for i in m.byte_intervals
                       for k, e in i.symbolic_expressions.items() if e.symbol is H["K"]]
            cfi = _auxdata.cfi_directives.get(m)
            ds = list(cfi.values())[0]
            fw = _auxdata.symbol_forwarding.get(m)
            if ds[1][2] is not H["B"] or fw.get(H["X"]) is not H["B"]:
                br.failures.append({"clause": "C18/no-use-of-A-remains-and-each-now-refers-to-B-with-the-same-addend", "witness": desc, "detail": "CFI / symbolForwarding still name A"})
            if after_k != before_k or ds[2][2] is not H["K"] or ds[1][1] != [0x9B] or fw.get(H["K"]) is not H["X"] or len(fw) != 2:
                br.failures.append({"clause": "C18/every-other-entry-untouched", "witness": desc, "detail": "bystander entries changed"})
            tb = H["B"].referent
            for src, ty in ((H["main"], gtirb.EdgeType.Call), (H["retsite"], gtirb.EdgeType.Branch)):
                tg = [e.target for e in src.outgoing_edges if e.label.type == ty]
                if tg != [tb]:
                    br.failures.append({"clause": "C18/branch-and-call-edges-lead-to-B", "witness": desc, "detail": "%s edge of %#x -> %s" % (ty.name, src.address, tg)})
            kt = [e.target for e in H["site2"].outgoing_edges if e.label.type == gtirb.EdgeType.Call]
            if kt != [H["fk"]]:
                br.failures.append({"clause": "C18/every-other-entry-untouched", "witness": desc, "detail": "call K edge changed"})
            # return edges follow the calls
            if funcs and b_int and not alias:
                rb = {e.target for e in H["fb"].outgoing_edges if e.label.type == gtirb.EdgeType.Return}
                ra = {e.target for e in H["fa"].outgoing_edges if e.label.type == gtirb.EdgeType.Return} if a_int else set()
                if H["retsite"] not in rb or H["retsite"] in ra:
                    br.failures.append({"clause": "C18/return-edges-follow-the-calls", "witness": desc,
                                        "detail": "B returns to %s, A returns to %s; the call in main now targets B" % (
                                            sorted(getattr(t, "address", "proxy") or "proxy" for t in rb), sorted(getattr(t, "address", "proxy") or "proxy" for t in ra))})
            if len(br.samples) < 2:
                br.samples.append(desc)
        # ---- several retargets at once: the chain K->A, A->B (uses of K go to A, uses of A go to B), both registration orders
        for a_int, b_int, funcs, order in itertools.product((True, False), (True, False), (False, True), ((0, 1), (1, 0))):
            ir, m, H, fl = build(a_int, b_int, False, funcs)
            br.cases += 1
            distinct.add(("chain", a_int, b_int, funcs, order))
            reqs = [(H["K"], H["A"]), (H["A"], H["B"])]
            desc = {"A": "internal" if a_int else "external", "B": "code" if b_int else "external", "functions": funcs,
                    "requests in order": ["K->A, A->B", "A->B, K->A"][order[0]]}
            before = {(i.section.name, i.address + k): (e.symbol, e.offset) for i in m.byte_intervals for k, e in i.symbolic_expressions.items()}
            rc = RW.RewritingContext(m, fl)
            for j in order:
                rc.retarget_symbol_uses(*reqs[j])
            try:
                rc.apply()
            except Exception as e:
                br.failures.append({"clause": "C18/chains-are-simultaneous-substitutions", "witness": desc, "detail": "%s: %s" % (type(e).__name__, str(e)[:100])})
                continue
            sub = {id(H["K"]): H["A"], id(H["A"]): H["B"]}
            after = {(i.section.name, i.address + k): (e.symbol, e.offset) for i in m.byte_intervals for k, e in i.symbolic_expressions.items()}
            bad = []
            for pos, (sym, addend) in before.items():
                want_sym = sub.get(id(sym), sym)
                got = after.get(pos)
                if got is None or got[0] is not want_sym or got[1] != addend:
                    bad.append("%s at %s+%#x: was %s%+d, expected %s%+d, got %s" % ("expression", pos[0], pos[1], sym.name, addend, want_sym.name, addend,
                                                                                 None if got is None else "%s%+d" % (got[0].name, got[1])))
            if set(after) != set(before):
                bad.append("expressions appeared or disappeared")
            ds = list(_auxdata.cfi_directives.get(m).values())[0]
            fw = _auxdata.symbol_forwarding.get(m)
            if ds[1][2] is not H["B"] or ds[2][2] is not H["A"]:
                bad.append("CFI personality/LSDA symbols: %s / %s, expected B / A" % (getattr(ds[1][2], "name", ds[1][2]), getattr(ds[2][2], "name", ds[2][2])))
            if fw.get(H["X"]) is not H["B"] or len(fw) != 2:
                bad.append("symbolForwarding X -> %s, expected B" % getattr(fw.get(H["X"]), "name", None))
            for src, ty, tgt_sym in ((H["main"], gtirb.EdgeType.Call, H["B"]), (H["retsite"], gtirb.EdgeType.Branch, H["B"]), (H["site2"], gtirb.EdgeType.Call, H["A"])):
                tg = [e.target for e in src.outgoing_edges if e.label.type == ty]
                if tg != [tgt_sym.referent]:
                    bad.append("%s edge of the block at %#x leads to %s, expected the referent of %s" % (ty.name, src.address, tg, tgt_sym.name))
            for b in bad[:3]:
                br.failures.append({"clause": "C18/chains-are-simultaneous-substitutions", "witness": desc, "detail": b})
        br.nontrivial = len(distinct)
        return br
    return run


def jobs(tier="quick", seed=0):
    yield Job("C18/refusals", refusals_harness, kind="D", func="gtirb_rewriting.rewriting:RewritingContext.retarget_symbol_uses")
    yield Job("C18/sym_expr_access_type", access_type_harness, setup=lambda: shims.installed([RT]), kind="D", func="gtirb_rewriting._modify.retarget:_sym_expr_access_type",
              expect_cover=("classified",), replay=access_type_replay)
    yield Job("C18/retarget_out_edges", out_edges_harness, kind="E", func="gtirb_rewriting._modify.retarget:_retarget_out_edges")
    yield Job("C18/request-history", history_harness, kind="E", func="gtirb_rewriting.rewriting:RewritingContext.retarget_symbol_uses")
    for name, abi, m in abi_modules():
        yield Job("C18/rules/%s" % name, rules_table_harness(name, abi, m), kind="E", func="gtirb_rewriting.abi:%s._sym_expr_rules" % type(abi).__name__)
        yield Job("C18/sym_expr/%s" % name, sym_expr_harness(name, abi, m), setup=lambda: shims.installed([RT]), kind="D",
                  func="gtirb_rewriting._modify.retarget:_retarget_sym_expr", expect_cover=("retargeted",))
    for (isa, ff) in A._ABIS:
        for pie in ((True, False) if ff == gtirb.Module.FileFormat.ELF else (False,)):
            name = "%s-%s-%s" % (isa.name, ff.name, "pie" if pie else "nopie")
            yield Job("C18/refusals/no-referent-end-to-end/%s" % name, no_referent_harness(name, isa, ff, pie), kind="E",
                      func="gtirb_rewriting.rewriting:RewritingContext.retarget_symbol_uses", expect_cover=("control-accepted", "no-referent-request"))
    yield Job("C18/retarget-bounded", bounded(tier, seed), kind="B", func="gtirb_rewriting._modify.retarget:retarget_symbol_uses")
