"""C14 -- DWARF expression / CFI encodings round-trip and match the standard.

Functions under contract (real source, executed on symbolic operands):
  dwarf._encodable:_OpcodeEncodable.__post_init__/_validate/encode/decode/_fused_encoder/_fields_and_encoders
  dwarf._encoders:_AddToOpcodeEncoder/_ULEB128Encoder/_SLEB128Encoder/_IntEncoder/_UIntPtrEncoder .validate/.encode/.decode
  dwarf._encoders:_int_domain
Contract, per registered class C (list re-read from the registry on every run), byte order, pointer size,
for ALL operand values (symbolic integers):
  ACC/REJ  C(**x) raises ValueError  <=>  some operand is outside the range of its standard form
           x.encode(bo, ps) raises ValueError <=> some operand outside its form's range for that pointer size;
           no other exception class, no truncation
  STD      encode(x) == [first_byte + fused operand] ++ form_1(x_1) ++ ... as the standard prescribes
  RT       decode(BytesIO(encode(x) ++ tail)) == (x, len(encode(x)))    (equal object, exact consumption)
Registry (E, 256 first bytes x 2 registries): the class decode picks for a first byte is the one the
standard assigns to that byte; bytes the library does not model raise ValueError.
"""
import dataclasses
import itertools

import z3

from gtirb_rewriting.dwarf import _encodable, _encoders, cfi, expr
from gtirb_rewriting.dwarf.dwarf2 import CallFrameInstructions, ExpressionOperations

import leb128

from pyvc import core, shims
from pyvc.core import Unsupported
from pyvc.run import Job
from pyvc.sym import SymBytes, SymInt, SymReader, is_sym, mk_int, zint
from spec import dwarf_std

from pyvc.absseq import AbsSeq, PrefixMarker, represents

from . import dep_leb128

PROPERTY = "C14"
MODULES = [_encodable, _encoders, cfi, expr, leb128]


EXPRLEN = z3.Function("exprloc_len", z3.IntSort(), z3.IntSort())
EXPRBYTES = z3.Function("exprloc_bytes", z3.IntSort(), z3.ArraySort(z3.IntSort(), z3.IntSort()))
_REAL_EXPR = (cfi._ExprEncoder.encode, cfi._ExprEncoder.decode)


def _expr_encode_stub(self, value, byteorder, ptr_size):
    """contract of cfi._ExprEncoder.encode (proved in contracts/c14_expr.py): ULEB(len E) ++ E, at least one byte"""
    if isinstance(value, AbsSeq):
        n = EXPRLEN(value.sid)
        core.CUR.assume(n >= 1)
        return SymBytes.encoded(("expr", value, byteorder, ptr_size), mk_int(n), EXPRBYTES(value.sid))
    return _REAL_EXPR[0](self, value, byteorder, ptr_size)


def _expr_decode_stub(self, io, byteorder, ptr_size):
    """contract of cfi._ExprEncoder.decode: inverse of encode for the same byte order / pointer size"""
    if isinstance(io, SymReader):
        ch = io.at_chunk()
        if ch is not None and ch.kind == "enc" and ch.tag[0] == "expr":
            if (ch.tag[2], ch.tag[3]) != (byteorder, ptr_size):
                raise Unsupported("exprloc decoded with other parameters than it was encoded with")
            io.take_chunk()
            return [PrefixMarker(ch.tag[1], ch.tag[1].n)], ch.length()
    return _REAL_EXPR[1](self, io, byteorder, ptr_size)


class setup:
    def __enter__(self):
        self.a = shims.installed(MODULES)
        self.b = dep_leb128.stubs()
        self.a.__enter__()
        self.b.__enter__()
        cfi._ExprEncoder.encode = _expr_encode_stub
        cfi._ExprEncoder.decode = _expr_decode_stub
        return self

    def __exit__(self, *e):
        cfi._ExprEncoder.encode, cfi._ExprEncoder.decode = _REAL_EXPR
        self.b.__exit__(*e)
        self.a.__exit__(*e)
        return False


def registry(which):
    base, enumty = (expr.Operation, ExpressionOperations) if which == "op" else (cfi.Instruction, CallFrameInstructions)
    storage = _encodable._OpcodeEncodable._per_type_storage[enumty]
    return base, storage


def classes(which):
    base, storage = registry(which)
    seen = {}
    for k, c in sorted(storage.opcodes.items()):
        seen.setdefault(c, []).append(k)
    return base, seen


def form_of_encoder(enc):
    """library encoder object -> the standard's form name it *claims* to implement (by class), used only to
    line fields up with the spec's forms; the numeric behaviour is what gets verified."""
    return type(enc).__name__


def std_valid(forms, count, vals, ptr_size):
    cs = []
    for f, v in zip(forms, vals):
        if f == "expr":
            continue
        lo, hi = dwarf_std.form_range(f, count, ptr_size)
        if lo is not None:
            cs.append(zint(v) >= lo)
        if hi is not None:
            cs.append(zint(v) < hi)
    return z3.And(cs + [z3.BoolVal(True)])


def std_fixed_bytes_ok(bs, v, n, signed, byteorder):
    """`bs` (list of n byte terms) is the fixed-size encoding of v: two's complement, given byte order"""
    vt = zint(v)
    u = z3.If(vt < 0, vt + (1 << (8 * n)), vt) if signed else vt
    ds = [zint(b) for b in bs]
    if byteorder == "big":
        ds = ds[::-1]
    return z3.And([z3.And(d >= 0, d < 256) for d in ds] + [u == z3.Sum([d * (1 << (8 * i)) for i, d in enumerate(ds)])])


def check_std(ctx, tag, enc, first_byte_base, count, forms, vals, byteorder, ptr_size):
    """enc (rope) equals the standard's encoding; returns False if the structure cannot even be compared"""
    chunks = list(enc.chunks)
    # flatten the rope into a cursor
    pos = [0, 0]

    def take_lit(n):
        out = []
        while n > 0:
            if pos[0] >= len(chunks) or chunks[pos[0]].kind != "lit":
                return None
            c = chunks[pos[0]]
            t = c.elems[pos[1]:pos[1] + n]
            out += t
            n -= len(t)
            pos[1] += len(t)
            if pos[1] >= len(c.elems):
                pos[0] += 1
                pos[1] = 0
        return out

    fb = take_lit(1)
    if fb is None:
        ctx.fail(tag + "/STD/first-byte", "encoding does not start with a literal opcode byte")
        return
    fused = vals[0] if forms and forms[0] == "fused" else 0
    ctx.prove(tag + "/STD/first-byte", zint(fb[0]) == first_byte_base + zint(fused))
    for f, v in zip(forms, vals):
        if f == "fused":
            continue
        if f in dwarf_std.FIXED or f == "addr":
            n, signed = dwarf_std.FIXED[f] if f != "addr" else (ptr_size, False)
            bs = take_lit(n)
            if bs is None:
                ctx.fail(tag + "/STD/operand-%s" % f, "operand is not %d literal bytes" % n)
                return
            ctx.prove(tag + "/STD/operand-%s" % f, std_fixed_bytes_ok(bs, v, n, signed, byteorder))
        elif f in ("uleb", "sleb"):
            if pos[1] != 0 or pos[0] >= len(chunks) or chunks[pos[0]].kind != "enc":
                ctx.fail(tag + "/STD/operand-%s" % f, "operand is not a LEB128 chunk")
                return
            c = chunks[pos[0]]
            pos[0] += 1
            ctx.prove(tag + "/STD/operand-%s" % f, z3.BoolVal(c.tag[0] == f) if not is_sym(c.tag[1]) and not is_sym(v)
                      else z3.And(z3.BoolVal(c.tag[0] == f), zint(c.tag[1]) == zint(v)))
        elif f == "expr":
            if pos[1] != 0 or pos[0] >= len(chunks) or chunks[pos[0]].kind != "enc" or chunks[pos[0]].tag[0] != "expr":
                ctx.fail(tag + "/STD/operand-expr", "operand is not an exprloc chunk")
                return
            c = chunks[pos[0]]
            pos[0] += 1
            ctx.prove(tag + "/STD/operand-expr", z3.BoolVal(c.tag[1] is v and (c.tag[2], c.tag[3]) == (byteorder, ptr_size)))
        else:
            raise Unsupported("form " + f)
    ctx.prove(tag + "/STD/no-trailing-bytes", z3.BoolVal(pos[0] >= len(chunks)))


ENC2FORMS = {
    "_AddToOpcodeEncoder": {"fused"},
    "_ULEB128Encoder": {"uleb"},
    "_SLEB128Encoder": {"sleb"},
    "_UIntPtrEncoder": {"addr"},
    "_ExprEncoder": {"expr"},
}


def make_class_harness(which, cls, first_bytes, byteorder, ptr_size):
    base, storage = registry(which)
    std = dwarf_std.table(which)
    fes = list(cls._fields_and_encoders())
    names = [f.name for f, _ in fes]

    def harness(ctx):
        tag = cls.__name__
        # what the standard says about this first byte
        fb0 = first_bytes[0]
        if fb0 not in std:
            ctx.fail(tag + "/REG/modelled-by-standard", "first byte %#x is not assigned by the standard" % fb0)
            return
        sname, sbase, scount, sforms = std[fb0]
        ctx.prove(tag + "/REG/first-bytes", z3.BoolVal(list(first_bytes) == list(range(sbase, sbase + scount))))
        ctx.prove(tag + "/REG/operand-count", z3.BoolVal(len(sforms) == len(fes)))
        if len(sforms) != len(fes):
            return
        vals = [AbsSeq(ctx, "x_" + n) if f == "expr" else SymInt(ctx.int("x_" + n)) for n, f in zip(names, sforms)]
        # ---- construction
        try:
            obj = cls(**dict(zip(names, vals)))
        except ValueError:
            ctx.cover("ctor-rejects")
            ctx.prove(tag + "/REJ/ctor-rejects-only-unrepresentable", z3.Not(std_valid(sforms, scount, vals, None)))
            return
        ctx.cover("ctor-accepts")
        ctx.prove(tag + "/ACC/ctor-accepts-only-representable", std_valid(sforms, scount, vals, None))
        # ---- encode
        try:
            enc = obj.encode(byteorder, ptr_size)
        except ValueError:
            ctx.cover("encode-rejects")
            ctx.prove(tag + "/REJ/encode-rejects-only-unrepresentable", z3.Not(std_valid(sforms, scount, vals, ptr_size)))
            return
        except (OverflowError, AssertionError, TypeError, KeyError, IndexError) as e:
            ctx.fail(tag + "/REJ/encode-raises-only-ValueError", "raised %s" % type(e).__name__)
            return
        ctx.cover("encode-ok")
        ctx.prove(tag + "/ACC/encode-accepts-only-representable", std_valid(sforms, scount, vals, ptr_size))
        enc = SymBytes.of(enc)
        ctx.prove(tag + "/STD/at-least-the-opcode-byte", enc.zlen() >= 1)
        check_std(ctx, tag, enc, sbase, scount, sforms, vals, byteorder, ptr_size)
        # ---- decode(encode(x) ++ tail)
        tail = SymBytes.sym(SymInt(ctx.int("tail_len")), ctx.array("tail"))
        ctx.assume(tail.zlen() >= 0)
        rd = SymReader(enc.concat(tail))
        try:
            dobj, nread = base.decode(rd, byteorder, ptr_size)
        except Exception as e:
            if isinstance(e, (Unsupported, core.PathEnd, core.PathInfeasible, core.EngineError)):
                raise
            ctx.fail(tag + "/RT/decode-does-not-raise", "raised %s: %s" % (type(e).__name__, str(e)[:80]))
            return
        ctx.cover("decode-ok")
        ctx.prove(tag + "/RT/same-class", z3.BoolVal(type(dobj) is cls))
        if type(dobj) is cls:
            ctx.prove(tag + "/RT/equal-operands", z3.And([
                represents(getattr(dobj, n), v, v.n) if isinstance(v, AbsSeq) else zint(getattr(dobj, n)) == zint(v)
                for n, v in zip(names, vals)] + [z3.BoolVal(True)]))
        ctx.prove(tag + "/RT/consumes-exactly-its-bytes", zint(nread) == enc.zlen())
        ctx.prove(tag + "/RT/reader-position", zint(rd.consumed) == enc.zlen())
        # ---- the SAME object encoded again, for the other pointer size: validation is part of every encode, not of the first one
        other_ps = 4 if ptr_size == 8 else 8
        try:
            obj.encode(byteorder, other_ps)
            again = "ok"
        except ValueError:
            again = "ValueError"
        except (OverflowError, AssertionError, TypeError, KeyError, IndexError) as e:
            ctx.fail(tag + "/REJ/second-encode-raises-only-ValueError", "raised %s" % type(e).__name__)
            return
        ctx.cover("second-encode")
        ok2 = std_valid(sforms, scount, vals, other_ps)
        ctx.prove(tag + "/ACC/every-encode-validates-for-its-own-pointer-size", ok2 if again == "ok" else z3.Not(ok2))

    return harness


def replay_class(which, cls, byteorder, ptr_size):
    base, _ = registry(which)
    names = [f.name for f, _ in cls._fields_and_encoders()]
    std = dwarf_std.table(which)

    def replay(clause, model):
        import io
        if "/REG/" in clause:
            # registry clauses are statements about concrete tables: recompute them natively
            regd = sorted(k for k, c in registry(which)[1].opcodes.items() if c is cls)
            fb = regd[0] if regd else None
            ent = std.get(fb)
            want = list(range(ent[1], ent[1] + ent[2])) if ent else None
            nf = len(list(cls._fields_and_encoders()))
            bad = (regd != want) if "first-bytes" in clause else (ent is None or len(ent[3]) != nf)
            return {"class": cls.__name__, "confirmed": bool(bad), "observed": "first bytes registered for decoding: %s" % (["%#x" % b for b in regd[:3]] + ["..."] + ["%#x" % b for b in regd[-2:]] if len(regd) > 5 else ["%#x" % b for b in regd]),
                    "expected": "the standard's range %s..%s" % (("%#x" % want[0], "%#x" % want[-1]) if want else (None, None))}
        vals = {}
        pool = [expr.OpDup(), expr.OpLit(5), expr.OpConst2S(-2), expr.OpBReg(3, -9), expr.OpConstU(300)]
        for (fld, e) in cls._fields_and_encoders():
            n = fld.name
            if type(e).__name__ == "_ExprEncoder":
                k = [key for key in model if key.startswith("x_" + n + "_len!")]
                cnt = min(model[k[0]] if k else 1, 40)
                vals[n] = [pool[i % len(pool)] for i in range(cnt)]
                continue
            k = [key for key in model if key.startswith("x_" + n + "!")]
            vals[n] = model[k[0]] if k else 0
        tail = b"\x00\x01"
        info = {"class": cls.__name__, "byteorder": byteorder, "ptr_size": ptr_size, "operands": vals}
        fb0 = min(k for k, c in registry(which)[1].opcodes.items() if c is cls)
        sname, sbase, scount, sforms = std.get(fb0, (None, None, None, None))
        try:
            obj = cls(**vals)
        except ValueError as e:
            ok = sforms is not None and not _native_valid(sforms, scount, list(vals.values()), None)
            return dict(info, confirmed=not ok, observed="ctor ValueError: %s" % e, expected="accepted" if not ok else "rejected")
        except Exception as e:
            return dict(info, confirmed=True, observed="ctor raised %s" % type(e).__name__)
        try:
            enc = bytes(obj.encode(byteorder, ptr_size))
        except ValueError as e:
            ok = not _native_valid(sforms, scount, list(vals.values()), ptr_size)
            return dict(info, confirmed=not ok, observed="encode ValueError: %s" % e)
        except Exception as e:
            return dict(info, confirmed=True, observed="encode raised %s: %s" % (type(e).__name__, e))
        if not _native_valid(sforms, scount, list(vals.values()), ptr_size):
            return dict(info, confirmed=True, observed="accepted unrepresentable operands, bytes=%s" % enc.hex())
        want = _native_std(sbase, scount, sforms, list(vals.values()), byteorder, ptr_size)
        if enc != want:
            return dict(info, confirmed=True, observed=enc.hex(), expected=want.hex())
        try:
            d, n = base.decode(io.BytesIO(enc + tail), byteorder, ptr_size)
        except Exception as e:
            return dict(info, confirmed=True, observed="decode raised %s: %s" % (type(e).__name__, e))
        if d != obj or n != len(enc) or type(d) is not cls:
            return dict(info, confirmed=True, observed="decode -> %r, %d" % (d, n), expected="%r, %d" % (obj, len(enc)))
        other_ps = 4 if ptr_size == 8 else 8
        want2 = _native_valid(sforms, scount, list(vals.values()), other_ps)
        try:
            obj.encode(byteorder, other_ps)
            got2 = True
        except ValueError:
            got2 = False
        except Exception as e:
            return dict(info, confirmed=True, observed="second encode (pointer size %d) raised %s: %s" % (other_ps, type(e).__name__, e))
        if got2 != want2:
            return dict(info, confirmed=True, observed="second encode for pointer size %d %s" % (other_ps, "accepted" if got2 else "rejected"), expected="accepted" if want2 else "rejected")
        return dict(info, confirmed=False, observed="native run satisfies the contract")

    return replay


def _native_valid(forms, count, vals, ptr_size):
    for f, v in zip(forms, vals):
        if f == "expr":
            continue
        lo, hi = dwarf_std.form_range(f, count, ptr_size)
        if (lo is not None and v < lo) or (hi is not None and v >= hi):
            return False
    return True


def _native_std(base, count, forms, vals, byteorder, ptr_size):
    out = [base + (vals[0] if forms and forms[0] == "fused" else 0)]
    for f, v in zip(forms, vals):
        if f == "fused":
            continue
        if f in dwarf_std.FIXED:
            n, s = dwarf_std.FIXED[f]
            out += dwarf_std.fixed(v, n, s, byteorder)
        elif f == "addr":
            out += dwarf_std.fixed(v, ptr_size, False, byteorder)
        elif f == "uleb":
            out += dwarf_std.uleb(v)
        elif f == "sleb":
            out += dwarf_std.sleb(v)
        elif f == "expr":
            e = b"".join(bytes(o.encode(byteorder, ptr_size)) for o in v)     # operations are proved separately
            out += dwarf_std.uleb(len(e)) + list(e)
    return bytes(out)


def registry_harness(which):
    """E: all 256 first bytes -- modelled by the library <=> ... we only require: every byte the library accepts is
    assigned by the standard to an operation with the same number of operands, and a byte it does not model raises
    ValueError from decode (never another class, never a wrong class)."""
    base, storage = registry(which)
    std = dwarf_std.table(which)

    def harness(ctx):
        import io
        for b in range(256):
            cls = storage.opcodes.get(b)
            if cls is None:
                try:
                    base.decode(io.BytesIO(bytes([b]) + b"\x00" * 16), "little", 8)
                    ctx.fail("REG/%s/unmodelled-byte-raises-ValueError" % which, "byte %#x decoded" % b)
                except ValueError:
                    ctx.prove("REG/%s/unmodelled-byte-raises-ValueError" % which, z3.BoolVal(True))
                except Exception as e:
                    ctx.fail("REG/%s/unmodelled-byte-raises-ValueError" % which, "byte %#x raised %s" % (b, type(e).__name__))
            else:
                ctx.prove("REG/%s/modelled-byte-assigned-by-standard" % which, z3.BoolVal(b in std), note="byte %#x" % b)

    return harness


def pointer_size_history_harness(ctx):
    """the codecs are shared objects (one encoder per field of a class, for the whole process): what they accept depends on the byte order and
    pointer size OF THE CALL, never on those of an earlier call.  The pointer-size dependent operation (DW_OP_addr), alone and nested in a
    CFA expression, asked about 8, then 4, then 8 again (and the other way round): each answer is the one its own pointer size demands."""
    import io
    from gtirb_rewriting.dwarf import cfi as CFI, expr as EX
    bo = ["little", "big"][ctx.choose(2, "byteorder")]
    order = [(8, 4, 8), (4, 8, 4)][ctx.choose(2, "order-of-pointer-sizes")]
    nested = bool(ctx.choose(2, "nested-in-a-CFA-expression"))
    bad = []

    def enc(value, ps):
        obj = CFI.InstDefCFAExpression([EX.OpAddr(value)]) if nested else EX.OpAddr(value)
        return bytes(obj.encode(bo, ps))
    for ps in order:
        top = 1 << (8 * ps)
        for value, ok in ((0, True), (top - 1, True), (top, False), (1 << 31, True), ((1 << 32) + 5, ps == 8), (-1, False)):
            try:
                data = enc(value, ps)
                if not ok:
                    bad.append("pointer size %d accepted %#x" % (ps, value))
                    continue
                body = data[-ps:]
                if int.from_bytes(body, bo) != value:
                    bad.append("pointer size %d: %#x encoded as %s" % (ps, value, data.hex()))
                cls = CFI.Instruction if nested else EX.Operation
                back, nread = cls.decode(io.BytesIO(data + b"\x00\x01"), bo, ps)
                want = CFI.InstDefCFAExpression([EX.OpAddr(value)]) if nested else EX.OpAddr(value)
                if back != want or nread != len(data):
                    bad.append("pointer size %d: %#x decodes as %r (%d of %d bytes)" % (ps, value, back, nread, len(data)))
            except ValueError:
                if ok:
                    bad.append("pointer size %d refused %#x" % (ps, value))
            except Exception as ex:     # noqa
                bad.append("pointer size %d, %#x: %s instead of ValueError" % (ps, value, type(ex).__name__))
    ctx.cover("enumerated")
    ctx.prove("codec/pointer-size-of-THIS-call-decides-what-DW_OP_addr-accepts-and-how-it-is-laid-out", z3.BoolVal(not bad), note="%s, sizes asked in order %s%s: %s" % (
        bo, order, ", nested" if nested else "", "; ".join(bad[:3])))


def decode_history_harness(which):
    """decoding is a function of the BYTES: what an earlier decode (in this process) returned has no influence on a later one.  Every first
    byte the library models is decoded right after every other first byte OF THE SAME CLASS (the fused-operand ranges: DW_OP_lit0..31,
    reg0..31, breg0..31, DW_CFA_advance_loc / offset / restore carry the operand in the opcode byte) and right after one byte of another
    class; the object must equal the one a decode with no history returns for these bytes, and consume as many bytes."""
    def harness(ctx):
        import io
        base, storage = registry(which)
        bo = ["little", "big"][ctx.choose(2, "byteorder")]
        tail = bytes(range(1, 17))
        by_cls = {}
        for b, c in sorted(storage.opcodes.items()):
            by_cls.setdefault(c, []).append(b)

        def dec(b):
            try:
                obj, n = base.decode(io.BytesIO(bytes([b]) + tail), bo, 8)
                return ("ok", repr(obj), n)
            except Exception as ex:     # noqa
                return ("exc", type(ex).__name__)
        # two references: the same bytes decoded again after a decode of ANOTHER class, and the standard's rule for fused operands
        # (the operand carried by the opcode byte is its distance from the first byte of the range)
        bad = []
        pairs = 0
        for c, bs in by_cls.items():
            other = next(b for k, v in by_cls.items() if k is not c for b in v)
            for b1 in bs + [other]:
                for b2 in bs:
                    pairs += 1
                    dec(b1)
                    got = dec(b2)
                    dec(other)
                    again = dec(b2)
                    if got != again:
                        bad.append("%s: byte %#x decodes as %s after %#x and as %s after %#x" % (c.__name__, b2, got, b1, again, other))
                    if len(bs) > 1 and got[0] == "ok":
                        # fused range: the operand carried by the opcode byte is the distance from the first byte of the range
                        want = b2 - bs[0]
                        import dataclasses
                        obj, _ = base.decode(io.BytesIO(bytes([b2]) + tail), bo, 8)
                        first = getattr(obj, dataclasses.fields(obj)[0].name) if dataclasses.fields(obj) else None
                        if first != want:
                            bad.append("%s: byte %#x (offset %d in its range) decoded after %#x carries operand %r" % (c.__name__, b2, want, b1, first))
        ctx.cover("enumerated")
        ctx.prove("codec/%s/decode-is-a-function-of-the-bytes-whatever-was-decoded-before" % which, z3.BoolVal(not bad), note="%s, %d ordered pairs: %s" % (bo, pairs, "; ".join(bad[:3])))
        ctx.prove("codec/%s/decode-history-enumeration-is-not-vacuous" % which, z3.BoolVal(pairs > 500 and any(len(v) > 1 for v in by_cls.values())))
    return harness


def jobs(tier="quick", seed=0):
    for which in ("op", "cfa"):
        yield Job("C14/decode-history/" + which, decode_history_harness(which), kind="E", func="gtirb_rewriting.dwarf._encodable:_OpcodeEncodable.decode (decoding keeps no state)", expect_cover=("enumerated",))
    yield Job("C14/pointer-size-history", pointer_size_history_harness, kind="E", func="gtirb_rewriting.dwarf._encoders:_UIntPtrEncoder (shared encoder objects keep no state)", expect_cover=("enumerated",))
    for which in ("op", "cfa"):
        base, seen = classes(which)
        yield Job("C14/registry/%s" % which, registry_harness(which), kind="E",
                  func="gtirb_rewriting.dwarf._encodable:_OpcodeEncodable.decode")
        for cls, fbs in seen.items():
            for bo in ("little", "big"):
                for ps in (4, 8):
                    yield Job("C14/codec/%s/%s/%s/%d" % (which, cls.__name__, bo, ps),
                              make_class_harness(which, cls, fbs, bo, ps), setup=setup,
                              replay=replay_class(which, cls, bo, ps), kind="D",
                              func="gtirb_rewriting.dwarf._encodable:_OpcodeEncodable.encode/decode/_validate",
                              expect_cover=("encode-ok", "decode-ok"), timeout_ms=20000 if tier == "quick" else 120000)
