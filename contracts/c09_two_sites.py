"""C09 -- jobs added for the wave-11 seeds (two cooperating sites); see the docstring of each job

C09/label-sliding/delete-histories (E)      real _modify.delete under the real make_modify_cache / prepare_for_rewriting
C09/label-sliding/later-patch-bounded (B)   RewritingContext.apply: whole-block deletions + a later patch that names the label

Dimension the older jobs did not vary: WHICH blocks of a run of adjacent deleted blocks carry a label of their own.  In bounded/scen.py
every block has its own symbol, so a block whose only references are the ones it INHERITED (inside the same apply(), i.e. held
indirectly by the ReferenceCache) from a neighbour removed before it never got removed itself.  Here every block of a chain is, independently,
without label / labelled at its start / labelled at its start and at its end, every non-empty set of chain blocks is deleted in address order
(optionally one of the deletions with retarget_to_proxy), and the caches are looked at through their public queries at every intermediate step.
"""
import itertools
import logging

import gtirb
import gtirb_functions
import z3
from gtirb_test_helpers import add_code_block, add_edge, add_function, add_proxy_block, add_symbol, add_text_section, create_test_module

from gtirb_rewriting import rewriting as RW
from gtirb_rewriting._modify import delete as REAL_DELETE
from gtirb_rewriting._modify.cache import make_modify_cache
from gtirb_rewriting.prepare import prepare_for_rewriting

from pyvc.run import BResult, Job

NCHAIN = 3                     # c0..c2 can be deleted; c3 = [ret] ends the function and stays; v = [nop; ret] is another function
LABEL_STATES = ("none", "start", "start+end")


def label_layouts():
    """per chain block: no label of its own / a label at its start / labels at its start and at its end.  All layouts over
    {none, start} and all layouts over {none, start+end} (the mixed ones add nothing: a block's own labels are handled one by one)"""
    seen = []
    for states in (("none", "start"), ("none", "start+end")):
        for lay in itertools.product(states, repeat=NCHAIN):
            if lay not in seen:
                seen.append(lay)
    return seen


# ------------------------------------------------------------------------------------------------ the module family
def build(labels, funcs):
    """f: c0 [push %rax] -> c1 [push %rcx] -> c2 [push %rdx] -> c3 [ret]      other: v [nop; ret]
    labels[i] in LABEL_STATES says what c<i> carries itself: nothing / L<i> at its start / L<i> at its start and E<i> at its end.
    With function information c0 additionally carries the function's name f (functionNames needs a symbol)."""
    ir, m = create_test_module(gtirb.Module.FileFormat.ELF, gtirb.Module.ISA.X64)
    _, bi = add_text_section(m, address=0x1000)
    B = {}
    for i in range(NCHAIN):
        B["c%d" % i] = add_code_block(bi, bytes([0x50 + i]))
    B["c%d" % NCHAIN] = add_code_block(bi, b"\xc3")
    B["v"] = add_code_block(bi, b"\x90\xc3")
    for i, st in enumerate(labels):
        if st != "none":
            add_symbol(m, "L%d" % i, B["c%d" % i])
        if st == "start+end":
            add_symbol(m, "E%d" % i, B["c%d" % i]).at_end = True
    other = add_symbol(m, "other", B["v"])
    for i in range(NCHAIN):
        add_edge(ir.cfg, B["c%d" % i], B["c%d" % (i + 1)], gtirb.EdgeType.Fallthrough)
    add_edge(ir.cfg, B["c%d" % NCHAIN], add_proxy_block(m), gtirb.EdgeType.Return)
    add_edge(ir.cfg, B["v"], add_proxy_block(m), gtirb.EdgeType.Return)
    if funcs:
        f = add_symbol(m, "f", B["c0"])
        add_function(m, f, B["c0"], {B["c%d" % i] for i in range(1, NCHAIN + 1)})
        add_function(m, other, B["v"])
    return ir, m, B


def functions_of(m, funcs):
    return gtirb_functions.Function.build_functions(m) if funcs else []


class Namer:
    """UUID-free names: the blocks of the family keep their identity through deletions (nothing is split), so a block is named by
    the role it was built in; a block that left the module says so; proxies are anonymous"""

    def __init__(self, B):
        self.names = {id(b): n for n, b in B.items()}

    def __call__(self, node):
        if node is None:
            return "none"
        if isinstance(node, gtirb.ProxyBlock):
            return "proxy" if node.module is not None else "DETACHED proxy"
        n = self.names.get(id(node), "new-block")
        return n if node.byte_interval is not None and node.module is not None else "DETACHED " + n


def symbol_state(m, name_of):
    """what the IR itself says: symbol -> (referent, at_end); only meaningful when no reference is held indirectly (outside a context)"""
    return {s.name: (name_of(s.referent), bool(s.at_end)) for s in m.symbols}


def module_signature(ir, m, name_of):
    sig = {"symbols": sorted(symbol_state(m, name_of).items()),
           "edges": sorted((name_of(e.source), name_of(e.target), e.label.type.name if e.label else "-", bool(e.label and e.label.conditional)) for e in ir.cfg),
           "blocks": [(name_of(b), bytes(b.contents).hex()) for b in sorted(m.byte_blocks, key=lambda b: (b.address, b.size != 0))]}
    for tab in ("functionBlocks", "functionEntries"):
        if tab in m.aux_data:
            names = m.aux_data["functionNames"].data
            sig[tab] = sorted((names[u].name if u in names else "?", sorted(name_of(b) for b in bs)) for u, bs in m.aux_data[tab].data.items())
    return sig


def deletion_plans():
    """every non-empty set of chain blocks, in address order; the last deletion with and without retarget_to_proxy (a proxy deletion
    earlier in the plan takes the labels out of the chain: nothing slides any further)"""
    for r in range(1, NCHAIN + 1):
        for combo in itertools.combinations(range(NCHAIN), r):
            yield [(i, False) for i in combo]
            yield [(i, k == r - 1) for k, i in enumerate(combo)]


def one_at_a_time(labels, funcs, plan):
    """the property's reference: one context per deletion, in address order.  Returns the symbol state after every step (all references
    are direct between contexts: this is the IR itself) and the final signature."""
    ir, m, B = build(labels, funcs)
    name_of = Namer(B)
    states = [symbol_state(m, name_of)]
    for i, proxy in plan:
        with prepare_for_rewriting(m, b"\x90"), make_modify_cache(m, functions_of(m, funcs)) as cache:
            b = B["c%d" % i]
            REAL_DELETE(cache, b, 0, b.size, proxy)
        states.append(symbol_state(m, name_of))
    return states, module_signature(ir, m, name_of)


def batch(labels, funcs, plan, observe_after=None, how=None):
    """all deletions in ONE context (what apply() does).  After `observe_after` deletions the caches are asked, through their public
    queries only, where every symbol is (how = 'get_referent') or which symbols every live block has (how = 'get_references',
    'get_references-first': the generator abandoned after its first symbol); the run then goes on to the end.
    Returns (observation, final signature)."""
    ir, m, B = build(labels, funcs)
    name_of = Namer(B)
    seen = None
    with prepare_for_rewriting(m, b"\x90"), make_modify_cache(m, functions_of(m, funcs)) as cache:
        for k, (i, proxy) in enumerate(plan):
            if observe_after == k:
                seen = observe(cache, m, name_of, how)
            b = B["c%d" % i]
            REAL_DELETE(cache, b, 0, b.size, proxy)
        if observe_after == len(plan):
            seen = observe(cache, m, name_of, how)
    return seen, module_signature(ir, m, name_of)


def observe(cache, m, name_of, how):
    rc = cache.reference_cache
    if how == "get_referent":
        out = {}
        for s in sorted(m.symbols, key=lambda s: s.name):
            r = rc.get_referent(s)
            out[s.name] = (name_of(r), bool(s.at_end))
        return out
    out = {}
    nodes = sorted(list(m.byte_blocks) + list(m.proxies), key=lambda n: (name_of(n), str(n.uuid)))
    for n in nodes:
        g = rc.get_references(n)
        if how == "get_references-first":
            syms = [x for x in [next(g, None)] if x is not None]
        else:
            syms = list(g)
        for s in syms:
            out.setdefault(s.name, []).append((name_of(n), name_of(s.referent), bool(s.at_end)))
    return out


# ------------------------------------------------------------------------------------------------ E: delete histories
C_REF = "C09/label-sliding/get_referent-at-every-step-is-where-one-at-a-time-application-puts-the-symbol"
C_REFS = "C09/label-sliding/get_references-at-every-step-yields-exactly-the-symbols-one-at-a-time-application-gives-the-block"
C_LIVE = "C09/label-sliding/no-symbol-is-reported-on-a-block-that-left-the-module"
C_OBS = "C09/label-sliding/asking-the-caches-in-mid-rewrite-does-not-change-the-result"
C_EQ = "C09/label-sliding/batch-equals-one-at-a-time"
C_RUN = "C09/label-sliding/batch-applies-iff-one-at-a-time-does"


def _diff(a, b):
    if isinstance(a, dict) and isinstance(b, dict):
        ks = sorted(k for k in set(a) | set(b) if a.get(k) != b.get(k))
        return "; ".join("%s: %s, one at a time %s" % (k, a.get(k), b.get(k)) for k in ks[:3])
    return "%s, one at a time %s" % (a, b)


def delete_histories_harness(ctx):
    """E, on the real _modify.delete / remove_block / ReferenceCache under the real make_modify_cache and prepare_for_rewriting.

    Universe: the family of build(): the label layouts of label_layouts() (15; with function information the 8 layouts over none / start)
    x every non-empty set of chain blocks deleted whole, in address order, the last one with and without retarget_to_proxy (14 plans).
    For each member
      * the reference run applies the deletions one at a time, each in its own context (property text); between contexts every
        reference is direct, so the reference's symbol table after k deletions IS the IR's answer at step k;
      * the batch run applies them in one context; it is repeated once per step k = 1..n and per public query (get_referent of every
        symbol / get_references of every live block; before the last deletion also get_references abandoned after its first symbol),
        asking after k deletions in an otherwise undisturbed run: the answers have to be the reference's state at step k (never a block
        that left the module), and -- the caches being transparent -- the run continued to the end has to give the reference's final
        module whatever was asked on the way."""
    logging.getLogger("gtirb_rewriting").setLevel(logging.CRITICAL)
    plans = list(deletion_plans())
    nruns = 0
    chains_of_inherited_only = 0
    layouts = label_layouts()
    members = [(False, lay) for lay in layouts] + [(True, lay) for lay in layouts if "start+end" not in lay]
    for funcs, labels in members:
        bad = {}

        def note(clause, plan, extra, detail):
            bad.setdefault(clause, "labels %s funcs=%s delete %s%s: %s" % (list(labels), funcs, ["c%d%s" % (i, "->proxy" if p else "") for i, p in plan], extra, detail))
        for plan in plans:
            try:
                states, final = one_at_a_time(labels, funcs, plan)
                rexc = None
            except Exception as ex:      # noqa
                rexc = ex
            try:
                _, bfinal = batch(labels, funcs, plan)
                bexc = None
            except Exception as ex:      # noqa
                bexc = ex
            nruns += 2
            if rexc or bexc:
                if bool(rexc) != bool(bexc):
                    note(C_RUN, plan, "", "batch %s / one at a time %s" % (type(bexc).__name__ if bexc else "ok", type(rexc).__name__ if rexc else "ok"))
                continue
            # a block deleted right after its deleted predecessor while it carries no label of its own and something slid into it
            for (i, _), (j, _) in zip(plan, plan[1:]):
                if j == i + 1 and labels[j] == "none" and (labels[i] != "none" or (funcs and i == 0)):
                    chains_of_inherited_only += 1
            if bfinal != final:
                note(C_EQ, plan, "", _diff(dict((k, v) for k, v in bfinal.items()), dict((k, v) for k, v in final.items())))
            for k in range(1, len(plan) + 1):
                want = states[k]
                for how in ("get_referent", "get_references") + (("get_references-first",) if k == len(plan) - 1 else ()):
                    nruns += 1
                    at = " [%s after %d deletion(s)]" % (how, k)
                    try:
                        seen, ofinal = batch(labels, funcs, plan, k, how)
                    except Exception as ex:      # noqa
                        note(C_OBS, plan, at, "%s: %s" % (type(ex).__name__, str(ex)[:80]))
                        continue
                    if how == "get_referent":
                        if seen != want:
                            note(C_REF, plan, at, _diff(seen, want))
                        if any(v[0].startswith("DETACHED") for v in seen.values()):
                            note(C_LIVE, plan, at, str({n: v for n, v in seen.items() if v[0].startswith("DETACHED")}))
                    else:
                        # every yielded symbol is yielded once, by the block it is on in the reference, and is direct on that block
                        flat = {n: v for n, v in seen.items()}
                        wrong = {n: v for n, v in flat.items() if len(v) != 1 or v[0][0] != want[n][0] or (v[0][1], v[0][2]) != want[n]}
                        if how == "get_references" and set(flat) != set(want):
                            wrong.update({n: "not yielded by any live block" for n in set(want) - set(flat)})
                        if wrong:
                            n0 = sorted(wrong)[0]
                            note(C_REFS, plan, at, "%s: %s, one at a time %s" % (n0, wrong[n0], want[n0]))
                        if any(x[0].startswith("DETACHED") or x[1].startswith("DETACHED") for v in flat.values() for x in v):
                            note(C_LIVE, plan, at, str(flat))
                    if ofinal != final:
                        note(C_OBS, plan, at, _diff(ofinal, final))
        for c in (C_RUN, C_EQ, C_REF, C_REFS, C_LIVE, C_OBS):
            ctx.prove(c, z3.BoolVal(c not in bad), note=bad.get(c, ""))
    ctx.prove("C09/label-sliding/enumeration-is-not-vacuous",
              z3.BoolVal(len(plans) == 14 and len(members) == 23 and nruns >= 23 * 14 * 4 and chains_of_inherited_only >= 40),
              note="%d plans, %d members, %d runs, %d adjacent deletions into a block that has only inherited labels" % (len(plans), len(members), nruns, chains_of_inherited_only))
    ctx.cover("enumerated")


# ------------------------------------------------------------------------------------------------ B: a later patch names the label
PATCH_KINDS = {"jmp": "jmp %s", "call": "call %s\nnop", "jcc": "je %s\nnop", "lea": "leaq %s(%%rip), %%rax"}


def later_patch_bounded(tier, seed):
    """B, apply() level (quantifier case of C09: a later patch names, branches to or calls a label whose block an earlier modification
    deleted).  The family of build() restricted to label states none / start (at least one label), every non-empty set of chain blocks
    deleted whole (no proxy), and ONE patch inserted behind them (into c3, the rest of the same function, or into v, another function)
    that jumps to / calls / conditionally jumps to / takes the address of one of the labels.  Batch = one apply(); one at a time = one
    context per modification in address order.  Clauses: same module; the patch's branch / call edge leads to the block the label is on
    after the rewrite, which is a block of the module."""
    def run():
        from bounded import scen
        logging.getLogger("gtirb_rewriting").setLevel(logging.CRITICAL)
        br = BResult()
        br.bound = ("chain c0 c1 c2 [ret] + other function; every chain block with / without a label of its own (>= 1 label), with / without function "
                    "information; every non-empty set of chain blocks deleted whole; one patch (jmp / call / je / lea of one of the labels) "
                    "inserted into the function's last block or into the other function; batch vs one context per modification")
        br.clauses = ["C09/later-patch/batch-applies-iff-one-at-a-time-does", "C09/later-patch/batch-equals-one-at-a-time",
                      "C09/later-patch/edge-of-the-patch-leads-to-the-live-block-the-label-is-on"]
        kinds = list(PATCH_KINDS)
        sites = ("c%d" % NCHAIN, "v")
        n = 0
        for labels in itertools.product(("none", "start"), repeat=NCHAIN):
            names = ["L%d" % i for i, st in enumerate(labels) if st != "none"]
            for r in range(1, NCHAIN + 1):
                for combo in itertools.combinations(range(NCHAIN), r):
                    for target in names:
                        for funcs in (False, True):
                            # the patch vocabulary and the insertion site are rotated over the cases instead of crossed with them (every
                            # kind and site meets every deletion set and label layout several times)
                            c = n // 2                      # (the same patch and site with and without function information)
                            kind, site = kinds[c % len(kinds)], sites[(c // len(kinds) + c) % 2]
                            n += 1
                            desc = {"own labels": list(labels), "function information": funcs, "delete": ["c%d" % i for i in combo],
                                    "patch": PATCH_KINDS[kind] % target, "inserted at the start of": site}

                            def go(one_context):
                                ir, m, B = build(labels, funcs)
                                name_of = Namer(B)
                                mods = [("del", "c%d" % i) for i in combo] + [("ins", site)]
                                groups = [mods] if one_context else [[x] for x in mods]
                                try:
                                    for g in groups:
                                        rc = RW.RewritingContext(m, functions_of(m, funcs))
                                        for op, bn in g:
                                            if op == "del":
                                                rc.delete_at(B[bn], 0, B[bn].size)
                                            else:
                                                rc.insert_at(B[bn], 0, scen.mkpatch(PATCH_KINDS[kind] % target))
                                        rc.apply()
                                except Exception as ex:      # noqa
                                    return "%s: %s" % (type(ex).__name__, str(ex)[:80]), None
                                sig = module_signature(ir, m, name_of)
                                sym = [s for s in m.symbols if s.name == target][0]
                                want_type = {"jmp": "Branch", "jcc": "Branch", "call": "Call"}.get(kind)
                                problem = None
                                if sym.referent is None or name_of(sym.referent).startswith("DETACHED"):
                                    problem = "%s is on %s" % (target, name_of(sym.referent))
                                elif want_type:
                                    tg = [e.target for e in ir.cfg if e.label and e.label.type.name == want_type]
                                    if len(tg) != 1 or tg[0] is not sym.referent:
                                        problem = "%s edge(s) to %s, %s is on %s" % (want_type, [name_of(t) for t in tg], target, name_of(sym.referent))
                                return sig, problem
                            br.cases += 1
                            a, pa = go(True)
                            b, pb = go(False)
                            if isinstance(a, str) or isinstance(b, str):
                                if isinstance(a, str) != isinstance(b, str):
                                    br.failures.append({"clause": "C09/later-patch/batch-applies-iff-one-at-a-time-does", "witness": desc,
                                                        "detail": "batch: %s / one at a time: %s" % (a if isinstance(a, str) else "ok", b if isinstance(b, str) else "ok")})
                                continue
                            br.nontrivial += 1
                            if pa:
                                br.failures.append({"clause": "C09/later-patch/edge-of-the-patch-leads-to-the-live-block-the-label-is-on", "witness": desc, "detail": "batch: " + pa})
                            if pb:
                                br.failures.append({"clause": "C09/later-patch/edge-of-the-patch-leads-to-the-live-block-the-label-is-on", "witness": dict(desc, mode="one at a time"), "detail": pb})
                            if a != b:
                                br.failures.append({"clause": "C09/later-patch/batch-equals-one-at-a-time", "witness": desc, "detail": _diff(a, b)[:400]})
                            if len(br.samples) < 2:
                                br.samples.append(desc)
        return br
    return run


def jobs(tier="quick", seed=0):
    yield Job("C09/label-sliding/delete-histories", delete_histories_harness, kind="E",
              func="gtirb_rewriting._modify.edit:delete / remove:remove_block / cache:ReferenceCache under make_modify_cache (whole-block deletions in one context vs one context each)",
              expect_cover=("enumerated",))
    yield Job("C09/label-sliding/later-patch-bounded", later_patch_bounded(tier, seed), kind="B",
              func="gtirb_rewriting.rewriting:RewritingContext.apply (deletions + a later patch naming a label that slid)")
    # "applying a set of modifications in one apply() gives the same module as applying them one at a time": inside one block that is the
    # offset bookkeeping of _apply_modifications -- every modification lands at its requested offset shifted by exactly what the earlier
    # ones inserted and removed, i.e. where a one-at-a-time application (earlier ones already applied) would put it
    from . import kernel_applymods
    for j in kernel_applymods.jobs(tier, seed):
        j.id = "C09/" + j.id
        yield j
