"""C09 -- jobs added for the wave-11 seeds (two cooperating sites); see the docstring of each job"""
from pyvc.run import BResult, Job  # noqa: F401


def jobs(tier="quick", seed=0):
    return
    yield
