"""C19, deductive part (D): the for-each helpers of _modify/delete_symbols.py on ARBITRARY tables and deletion requests.

The real functions run on a real gtirb.Module whose aux tables hold *arbitrary* content: mappings keyed by abstract
symbols (pyvc.absobj: identity = a symbolic integer id), lists of symbolic length, an arbitrary number of byte intervals
each with an arbitrary map of symbolic expressions.  `symbols` (the deletion request) is an arbitrary mapping
Symbol -> SymbolDeletionOptions: DEL(id) says whether a symbol is requested, FORCE(id) its flag.

Every loop is cut by a side-car contract.  All these loops are for-each loops whose iteration touches only the entry of the
element it visits, so the invariants are pointwise: "the container is its initial content with the entries of the
elements visited so far (ghost predicate DONE) transformed".  Pointwise facts are proved at ONE arbitrary query point Q
chosen before the function runs (a fresh, unconstrained id / offset), which is the generalisation rule for universally
quantified invariants; the iterator's exhaustion (every element visited) is instantiated at Q at loop exit.

Postconditions (from the statement of C19):
  tables keyed by symbol (elfSymbolInfo, elfSymbolTabIdxInfo): entry(Q) survives  <=>  it existed and Q is not deleted; values untouched
  PE import / export lists: the new list is the old one filtered by `not deleted`, elements themselves, order kept (comprehension)
  symbolForwarding: entry(Q) survives <=> it existed and neither Q nor its target is deleted
  functionNames: entry(Q) survives <=> it existed and its name symbol is not deleted
  cfiDirectives: a directive naming a deleted symbol gets the null UUID (and [DW_EH_PE_omit] for personality / LSDA); others untouched
  symbolic expressions: SymbolUsesRemainingError only with a witness (an existing expression using a deleted, unforced symbol),
      and if an interval is completed no such expression exists in it; then expression(Q) survives <=> it uses no deleted symbol
  delete_symbols: aux tables first, then expressions, then every requested symbol leaves the module; nothing is detached if
      the expression pass raises
Not under a deductive contract: _delete_elf_symbol_versions (nested symbolic dicts with emptiness tests) -- bounded only (c19.py).
"""
import gtirb
import z3
from gtirb_test_helpers import create_test_module

from gtirb_rewriting import _auxdata
from gtirb_rewriting._auxdata import NULL_UUID
import importlib
DS = importlib.import_module("gtirb_rewriting._modify.delete_symbols")
from gtirb_rewriting._modify.delete_symbols import SymbolDeletionOptions, SymbolUsesRemainingError
from gtirb_rewriting.dwarf.dwarf2 import PointerEncodings

from pyvc import core, instrument, shims
from pyvc.absobj import (AbsObj, CompList, ObjMapBase, PSet, SymEnumerate, enumerate_shim, keq_term, member_term, present_term, set_shim)
from pyvc.containers import MapBase, PDict, PList, SymItems
from pyvc.run import Job
from pyvc.sym import SymBool, SymInt, mk_bool, mk_int, zint

I, B = z3.IntSort(), z3.BoolSort()
DEL = z3.Function("c19_DEL", I, B)
FORCE = z3.Function("c19_FORCE", I, B)


def pred(ctx, base, *doms):
    return z3.Function(ctx.fresh_name(base), *(doms or (I,)), B)


def fun(ctx, base):
    return z3.Function(ctx.fresh_name(base), I, I)


def sym(t):
    return AbsObj("Symbol", t, name="<symbol %s>" % t)


def deletions():
    return PDict(base=ObjMapBase("Symbol", lambda i: DEL(i), lambda k: SymbolDeletionOptions(mk_bool(FORCE(zint(k.id)))), "symbols"))


def only_deletions_in_log(d):
    return z3.BoolVal(all(op == "del" for op, _, _ in d.log))


def new_module():
    ir, m = create_test_module(gtirb.Module.FileFormat.ELF, gtirb.Module.ISA.X64)
    m.aux_data.clear()
    return m


def _no_break(self, env):
    """none of these for-each loops may stop early: every element has to be visited"""
    self.ctx.prove("%s/loop-%s-visits-every-element-(no-early-exit)" % (self.tag, type(self).__name__), z3.BoolVal(False))


def _default_exit(self, env):
    _exhausted(self)


def _exhausted(self):
    self.ctx.prove("%s/loop-%s-visits-every-element-(no-early-exit)" % (self.tag, type(self).__name__), z3.BoolVal(True))


class Value:
    """an opaque table value (never looked into by the code under contract)"""

    def __init__(self, of):
        self.of = of


# ------------------------------------------------------------------------------------ for symbol in symbols: table.pop(symbol, None)
class OverDeletions(instrument.LoopSpec):
    at_break = _no_break
    local_names = ("symbol",)
    table_local = None
    tag = None

    def __init__(self, ctx, iterable, env):
        super().__init__(ctx, iterable, env)
        self.g = ctx.ghost
        self.not_applicable = iterable is not self.g.get("symbols")
        self.mutates = (self.table_local,)

    def establish(self, env):
        t = env[self.table_local]
        self.ctx.prove(self.tag + "/loop-established", z3.BoolVal(t is self.g["table"] and not t.log and t.base is self.g["base0"]))

    def havoc(self, env):
        c, g = self.ctx, self.g
        self.DONE = DONE = pred(c, "DONE")
        T0 = g["T0"]
        t = env[self.table_local]
        t.log = []
        t.base = ObjMapBase("Symbol", lambda i: z3.And(T0(i), z3.Not(z3.And(DEL(i), DONE(i)))), g["base0"].get)
        return {}

    def has_next(self):
        return mk_bool(self.ctx.bool("more_symbols", inp=False))

    def element(self):
        e = self.ctx.int("visited_symbol", inp=False)
        self.ctx.assume(z3.And(DEL(e), z3.Not(self.DONE(e))))
        self.e = e
        return sym(e)

    def preserved(self, env):
        g, t = self.g, env[self.table_local]
        q = zint(g["Q"].id)
        done2 = z3.Or(self.DONE(q), q == self.e)
        self.ctx.prove(self.tag + "/loop-preserved/table-is-its-initial-content-minus-the-visited-deleted-symbols",
                       present_term(t, g["Q"]) == z3.And(g["T0"](q), z3.Not(z3.And(DEL(q), done2))))
        self.ctx.prove(self.tag + "/loop-preserved/values-untouched", only_deletions_in_log(t))

    def at_exit(self, env):
        _exhausted(self)
        q = zint(self.g["Q"].id)
        self.ctx.assume(z3.Implies(DEL(q), self.DONE(q)))


def table_pop_harness(fn, tdef, tag):
    def harness(ctx):
        g = ctx.ghost
        m = new_module()
        g["symbols"] = symbols = deletions()
        qid = ctx.int("q_symbol")
        g["Q"] = Q = sym(qid)
        present = ctx.choose(2, "table-exists")
        if present:
            g["T0"] = T0 = pred(ctx, "T0")
            ne = ctx.bool("table_nonempty")
            ctx.assume(z3.Implies(T0(qid), ne))
            g["base0"] = base0 = ObjMapBase("Symbol", lambda i: T0(i), lambda k: Value(k.id), nonempty=ne)
            g["table"] = table = PDict(base=base0)
            m.aux_data[tdef.name] = gtirb.AuxData(type_name=tdef.type_name, data=table)
        fn(m, symbols)
        ctx.cover("returned")
        if not present:
            ctx.prove(tag + "/no-table-is-invented", z3.BoolVal(tdef.name not in m.aux_data))
            return
        t = m.aux_data[tdef.name].data
        ctx.prove(tag + "/entry-survives-iff-it-existed-and-its-symbol-is-not-deleted",
                  z3.And(z3.BoolVal(t is table), present_term(t, Q) == z3.And(T0(qid), z3.Not(DEL(qid)))))
        ctx.prove(tag + "/values-untouched", only_deletions_in_log(t))
    return harness


class InfoLoop(OverDeletions):
    table_local, tag = "elf_symbol_info_auxdata", "elf_symbol_info"


class TabIdxLoop(OverDeletions):
    table_local, tag = "elf_symbol_tab_idx_auxdata", "elf_symbol_tab_idx_info"


# ------------------------------------------------------------------------------------ PE lists (comprehension)
def pe_list_harness(fn, tdef, tag):
    def harness(ctx):
        m = new_module()
        symbols = deletions()
        present = ctx.choose(2, "table-exists")
        LST = fun(ctx, "LST")
        if present:
            n = ctx.int("list_length")
            ctx.assume(n >= 0)
            lst = PList(n=SymInt(n), base=lambda i: sym(LST(zint(i))))
            m.aux_data[tdef.name] = gtirb.AuxData(type_name=tdef.type_name, data=lst)
        fn(m, symbols)
        ctx.cover("returned")
        if not present:
            ctx.prove(tag + "/no-table-is-invented", z3.BoolVal(tdef.name not in m.aux_data))
            return
        new = m.aux_data[tdef.name].data
        if new is lst:
            ctx.prove(tag + "/list-kept-as-is-only-when-empty", n == 0)
            return
        ok = isinstance(new, CompList) and new.src is lst
        ctx.prove(tag + "/new-list-is-a-filter-of-the-old-list-in-order", z3.BoolVal(bool(ok)))
        if not ok:
            return
        i = ctx.int("q_index")
        x = sym(LST(i))
        v, c = new.entry(x)
        ctx.prove(tag + "/element-kept-iff-not-deleted-and-kept-as-itself", z3.And(z3.BoolVal(v is x), z3.BoolVal(bool(c)) == z3.Not(DEL(LST(i)))))
    return harness


# ------------------------------------------------------------------------------------ scan-then-delete loops
class Scan(instrument.LoopSpec):
    at_break = _no_break
    """for key, value in table.items(): if P(key, value): S.add(key)        (ghost g["scan"] configures it)"""
    set_local = None
    tag = None

    def __init__(self, ctx, iterable, env):
        super().__init__(ctx, iterable, env)
        self.g = ctx.ghost
        self.cfg = self.g.get("scan") or {}
        self.not_applicable = not (isinstance(iterable, SymItems) and iterable.d is self.cfg.get("table"))
        self.mutates = (self.set_local,)

    def establish(self, env):
        s = env[self.set_local]
        self.ctx.prove(self.tag + "/scan-loop-established", z3.BoolVal(isinstance(s, PSet) and not s.log and s.base is None))

    def havoc(self, env):
        c, cfg = self.ctx, self.cfg
        self.DONE = DONE = pred(c, "SCANNED")
        H0, P = cfg["H0"], cfg["P"]
        s = env[self.set_local]
        s.log = []
        s.base = lambda z: z3.And(H0(z), DONE(z), P(z))
        s.key = cfg["zkey"]
        q = cfg["zq"]
        if cfg.get("inv2"):
            c.assume(z3.Implies(z3.And(DONE(q), H0(q)), cfg["inv2"](q)))
        return {}

    def has_next(self):
        return mk_bool(self.ctx.bool("more_items", inp=False))

    def element(self):
        k = self.ctx.int("visited_key", inp=False)
        self.ctx.assume(z3.And(self.cfg["H0"](k), z3.Not(self.DONE(k))))
        self.k = k
        self.g["cur_k"] = k
        return self.cfg["item"](k)

    def preserved(self, env):
        cfg = self.cfg
        q = cfg["zq"]
        done2 = z3.Or(self.DONE(q), q == self.k)
        s = env[self.set_local]
        self.ctx.prove(self.tag + "/scan-loop-preserved/set-holds-the-visited-keys-that-must-go",
                       member_term(s, cfg["Q"]) == z3.And(cfg["H0"](q), done2, cfg["P"](q)))
        if cfg.get("inv2"):
            self.ctx.prove(self.tag + "/scan-loop-preserved/no-unforced-use-among-the-visited", z3.Implies(z3.And(done2, cfg["H0"](q)), cfg["inv2"](q)))
        t = cfg["table"]
        self.ctx.prove(self.tag + "/scan-loop-preserved/table-not-modified-while-iterated", z3.BoolVal(not t.log))

    def at_exit(self, env):
        _exhausted(self)
        cfg = self.cfg
        q = cfg["zq"]
        self.ctx.assume(z3.Implies(cfg["H0"](q), self.DONE(q)))
        s = env[self.set_local]
        base = s.base
        self.g["INSET"] = base
        self.g["the_set"] = s


class Drop(instrument.LoopSpec):
    at_break = _no_break
    """for key in S: del table[key]"""
    tag = None

    def __init__(self, ctx, iterable, env):
        super().__init__(ctx, iterable, env)
        self.g = ctx.ghost
        self.cfg = self.g.get("scan") or {}
        self.not_applicable = iterable is not self.g.get("the_set")

    def establish(self, env):
        t = self.cfg["table"]
        self.ctx.prove(self.tag + "/drop-loop-established", z3.BoolVal(not t.log and t.base is self.cfg["base0"]))

    def havoc(self, env):
        cfg = self.cfg
        self.DONE = DONE = pred(self.ctx, "DROPPED")
        INSET, H0 = self.g["INSET"], cfg["H0"]
        t = cfg["table"]
        t.log = []
        t.base = cfg["mkbase"](lambda z: z3.And(H0(z), z3.Not(z3.And(INSET(z), DONE(z)))))
        return {}

    def has_next(self):
        return mk_bool(self.ctx.bool("more_keys", inp=False))

    def element(self):
        k = self.ctx.int("dropped_key", inp=False)
        self.ctx.assume(z3.And(self.g["INSET"](k), z3.Not(self.DONE(k))))
        self.k = k
        return self.cfg["mkkey"](k)

    def preserved(self, env):
        cfg = self.cfg
        q = cfg["zq"]
        t = cfg["table"]
        done2 = z3.Or(self.DONE(q), q == self.k)
        self.ctx.prove(self.tag + "/drop-loop-preserved/table-is-its-initial-content-minus-the-dropped-keys",
                       present_term(t, cfg["Q"]) == z3.And(cfg["H0"](q), z3.Not(z3.And(self.g["INSET"](q), done2))))
        self.ctx.prove(self.tag + "/drop-loop-preserved/values-untouched", only_deletions_in_log(t))

    def at_exit(self, env):
        _exhausted(self)
        q = self.cfg["zq"]
        self.ctx.assume(z3.Implies(self.g["INSET"](q), self.DONE(q)))


# symbolForwarding: Dict[Symbol, Symbol]
class FwdScan(Scan):
    set_local, tag = "to_remove", "symbol_forwarding"
    local_names = ("key", "value")


class FwdDrop(Drop):
    tag = "symbol_forwarding"
    local_names = ("key",)
    mutates = ("symbol_forwarding_auxdata",)


def forwarding_harness(ctx):
    g = ctx.ghost
    m = new_module()
    symbols = deletions()
    tag = "symbol_forwarding"
    present = ctx.choose(2, "table-exists")
    qid = ctx.int("q_symbol")
    Q = sym(qid)
    if present:
        F0, FW = pred(ctx, "F0"), fun(ctx, "FW")
        ne = ctx.bool("table_nonempty")
        ctx.assume(z3.Implies(F0(qid), ne))
        mkbase = lambda has: ObjMapBase("Symbol", has, lambda k: sym(FW(zint(k.id))), nonempty=ne)
        base0 = mkbase(lambda i: F0(i))
        table = PDict(base=base0)
        P = lambda z: z3.Or(DEL(z), DEL(FW(z)))
        g["scan"] = dict(table=table, base0=base0, H0=F0, P=P, zq=qid, Q=Q, zkey=lambda k: zint(k.id) if isinstance(k, AbsObj) else None,
                         item=lambda k: (sym(k), sym(FW(k))), mkkey=lambda k: sym(k), mkbase=mkbase)
        m.aux_data[_auxdata.symbol_forwarding.name] = gtirb.AuxData(type_name=_auxdata.symbol_forwarding.type_name, data=table)
    DS._delete_symbol_forwarding(m, symbols)
    ctx.cover("returned")
    if not present:
        ctx.prove(tag + "/no-table-is-invented", z3.BoolVal(_auxdata.symbol_forwarding.name not in m.aux_data))
        return
    t = m.aux_data[_auxdata.symbol_forwarding.name].data
    ctx.prove(tag + "/entry-survives-iff-neither-its-key-nor-its-target-is-deleted",
              z3.And(z3.BoolVal(t is table), present_term(t, Q) == z3.And(F0(qid), z3.Not(DEL(qid)), z3.Not(DEL(FW(qid))))))
    ctx.prove(tag + "/values-untouched", only_deletions_in_log(t))


# functionNames: Dict[UUID, Symbol]
class NamesScan(Scan):
    set_local, tag = "remove_uuids", "function_names"
    local_names = ("uuid", "name")


class NamesDrop(Drop):
    tag = "function_names"
    local_names = ("uuid",)
    mutates = ("names_auxdata",)


def function_names_harness(ctx):
    g = ctx.ghost
    m = new_module()
    symbols = deletions()
    tag = "function_names"
    present = ctx.choose(2, "table-exists")
    qid = ctx.int("q_function_uuid")
    uid = lambda t: AbsObj("UUID", t)
    Q = uid(qid)
    if present:
        F0, NM = pred(ctx, "N0"), fun(ctx, "NAME")
        ne = ctx.bool("table_nonempty")
        ctx.assume(z3.Implies(F0(qid), ne))
        mkbase = lambda has: ObjMapBase("UUID", has, lambda k: sym(NM(zint(k.id))), nonempty=ne)
        base0 = mkbase(lambda i: F0(i))
        table = PDict(base=base0)
        g["scan"] = dict(table=table, base0=base0, H0=F0, P=lambda z: DEL(NM(z)), zq=qid, Q=Q, zkey=lambda k: zint(k.id) if isinstance(k, AbsObj) else None,
                         item=lambda k: (uid(k), sym(NM(k))), mkkey=lambda k: uid(k), mkbase=mkbase)
        m.aux_data[_auxdata.function_names.name] = gtirb.AuxData(type_name=_auxdata.function_names.type_name, data=table)
    DS._delete_function_names(m, symbols)
    ctx.cover("returned")
    if not present:
        ctx.prove(tag + "/no-table-is-invented", z3.BoolVal(_auxdata.function_names.name not in m.aux_data))
        return
    t = m.aux_data[_auxdata.function_names.name].data
    ctx.prove(tag + "/entry-survives-iff-its-name-symbol-is-not-deleted",
              z3.And(z3.BoolVal(t is table), present_term(t, Q) == z3.And(F0(qid), z3.Not(DEL(NM(qid))))))
    ctx.prove(tag + "/values-untouched", only_deletions_in_log(t))


# ------------------------------------------------------------------------------------ symbolic expressions
class AbsExpr:
    def __init__(self, g, k):
        self.g, self.k = g, k

    @property
    def symbols(self):
        g, k = self.g, self.k
        if core.CUR.branch(g["N2"](k)):
            return [sym(g["S1"](k)), sym(g["S2"](k))]
        return [sym(g["S1"](k))]


class AbsInterval:
    def __init__(self, d):
        self.symbolic_expressions = d


class Intervals:
    __pyvc_symbolic_iterable__ = True

    def __iter__(self):
        raise core.Unsupported("iteration over the module's byte intervals (needs a loop contract)")


class AbsModule:
    def __init__(self):
        self.byte_intervals = Intervals()


def uses_deleted(g, k):
    return z3.Or(DEL(g["S1"](k)), z3.And(g["N2"](k), DEL(g["S2"](k))))


def unforced_use(g, k):
    return z3.Or(z3.And(DEL(g["S1"](k)), z3.Not(FORCE(g["S1"](k)))), z3.And(g["N2"](k), DEL(g["S2"](k)), z3.Not(FORCE(g["S2"](k)))))


class IntervalLoop(instrument.LoopSpec):
    at_break = _no_break
    at_exit = _default_exit
    """for byte_interval in module.byte_intervals: independent treatment of each interval (nothing is carried over)"""
    local_names = ("byte_interval", "to_drop", "offset", "expr", "sym", "opts")
    tag = "symbolic_expressions"

    def __init__(self, ctx, iterable, env):
        super().__init__(ctx, iterable, env)
        self.g = ctx.ghost
        self.not_applicable = not isinstance(iterable, Intervals)

    def has_next(self):
        return mk_bool(self.ctx.bool("more_intervals", inp=False))

    def element(self):
        g = self.g
        H0 = g["H0"]
        base0 = MapBase(lambda z: H0(z), lambda k: AbsExpr(g, zint(k)), "exprs")
        table = PDict(base=base0)
        g["scan"].update(table=table, base0=base0)
        g["interval"] = AbsInterval(table)
        return g["interval"]

    def preserved(self, env):
        g = self.g
        q = g["scan"]["zq"]
        t = g["interval"].symbolic_expressions
        self.ctx.prove(self.tag + "/interval-completed-only-if-it-has-no-unforced-use", z3.Implies(g["H0"](q), z3.Not(unforced_use(g, q))))
        self.ctx.prove(self.tag + "/expression-survives-iff-it-uses-no-deleted-symbol",
                       z3.And(z3.BoolVal(t is g["scan"]["table"]), present_term(t, g["scan"]["Q"]) == z3.And(g["H0"](q), z3.Not(uses_deleted(g, q)))))
        self.ctx.prove(self.tag + "/surviving-expressions-untouched", only_deletions_in_log(t))


class ExprScan(Scan):
    set_local, tag = "to_drop", "symbolic_expressions"
    local_names = ("offset", "expr", "sym", "opts")


class ExprDrop(Drop):
    tag = "symbolic_expressions"
    local_names = ("offset",)


def expressions_harness(ctx):
    g = ctx.ghost
    symbols = deletions()
    g["H0"] = H0 = pred(ctx, "HASEXPR")
    g["N2"], g["S1"], g["S2"] = pred(ctx, "TWO_SYMBOLS"), fun(ctx, "SYM1"), fun(ctx, "SYM2")
    qk = ctx.int("q_offset")
    g["scan"] = dict(H0=H0, P=lambda z: uses_deleted(g, z), zq=qk, Q=SymInt(qk), zkey=lambda k: zint(k) if isinstance(k, (int, SymInt)) else None,
                     item=lambda k: (SymInt(k), AbsExpr(g, k)), mkkey=lambda k: SymInt(k), inv2=lambda z: z3.Not(unforced_use(g, z)),
                     mkbase=lambda has: MapBase(has, lambda k: AbsExpr(g, zint(k)), "exprs"))
    tag = "symbolic_expressions"
    try:
        DS._delete_symbolic_expressions(AbsModule(), symbols)
        ctx.cover("returned")
    except SymbolUsesRemainingError as e:
        ctx.cover("raised")
        k = g["cur_k"]
        s = e.symbol
        ok = isinstance(s, AbsObj) and s.sort == "Symbol"
        sid = zint(s.id) if ok else z3.IntVal(-1)
        ctx.prove(tag + "/SymbolUsesRemainingError-only-with-a-witness-expression-using-a-deleted-unforced-symbol",
                  z3.And(z3.BoolVal(bool(ok)), H0(k), DEL(sid), z3.Not(FORCE(sid)), z3.Or(sid == g["S1"](k), z3.And(g["N2"](k), sid == g["S2"](k)))))


# ------------------------------------------------------------------------------------ CFI directives
class DirLists:
    pass


class CfiOuter(instrument.LoopSpec):
    at_break = _no_break
    at_exit = _default_exit
    """for directives in cfi_auxdata.values(): each list is treated independently"""
    local_names = ("directives", "i", "directive", "args", "symbol")
    tag = "cfi_directives"

    def __init__(self, ctx, iterable, env):
        super().__init__(ctx, iterable, env)
        self.g = ctx.ghost
        self.not_applicable = not (isinstance(iterable, SymItems) and iterable.what == "values")

    def has_next(self):
        return mk_bool(self.ctx.bool("more_lists", inp=False))

    def element(self):
        g = self.g
        n = self.ctx.int("list_length", inp=False)
        self.ctx.assume(n >= 0)

        def unreadable(i):
            raise core.Unsupported("the code read a directive list by index")
        g["dirs"] = PList(n=SymInt(n), base=unreadable)
        g["n"] = n
        return g["dirs"]

    def preserved(self, env):
        # everything is proved by the inner loop (pointwise); the list object itself must still be the one in the table
        self.ctx.prove(self.tag + "/list-object-kept", z3.BoolVal(env["directives"] is self.g["dirs"]))


class CfiInner(instrument.LoopSpec):
    at_break = _no_break
    at_exit = _default_exit
    """for i, (directive, args, symbol) in enumerate(directives): directives[i] rewritten iff `symbol` is deleted"""
    local_names = ("i", "directive", "args", "symbol")
    mutates = ("directives",)
    tag = "cfi_directives"

    def __init__(self, ctx, iterable, env):
        super().__init__(ctx, iterable, env)
        self.g = ctx.ghost
        self.not_applicable = not (isinstance(iterable, SymEnumerate) and iterable.seq is self.g.get("dirs"))

    def establish(self, env):
        self.ctx.prove(self.tag + "/inner-loop-established", z3.BoolVal(not self.g["dirs"].writes))

    def havoc(self, env):
        self.g["dirs"].writes = []          # earlier iterations wrote other indices only (pointwise invariant)
        return {}

    def has_next(self):
        return mk_bool(self.ctx.bool("more_directives", inp=False))

    def element(self):
        c, g = self.ctx, self.g
        i = c.int("directive_index", inp=False)
        c.assume(z3.And(i >= 0, i < g["n"]))
        self.i = i
        name = [".cfi_personality", ".cfi_lsda", ".cfi_offset"][c.choose(3, "directive-name-class")]
        skind = c.choose(3, "symbol-field-class")
        sid = c.int("directive_symbol", inp=False)
        symbol = [sym(sid), NULL_UUID, __import__("uuid").UUID(int=77)][skind]
        self.args = [c.choose(2, "args") + 5]
        self.item = (name, self.args, symbol)
        self.sid, self.skind, self.name = sid, skind, name
        return (SymInt(i), self.item)

    def preserved(self, env):
        c, d = self.ctx, self.g["dirs"]
        deleted = z3.And(z3.BoolVal(self.skind == 0), DEL(self.sid))
        w = d.writes
        wrote = len(w) == 1 and z3.is_true(z3.simplify(zint(w[0][0]) == self.i))
        c.prove(self.tag + "/writes-only-the-visited-index-and-only-for-a-deleted-symbol",
                z3.And(z3.BoolVal(len(w) <= 1 and (not w or wrote)), z3.BoolVal(bool(w)) == deleted))
        if w:
            nv = w[0][1]
            want_args = [PointerEncodings.omit.value] if self.name in (".cfi_personality", ".cfi_lsda") else self.args
            c.prove(self.tag + "/directive-of-a-deleted-symbol-gets-the-null-UUID-and-omit-encoding-for-personality-and-LSDA",
                    z3.BoolVal(isinstance(nv, tuple) and len(nv) == 3 and nv[0] == self.name and list(nv[1]) == want_args and nv[2] == NULL_UUID))


def cfi_harness(ctx):
    g = ctx.ghost
    m = new_module()
    symbols = deletions()
    tag = "cfi_directives"
    present = ctx.choose(2, "table-exists")
    if present:
        ne = ctx.bool("table_nonempty")
        T0 = pred(ctx, "C0")
        base0 = MapBase(lambda z: T0(z), lambda k: None, "cfi")
        base0.nonempty = ne
        table = PDict(base=base0)
        m.aux_data[_auxdata.cfi_directives.name] = gtirb.AuxData(type_name=_auxdata.cfi_directives.type_name, data=table)
    DS._update_cfi_directive_symbols(m, symbols)
    ctx.cover("returned")
    if present:
        t = m.aux_data[_auxdata.cfi_directives.name].data
        ctx.prove(tag + "/table-keys-untouched", z3.BoolVal(t is table and not t.log))
    else:
        ctx.prove(tag + "/no-table-is-invented", z3.BoolVal(_auxdata.cfi_directives.name not in m.aux_data))


# ------------------------------------------------------------------------------------ delete_symbols (composition)
class DetachLoop(instrument.LoopSpec):
    at_break = _no_break
    at_exit = _default_exit
    local_names = ("symbol",)
    tag = "delete_symbols"

    def __init__(self, ctx, iterable, env):
        super().__init__(ctx, iterable, env)
        self.g = ctx.ghost
        self.not_applicable = iterable is not self.g.get("symbols")
        self.g["detach_loop_reached_after"] = list(self.g.get("calls", ()))

    def has_next(self):
        return mk_bool(self.ctx.bool("more_symbols", inp=False))

    def element(self):
        e = self.ctx.int("visited_symbol", inp=False)
        self.ctx.assume(DEL(e))
        self.cur = sym(e)
        return self.cur

    def preserved(self, env):
        self.ctx.prove(self.tag + "/every-requested-symbol-leaves-the-module",
                       z3.BoolVal(self.cur.attrs_set == {"module": None}))
        self.ctx.prove(self.tag + "/symbols-are-detached-only-after-both-passes-succeeded",
                       z3.BoolVal(self.g["detach_loop_reached_after"] == [("aux", True), ("exprs", True)]))


def compose_harness(ctx):
    g = ctx.ghost
    g["symbols"] = symbols = deletions()
    m = object()
    g["calls"] = calls = []
    raising = bool(ctx.choose(2, "expression-pass-raises"))
    saved = (DS._delete_auxdata_entries, DS._delete_symbolic_expressions)

    def aux(mod, syms):
        calls.append(("aux", mod is m and syms is symbols))

    def exprs(mod, syms):
        calls.append(("exprs", mod is m and syms is symbols))
        if raising:
            raise SymbolUsesRemainingError(gtirb.Symbol("x"))
    DS._delete_auxdata_entries, DS._delete_symbolic_expressions = aux, exprs
    g["detached"] = 0
    try:
        try:
            DS.delete_symbols(m, symbols)
            ctx.cover("returned")
            ctx.prove("delete_symbols/aux-tables-then-expressions-each-once-with-the-same-arguments", z3.BoolVal(calls == [("aux", True), ("exprs", True)] and not raising))
        except SymbolUsesRemainingError:
            ctx.cover("raised")
            ctx.prove("delete_symbols/error-of-the-expression-pass-propagates-before-any-symbol-is-detached",
                      z3.BoolVal(raising and calls == [("aux", True), ("exprs", True)] and "detach_loop_reached_after" not in g))
    finally:
        DS._delete_auxdata_entries, DS._delete_symbolic_expressions = saved


def aux_entries_harness(ctx):
    """_delete_auxdata_entries: straight-line; every helper is called exactly once with (module, symbols)"""
    names = ["_update_cfi_directive_symbols", "_delete_elf_symbol_info", "_delete_elf_symbol_tab_idx_info", "_delete_elf_symbol_versions",
             "_delete_function_names", "_delete_pe_imported_symbols", "_delete_pe_exported_symbols", "_delete_symbol_forwarding"]
    saved = {n: getattr(DS, n) for n in names}
    calls = []
    m, s = object(), object()
    try:
        for n in names:
            setattr(DS, n, (lambda nn: lambda mod, syms: calls.append((nn, mod is m and syms is s)))(n))
        DS._delete_auxdata_entries(m, s)
    finally:
        for n, f in saved.items():
            setattr(DS, n, f)
    ctx.prove("delete_auxdata_entries/every-table-helper-runs-exactly-once-on-the-same-request",
              z3.BoolVal(sorted(calls) == sorted((n, True) for n in names)))


# ------------------------------------------------------------------------------------ jobs
SHIMS_EXTRA = {DS.__name__: {"set": set_shim, "enumerate": enumerate_shim}}


def setup_for(specs):
    class setup:
        def __enter__(self):
            self.cms = [shims.installed([DS], extra=SHIMS_EXTRA), instrument.instrumented(specs)]
            for c in self.cms:
                c.__enter__()
            return self

        def __exit__(self, *e):
            for c in reversed(self.cms):
                c.__exit__(*e)
            return False
    return setup


def native_replay(clause, model):
    """native confirmation of a failed deductive obligation: the real delete_symbols on the concrete small-universe configurations of
    contracts/c19.py (every table present / absent, deletion subsets x force flags, two-symbol expressions), compared with the oracle
    written from the statement; the first failing configuration is the replayed input"""
    from . import c19
    br = c19.bounded("quick", 0)()
    if br.failures:
        f = br.failures[0]
        return {"confirmed": True, "input": f["witness"], "observed": f["detail"][:400], "clause_of_the_native_oracle": f["clause"], "cases_tried": br.cases}
    return {"confirmed": False, "observed": "the %d concrete configurations satisfy the statement" % br.cases}


def jobs(tier="quick", seed=0):
    for j in _jobs(tier, seed):
        if j.kind == "D" and j.replay is None:
            j.replay = native_replay
        yield j


def _jobs(tier="quick", seed=0):
    P = "gtirb_rewriting._modify.delete_symbols:"
    yield Job("C19/D/elf_symbol_info", table_pop_harness(DS._delete_elf_symbol_info, _auxdata.elf_symbol_info, "elf_symbol_info"),
              setup=setup_for({"ds:_delete_elf_symbol_info": (DS._delete_elf_symbol_info, {0: InfoLoop}, False)}), kind="D",
              func=P + "_delete_elf_symbol_info", expect_cover=("returned", "loop-preserved:ds:_delete_elf_symbol_info#0", "loop-exit:ds:_delete_elf_symbol_info#0"))
    yield Job("C19/D/elf_symbol_tab_idx_info", table_pop_harness(DS._delete_elf_symbol_tab_idx_info, _auxdata.elf_symbol_tab_idx_info, "elf_symbol_tab_idx_info"),
              setup=setup_for({"ds:_delete_elf_symbol_tab_idx_info": (DS._delete_elf_symbol_tab_idx_info, {0: TabIdxLoop}, False)}), kind="D",
              func=P + "_delete_elf_symbol_tab_idx_info", expect_cover=("returned", "loop-preserved:ds:_delete_elf_symbol_tab_idx_info#0"))
    yield Job("C19/D/pe_imported_symbols", pe_list_harness(DS._delete_pe_imported_symbols, _auxdata.pe_imported_symbols, "pe_imported_symbols"),
              setup=setup_for({"ds:_delete_pe_imported_symbols": (DS._delete_pe_imported_symbols, {}, True)}), kind="D",
              func=P + "_delete_pe_imported_symbols", expect_cover=("returned",))
    yield Job("C19/D/pe_exported_symbols", pe_list_harness(DS._delete_pe_exported_symbols, _auxdata.pe_exported_symbols, "pe_exported_symbols"),
              setup=setup_for({"ds:_delete_pe_exported_symbols": (DS._delete_pe_exported_symbols, {}, True)}), kind="D",
              func=P + "_delete_pe_exported_symbols", expect_cover=("returned",))
    yield Job("C19/D/symbol_forwarding", forwarding_harness,
              setup=setup_for({"ds:_delete_symbol_forwarding": (DS._delete_symbol_forwarding, {0: FwdScan, 1: FwdDrop}, False)}), kind="D",
              func=P + "_delete_symbol_forwarding", expect_cover=("returned", "loop-preserved:ds:_delete_symbol_forwarding#0", "loop-preserved:ds:_delete_symbol_forwarding#1"))
    yield Job("C19/D/function_names", function_names_harness,
              setup=setup_for({"ds:_delete_function_names": (DS._delete_function_names, {0: NamesScan, 1: NamesDrop}, False)}), kind="D",
              func=P + "_delete_function_names", expect_cover=("returned", "loop-preserved:ds:_delete_function_names#0", "loop-preserved:ds:_delete_function_names#1"))
    yield Job("C19/D/symbolic_expressions", expressions_harness,
              setup=setup_for({"ds:_delete_symbolic_expressions": (DS._delete_symbolic_expressions, {0: IntervalLoop, 1: ExprScan, 3: ExprDrop}, False)}), kind="D",
              func=P + "_delete_symbolic_expressions",
              expect_cover=("returned", "raised", "loop-preserved:ds:_delete_symbolic_expressions#0", "loop-preserved:ds:_delete_symbolic_expressions#1",
                            "loop-preserved:ds:_delete_symbolic_expressions#3"))
    yield Job("C19/D/cfi_directives", cfi_harness,
              setup=setup_for({"ds:_update_cfi_directive_symbols": (DS._update_cfi_directive_symbols, {0: CfiOuter, 1: CfiInner}, False)}), kind="D",
              func=P + "_update_cfi_directive_symbols", expect_cover=("returned", "loop-preserved:ds:_update_cfi_directive_symbols#1"))
    yield Job("C19/D/delete_symbols", compose_harness,
              setup=setup_for({"ds:delete_symbols": (DS.delete_symbols, {0: DetachLoop}, False)}), kind="D",
              func=P + "delete_symbols", expect_cover=("returned", "raised", "loop-preserved:ds:delete_symbols#0"))
    yield Job("C19/D/delete_auxdata_entries", aux_entries_harness, kind="E", func=P + "_delete_auxdata_entries")
