"""C14 (continued) -- make_const_op and the directive/operand form handed to GTIRB.

dwarf.expr:make_const_op(value), for ALL integers:
    raises ValueError  <=>  value outside [-2^63, 2^64)
    otherwise the result is one of the standard's constant-pushing operations (DW_OP_lit*, DW_OP_const*),
    its operand is `value` (so it pushes exactly `value`), and no other constant-pushing operation that can
    represent `value` has a shorter encoding (lengths from the standard: 1, 1+N, 1+|ULEB|, 1+|SLEB|).
dwarf.cfi:Instruction._operands / gtirb_encoding, per CFA class:
    .cfi_escape classes : operands == list(encode(bo, ps))                    (the escape payload *is* the encoding)
    named directives    : operands == the fields in declared order, and the GAS directive of that name lowers to the
                          same DW_CFA opcode with the same operand order (table GAS below, from the GAS manual 7.12)
"""
import z3

import leb128
from gtirb_rewriting._auxdata import NULL_UUID
from gtirb_rewriting.dwarf import _encodable, _encoders, cfi, expr

from pyvc import core, shims
from pyvc.core import Unsupported
from pyvc.run import Job
from pyvc.sym import SymBytes, SymInt, is_sym, mk_int, zint
from spec import dwarf_std

from . import c14, dep_leb128
from .dep_leb128 import SLEN, ULEN

# GAS "CFI directives": directive -> (DW_CFA instruction it lowers to for non-negative / in-range operands, #operands)
GAS = {
    ".cfi_def_cfa": ("def_cfa", 2), ".cfi_def_cfa_register": ("def_cfa_register", 1),
    ".cfi_undefined": ("undefined", 1), ".cfi_same_value": ("same_value", 1), ".cfi_register": ("register", 2),
    ".cfi_restore": ("restore", 1), ".cfi_remember_state": ("remember_state", 0), ".cfi_restore_state": ("restore_state", 0),
}


def _srange(k):
    return -(64 * 128 ** (k - 1)), 64 * 128 ** (k - 1)


def leb_bounds_lemma(ctx):
    """L_k(U): x >= 128^k  =>  ULEN(x) >= k+1          L_k(S): x outside [-64*128^(k-1), 64*128^(k-1))  =>  SLEN(x) >= k+1
    by induction on k (each step: one unfolding of the recursive definition + the previous L at x div 128)."""
    x = ctx.int("x")
    q = x / 128
    ab = lambda t: z3.If(t >= 0, t, -t)
    last = dep_leb128._slast(x)
    # well-founded induction on x (resp. |x|), hypothesis instantiated at x div 128 (the only recursive call):
    ctx.prove("lemma/uleb-measure-decreases", z3.Implies(x >= 128, z3.And(q >= 0, q < x)))
    ctx.prove("lemma/sleb-measure-decreases", z3.Implies(z3.Not(last), ab(q) < ab(x)))
    ctx.solver.push()
    ctx.solver.add(ULEN(q) >= 1)
    ctx.prove("lemma/uleb-len>=1", z3.Implies(x >= 0, ULEN(x) >= 1))
    ctx.solver.pop()
    ctx.solver.push()
    ctx.solver.add(SLEN(q) >= 1)
    ctx.prove("lemma/sleb-len>=1", SLEN(x) >= 1)
    ctx.solver.pop()
    for k in range(1, 11):
        lo, hi = _srange(k)
        plo, phi = _srange(k - 1) if k > 1 else (None, None)
        ctx.solver.push()
        ctx.solver.add(z3.Implies(q >= 128 ** (k - 1), ULEN(q) >= k) if k > 1 else z3.Implies(q >= 0, ULEN(q) >= 1))
        ctx.prove("lemma/uleb-lower-bound/k=%d" % k, z3.Implies(x >= 128 ** k, ULEN(x) >= k + 1))
        ctx.solver.pop()
        ctx.solver.push()
        ctx.solver.add(z3.Implies(z3.Or(q < plo, q >= phi), SLEN(q) >= k) if k > 1 else SLEN(q) >= 1)
        ctx.prove("lemma/sleb-lower-bound/k=%d" % k, z3.Implies(z3.Or(x < lo, x >= hi), SLEN(x) >= k + 1))
        ctx.solver.pop()


def assume_leb_bounds(ctx, v):
    """instances of the lemmas above at v (proved in job C14/lemma/leb-length-bounds)"""
    for k in range(1, 11):
        lo, hi = _srange(k)
        ctx.assume(z3.Implies(v >= 128 ** k, ULEN(v) >= k + 1))
        ctx.assume(z3.Implies(z3.Or(v < lo, v >= hi), SLEN(v) >= k + 1))


def const_op_harness(ctx):
    v = ctx.int("value")
    assume_leb_bounds(ctx, v)
    lo, hi = -(1 << 63), 1 << 64
    try:
        op = expr.make_const_op(SymInt(v))
    except ValueError:
        ctx.cover("rejects")
        ctx.prove("make_const_op/rejects-only-unencodable", z3.Or(v < lo, v >= hi))
        return
    ctx.cover("accepts")
    ctx.prove("make_const_op/accepts-only-encodable", z3.And(v >= lo, v < hi))
    std = dwarf_std.table("op")
    _, storage = c14.registry("op")
    fbs = sorted(k for k, c in storage.opcodes.items() if c is type(op))
    name, base, count, forms = std.get(fbs[0], (None, None, None, []))
    ctx.prove("make_const_op/is-a-constant-pushing-operation",
              z3.BoolVal(name in ("lit", "const1u", "const1s", "const2u", "const2s", "const4u", "const4s", "const8u", "const8s", "constu", "consts")))
    ctx.prove("make_const_op/pushes-exactly-the-value", zint(op.value) == v)

    def length(nm):
        if nm == "lit":
            return z3.IntVal(1), z3.And(v >= 0, v < 32)
        if nm == "constu":
            return 1 + ULEN(v), v >= 0
        if nm == "consts":
            return 1 + SLEN(v), z3.BoolVal(True)
        n, signed = dwarf_std.FIXED[{"const1u": "u1", "const1s": "s1", "const2u": "u2", "const2s": "s2", "const4u": "u4",
                                     "const4s": "s4", "const8u": "u8", "const8s": "s8"}[nm]]
        rlo, rhi = (-(1 << (8 * n - 1)), 1 << (8 * n - 1)) if signed else (0, 1 << (8 * n))
        return z3.IntVal(1 + n), z3.And(v >= rlo, v < rhi)
    mine, can = length(name)
    ctx.prove("make_const_op/result-can-represent-the-value", can)
    for alt in ("lit", "const1u", "const1s", "const2u", "const2s", "const4u", "const4s", "const8u", "const8s", "constu", "consts"):
        al, acan = length(alt)
        ctx.prove("make_const_op/shortest/not-longer-than-%s" % alt, z3.Implies(acan, mine <= al))


def replay_const(clause, model):
    k = [x for x in model if x.startswith("value!")]
    v = model[k[0]] if k else 0
    cands = {"lit": (1, 0 <= v < 32), "constu": (1 + len(dwarf_std.uleb(v)) if v >= 0 else None, v >= 0), "consts": (1 + len(dwarf_std.sleb(v)), True)}
    for n in (1, 2, 4, 8):
        cands["const%du" % n] = (1 + n, 0 <= v < (1 << (8 * n)))
        cands["const%ds" % n] = (1 + n, -(1 << (8 * n - 1)) <= v < (1 << (8 * n - 1)))
    best = min(l for l, ok in cands.values() if ok) if any(ok for _, ok in cands.values()) else None
    try:
        op = expr.make_const_op(v)
    except ValueError:
        return {"confirmed": best is not None and -(1 << 63) <= v < (1 << 64), "value": v, "observed": "ValueError"}
    enc = bytes(op.encode("little", 8))
    bad = op.value != v or best is None or len(enc) != best
    return {"confirmed": bool(bad), "value": v, "observed": "%r len %d" % (op, len(enc)), "expected_len": best}


def operands_harness(cls, bo, ps):
    def harness(ctx):
        tag = cls.__name__
        fes = list(cls._fields_and_encoders())
        names = [f.name for f, _ in fes]
        fbs = sorted(k for k, c in c14.registry("cfa")[1].opcodes.items() if c is cls)
        sname, sbase, scount, sforms = dwarf_std.table("cfa")[fbs[0]]
        vals = [c14.AbsSeq(ctx, "x_" + n) if f == "expr" else SymInt(ctx.int("x_" + n)) for n, f in zip(names, sforms)]
        obj = object.__new__(cls)
        for n, v in zip(names, vals):
            object.__setattr__(obj, n, v)
        if cls._directive == ".cfi_escape":
            payload = SymBytes([SymInt(ctx.int("b%d" % i, inp=False)) for i in range(3)])
            calls = []
            real = cls.encode
            try:
                cls.encode = lambda self, byteorder, ptr_size: (calls.append((self, byteorder, ptr_size)), payload)[1]
                ops = obj._operands(bo, ps)
                d = obj.gtirb_encoding(bo, ps)
            finally:
                del cls.encode
            ctx.prove(tag + "/operands/escape-payload-is-the-encoding",
                      z3.And([z3.BoolVal(isinstance(ops, list) and len(ops) == 3)] + [zint(a) == zint(b) for a, b in zip(ops, payload.elems)]))
            ctx.prove(tag + "/operands/encoded-with-callers-parameters", z3.BoolVal(all(c[0] is obj and c[1:] == (bo, ps) for c in calls) and len(calls) >= 1))
        else:
            ops = obj._operands(bo, ps)
            d = obj.gtirb_encoding(bo, ps)
            ctx.prove(tag + "/operands/fields-in-declared-order", z3.And([z3.BoolVal(len(ops) == len(vals))] + [zint(a) == zint(b) for a, b in zip(ops, vals)]))
            g = GAS.get(cls._directive)
            ctx.prove(tag + "/operands/GAS-directive-lowers-to-this-instruction",
                      z3.BoolVal(g is not None and g[0] == sname and g[1] == len(vals) and all(f in ("uleb", "fused") for f in sforms)))
        ctx.prove(tag + "/gtirb_encoding/triple", z3.BoolVal(isinstance(d, tuple) and len(d) == 3 and d[0] == cls._directive and d[2] == NULL_UUID and len(d[1]) == len(ops)))
    return harness


def jobs(tier="quick", seed=0):
    yield Job("C14/lemma/leb-length-bounds", leb_bounds_lemma, kind="D", func="spec:uleb_len/sleb_len (lemma)", timeout_ms=60000)
    yield Job("C14/make_const_op", const_op_harness, setup=c14.setup, replay=replay_const, kind="D",
              func="gtirb_rewriting.dwarf.expr:make_const_op", expect_cover=("accepts", "rejects"), timeout_ms=60000)
    base, seen = c14.classes("cfa")
    for cls in seen:
        yield Job("C14/operands/%s" % cls.__name__, operands_harness(cls, "little", 8), setup=c14.setup, kind="D",
                  func="gtirb_rewriting.dwarf.cfi:Instruction._operands/gtirb_encoding")
