"""Heap kernel, part 4: _modify.edges (carries C03's return-edge clause).

E (exhaustive finite case splits on the REAL functions, real gtirb objects and the real ModifyCache).  The contract is the
property's own invariant, not a description of the code:

    RET   the returns of a function lead exactly to the return sites of the calls that target it,
          or to an unknown (registered) proxy when there are none

Universe: a callee function with r returning blocks (r = 0..3) and one non-returning block, called from block `src`
(call + fallthrough to `old`), optionally a second call site `src2` whose return site is `old` again or another block;
the callee is in the function tables, or not, or is a proxy.  Functions under contract:
  update_fallthrough_target(cache, cfg, src, new)      src then falls through to `new` only; its other edges are unchanged;
                                                        RET holds again with src's return site = new
  update_return_edges_from_changing_call_fallthrough    the same for the return edges alone
  add_return_edges_to_callee(..., return_target)        every returning block returns to return_target too; its proxy
                                                        returns are gone; non-returning blocks stay non-returning
  remove_return_edges_from_callee(call_edge, ft, cfg)   return edges to the removed call's return site disappear unless another
                                                        call shares it; a block left without any gets ONE registered proxy return
The enumeration is exhaustive for these functions because they only look at: the edge types of src, membership of the
callee's blocks in the function table, each block's set of return edges, and identity of the return targets.
"""
import itertools

import gtirb
import z3
from gtirb_test_helpers import add_code_block, add_edge, add_function, add_proxy_block, add_symbol, add_text_section, create_test_module

import gtirb_functions
from gtirb_rewriting._modify import edges as EG
from gtirb_rewriting._modify import make_modify_cache

from pyvc.run import Job

ET = gtirb.EdgeType


def build(ctx, nret, callee_kind, second_call, extra=None):
    """callee_kind: 'function' | 'no-function-info' | 'proxy';  second_call: None | 'same-site' | 'other-site';
    extra: index of a returning block that ALSO has an unattributed return (to a registered proxy), as disassemblers leave them"""
    ir, m = create_test_module(gtirb.Module.FileFormat.ELF, gtirb.Module.ISA.X64)
    _, bi = add_text_section(m, address=0x1000)
    src = add_code_block(bi, b"\xe8\x00\x00\x00\x00")
    old = add_code_block(bi, b"\x90")
    new = add_code_block(bi, b"\x90")
    src2 = add_code_block(bi, b"\xe8\x00\x00\x00\x00")
    site2 = add_code_block(bi, b"\x90")
    entry = add_code_block(bi, b"\x90")                 # non-returning block of the callee
    rets = [add_code_block(bi, b"\xc3") for _ in range(nret)]
    cfg = ir.cfg
    callee = add_proxy_block(m) if callee_kind == "proxy" else entry
    add_edge(cfg, src, callee, ET.Call)
    add_edge(cfg, src, old, ET.Fallthrough)
    sites = [old]
    if second_call:
        add_edge(cfg, src2, callee, ET.Call)
        s2 = old if second_call == "same-site" else site2
        add_edge(cfg, src2, s2, ET.Fallthrough)
        if s2 is not old:
            sites.append(s2)
    if callee_kind != "proxy":
        for r in rets:
            add_edge(cfg, entry, r, ET.Branch, conditional=True)
            for s in sites:
                add_edge(cfg, r, s, ET.Return)
    xproxy = None
    if extra is not None and callee_kind != "proxy" and rets:
        xproxy = add_proxy_block(m)
        add_edge(cfg, rets[extra % len(rets)], xproxy, ET.Return)
    fl = []
    add_function(m, add_symbol(m, "caller", src), src, {old, new, src2, site2})
    if callee_kind == "function":
        add_function(m, add_symbol(m, "callee", entry), entry, set(rets))
    fl = gtirb_functions.Function.build_functions(m)
    return dict(ir=ir, m=m, src=src, old=old, new=new, src2=src2, site2=site2, entry=entry, rets=rets, callee=callee, fl=fl, sites=sites,
                xproxy=xproxy, xblock=(rets[extra % len(rets)] if xproxy is not None else None))


def ret_targets(b):
    return sorted((e.target for e in b.outgoing_edges if e.label.type == ET.Return), key=id)


def ret_invariant(H, want_sites):
    """RET for the callee: every returning block returns exactly to want_sites (or to exactly one registered proxy if there are none)"""
    bad = []
    for r in H["rets"]:
        t = ret_targets(r)
        real = [x for x in t if not isinstance(x, gtirb.ProxyBlock)]
        prox = [x for x in t if isinstance(x, gtirb.ProxyBlock)]
        if r is H.get("xblock"):
            # its unattributed return is nobody's business: it stays, and it already is "a return to an unknown proxy"
            if sorted(real, key=id) != sorted(want_sites, key=id) or prox != [H["xproxy"]]:
                bad.append("the block with an unattributed return: %d code targets (expected %d), %d proxies (expected its own one)" % (len(real), len(want_sites), len(prox)))
            continue
        if want_sites:
            if sorted(real, key=id) != sorted(want_sites, key=id) or prox:
                bad.append("returning block returns to %d code targets and %d proxies, expected exactly the %d return sites" % (len(real), len(prox), len(want_sites)))
        else:
            if real or len(prox) != 1 or prox[0] not in H["m"].proxies:
                bad.append("returning block without call sites: %d code targets, %d proxies" % (len(real), len(prox)))
    if ret_targets(H["entry"]):
        bad.append("the non-returning block got a return edge")
    return bad


def universe(ctx):
    nret = ctx.choose(4, "returning-blocks")
    kind = ["function", "no-function-info", "proxy"][ctx.choose(3, "callee")]
    second = [None, "same-site", "other-site"][ctx.choose(3, "second-call")]
    return nret, kind, second


def fallthrough_harness(ctx):
    nret, kind, second = universe(ctx)
    if second == "same-site":
        # precondition (physical layout): two different call blocks cannot both be followed by the same block, so they never
        # share a return site when a fallthrough is re-pointed (a shared site only exists transiently while one call replaces
        # another inside one block: that case belongs to remove_return_edges_from_callee below)
        return
    H = build(ctx, nret, kind, second)
    ir, src, old, new = H["ir"], H["src"], H["old"], H["new"]
    other0 = sorted(((e.target, e.label.type) for e in src.outgoing_edges if e.label.type != ET.Fallthrough), key=repr)
    with make_modify_cache(H["m"], H["fl"]) as cache:
        EG.update_fallthrough_target(cache, ir.cfg, src, new)
    ctx.cover("enumerated")
    fts = [e.target for e in src.outgoing_edges if e.label.type == ET.Fallthrough]
    other1 = sorted(((e.target, e.label.type) for e in src.outgoing_edges if e.label.type != ET.Fallthrough), key=repr)
    ctx.prove("update_fallthrough_target/source-falls-through-to-the-new-target-only", z3.BoolVal(fts == [new]))
    ctx.prove("update_fallthrough_target/other-edges-of-the-source-unchanged", z3.BoolVal(other0 == other1))
    if kind == "function":
        want = [new] + ([H["site2"]] if second == "other-site" else []) + ([old] if second == "same-site" else [])
        bad = ret_invariant(H, want)
        ctx.prove("update_fallthrough_target/returns-of-the-callee-lead-exactly-to-the-return-sites-of-its-callers", z3.BoolVal(not bad), note="; ".join(bad[:2]))
    else:
        # no function information about the callee (or an external callee): nothing can be attributed, nothing may change
        ctx.prove("update_fallthrough_target/return-edges-untouched-without-function-information",
                  z3.BoolVal(all(sorted(ret_targets(r), key=id) == sorted(H["sites"], key=id) for r in H["rets"]) or kind == "proxy"))


def add_returns_harness(ctx):
    nret = ctx.choose(4, "returning-blocks")
    had_proxy_returns = bool(ctx.choose(2, "returns-so-far-lead-to-a-proxy"))
    H = build(ctx, nret, "function", None)
    ir, m = H["ir"], H["m"]
    if had_proxy_returns:
        for r in H["rets"]:
            for e in list(r.outgoing_edges):
                if e.label.type == ET.Return:
                    ir.cfg.discard(e)
            add_edge(ir.cfg, r, add_proxy_block(m), ET.Return)
        for e in list(H["src"].outgoing_edges):          # ... and nobody calls it yet
            ir.cfg.discard(e)
    target = H["new"]
    func = [f for f in H["fl"] if H["entry"] in f.get_all_blocks()][0]
    # the new edges go either straight into the IR's CFG or into a separate CFG under construction (the CFG of a patch, merged into
    # the IR afterwards); one or two calls (return sites) are announced
    separate = bool(ctx.choose(2, "edges-collected-in-a-separate-cfg"))
    two = bool(ctx.choose(2, "two-calls"))
    with make_modify_cache(m, H["fl"]) as cache:
        side = gtirb.CFG() if separate else ir.cfg          # inside the context ir.cfg is the return-edge cache
        EG.add_return_edges_to_callee(cache, m, func.uuid, target, side)
        if two:
            EG.add_return_edges_to_callee(cache, m, func.uuid, H["site2"], side)
        if separate:
            ir.cfg.update(side)
    ctx.cover("enumerated")
    want = ([] if had_proxy_returns else [H["old"]]) + [target] + ([H["site2"]] if two else [])
    bad = ret_invariant(H, want)
    ctx.prove("add_return_edges_to_callee/every-returning-block-also-returns-to-the-new-site-and-no-longer-to-a-proxy", z3.BoolVal(not bad), note="; ".join(bad[:2]))


def remove_returns_harness(ctx):
    nret, kind, second = universe(ctx)
    # returning blocks need not be uniform: one of them (the first or the last created; block sets iterate in identity order, so
    # both are tried) may also have a return nobody attributed to a call
    extra = [None, 0, -1][ctx.choose(3, "a-returning-block-also-returns-to-an-unknown-proxy")]
    H = build(ctx, nret, kind, second, extra)
    ir, src, old = H["ir"], H["src"], H["old"]
    call_edge = [e for e in src.outgoing_edges if e.label.type == ET.Call][0]
    with make_modify_cache(H["m"], H["fl"]) as cache:
        EG.remove_return_edges_from_callee(cache, call_edge, {old}, ir.cfg)
    ctx.cover("enumerated")
    if kind == "function":
        want = ([H["site2"]] if second == "other-site" else []) + ([old] if second == "same-site" else [])
        bad = ret_invariant(H, want)
        ctx.prove("remove_return_edges_from_callee/returns-lead-to-the-remaining-call-sites-or-one-registered-proxy", z3.BoolVal(not bad), note="; ".join(bad[:2]))
    else:
        ctx.prove("remove_return_edges_from_callee/return-edges-untouched-without-function-information",
                  z3.BoolVal(all(sorted(ret_targets(r), key=id) == sorted(H["sites"] + ([H["xproxy"]] if r is H["xblock"] else []), key=id) for r in H["rets"]) or kind == "proxy"))


def changing_fallthrough_harness(ctx):
    nret, kind, second = universe(ctx)
    if second == "same-site":
        return      # same precondition as update_fallthrough_target
    H = build(ctx, nret, kind, second)
    ir, src, old, new = H["ir"], H["src"], H["old"], H["new"]
    call_edge = [e for e in src.outgoing_edges if e.label.type == ET.Call][0]
    with make_modify_cache(H["m"], H["fl"]) as cache:
        EG.update_return_edges_from_changing_call_fallthrough(cache, call_edge, {old}, new, ir.cfg)
    ctx.cover("enumerated")
    if kind == "function":
        # every return edge that led to the old return site now leads to the new one (the caller fixes up a shared site)
        want = [new] + ([H["site2"]] if second == "other-site" else [])
        bad = ret_invariant(H, want)
        ctx.prove("update_return_edges_from_changing_call_fallthrough/every-return-to-the-old-site-now-leads-to-the-new-site", z3.BoolVal(not bad), note="; ".join(bad[:2]))
    else:
        ctx.prove("update_return_edges_from_changing_call_fallthrough/return-edges-untouched-without-function-information",
                  z3.BoolVal(all(sorted(ret_targets(r), key=id) == sorted(H["sites"], key=id) for r in H["rets"]) or kind == "proxy"))


def jobs(tier="quick", seed=0):
    P = "gtirb_rewriting._modify.edges:"
    yield Job("K/edges/update_fallthrough_target", fallthrough_harness, kind="E", func=P + "update_fallthrough_target", expect_cover=("enumerated",))
    yield Job("K/edges/update_return_edges_from_changing_call_fallthrough", changing_fallthrough_harness, kind="E",
              func=P + "update_return_edges_from_changing_call_fallthrough", expect_cover=("enumerated",))
    yield Job("K/edges/add_return_edges_to_callee", add_returns_harness, kind="E", func=P + "add_return_edges_to_callee", expect_cover=("enumerated",))
    yield Job("K/edges/remove_return_edges_from_callee", remove_returns_harness, kind="E", func=P + "remove_return_edges_from_callee", expect_cover=("enumerated",))
