"""C10 -- jobs added for the wave-11 seeds (two cooperating sites); see the docstring of each job

The property's alignment clause is quantified "for every ABI's nop size".  The jobs of contracts/c09_10_11.py rewrite x86-64 modules
only (nop size 1, where a count of bytes and a count of nops are the same number) and contracts/kernel_intervals.py always hands
join_byte_intervals its nop.  The two jobs here vary what was fixed there:

  C10/join-padding/every-abi-and-nop-source   (E)  the real join_byte_intervals on intervals that live in a module of EVERY registered
        ABI, the nop coming from the argument / from a nop_encodings entry / from nowhere (then it is the module's ABI that knows it)
  C10/alignment-after-rewrites/every-abi      (B)  apply() on modules of every registered ABI (MIPS32 in both byte orders): the code in
        front of aligned blocks grows or shrinks by whole instructions

Both oracles are the property's sentence, computed on the concrete numbers: after the rewrite / the join the bytes are the original
blocks' bytes in order, and in front of every block with an alignment requirement the LEAST number of bytes that makes its address a
multiple of the requirement, these being whole nops of the module's ABI after code and zeros after data, everything covered by blocks,
the interval's size being the length of its contents.
"""
import itertools
import logging

import gtirb
import z3

from pyvc.run import BResult, Job  # noqa: F401

I = gtirb.Module.ISA
BO = gtirb.Module.ByteOrder

# one ordinary (non-nop, non-zero, not a branch) instruction and a return sequence per ISA, as bytes in memory, from the architecture
# manuals: x86 53 = push (e/r)bx, c3 = ret; A64 91000400 = add x0, x0, #1, d65f03c0 = ret (little-endian in memory); MIPS32 24420001 =
# addiu $v0, $v0, 1, 03e00008 = jr $ra (+ delay slot nop)
_WORD_INSN = {I.ARM64: 0x91000400, I.MIPS32: 0x24420001}
_WORD_RET = {I.ARM64: [0xD65F03C0], I.MIPS32: [0x03E00008, 0]}


def _configs():
    """every registered ABI as (label, isa, file format, byte order or None); MIPS32 modules exist in both byte orders"""
    from gtirb_rewriting import abi as ABIM
    out = []
    for isa, ff in sorted(ABIM._ABIS, key=lambda k: (k[0].name, k[1].name)):
        if isa == I.MIPS32:
            out.append(("%s/%s/big-endian" % (isa.name, ff.name), isa, ff, BO.Big))
            out.append(("%s/%s/little-endian" % (isa.name, ff.name), isa, ff, BO.Little))
        else:
            out.append(("%s/%s" % (isa.name, ff.name), isa, ff, None))
    return out


def _insn(isa, order):
    if isa in _WORD_INSN:
        return _WORD_INSN[isa].to_bytes(4, "big" if order == BO.Big else "little")
    return b"\x53"


def _ret(isa, order):
    if isa in _WORD_RET:
        return b"".join(w.to_bytes(4, "big" if order == BO.Big else "little") for w in _WORD_RET[isa])
    return b"\xc3"


def _module(isa, ff, order):
    from gtirb_test_helpers import create_test_module
    ir, m = create_test_module(ff, isa)
    if order is not None:
        m.byte_order = order
    return ir, m


def expected_bytes(base, blocks, nop):
    """THE ORACLE (the property's sentence on concrete numbers).  blocks: [(is_code, bytes, alignment or None)] in address order, the
    first one at address `base`.  Returns (bytes of the whole run, [address of every block]) or None when some padding after code is not
    a whole number of nops (then no rewrite can satisfy the sentence)."""
    out, addrs, prev_code = b"", [], None
    for is_code, data, al in blocks:
        pad = (-(base + len(out))) % (al or 1)
        if pad:
            if prev_code:
                if pad % len(nop):
                    return None
                out += nop * (pad // len(nop))
            else:
                out += bytes(pad)
        addrs.append(base + len(out))
        out += data
        prev_code = is_code
    return out, addrs


def _uncovered(interval):
    cov = bytearray(interval.size)
    for b in interval.blocks:
        for q in range(max(b.offset, 0), min(b.offset + b.size, interval.size)):
            cov[q] = 1
    return [q for q in range(interval.size) if not cov[q]]


# ------------------------------------------------------------------------------------------------ E: join_byte_intervals
_NOP_SOURCES = ["the nop argument", "a nop_encodings entry for the default mode", "both (the same bytes)", "neither: the module's ABI knows it"]


def join_padding_harness(ctx):
    """join_byte_intervals on intervals of a module of every registered ABI.  Case split (all explored): ABI x where the nop comes from
    x code / data in front of the padding; per case a grid of geometries: destination of 1..3 instruction-sized units (+ an odd
    2 bytes), 0 / 1 unit of it uninitialised, two appended intervals whose first blocks need alignments from (none, 8, 16, 32, 64)."""
    from gtirb_test_helpers import add_text_section
    from gtirb_rewriting import abi as ABIM
    from gtirb_rewriting import intervalutils as IU
    from .kernel_intervals import _unshimmed
    cfgs = [c for c in _configs() if c[3] != BO.Little]          # the byte order plays no part in the join
    label, isa, ff, order = cfgs[ctx.choose(len(cfgs), "abi")]
    source = _NOP_SOURCES[ctx.choose(len(_NOP_SOURCES), "nop-source")]
    code = bool(ctx.choose(2, "data-or-code-before-the-padding"))
    DM = gtirb.CodeBlock.DecodeMode
    bad = {"aligned": [], "least": [], "units": [], "bytes": [], "size": [], "covered": [], "refused": []}
    ncases = 0
    with _unshimmed():
        nop = ABIM._ABIS[(isa, ff)].nop()
        u = len(nop)
        unit_a, unit_b = (bytes([0xA0 + k for k in range(4)]), bytes([0xB0 + k for k in range(4)]))
        ir, m = _module(isa, ff, order)
        sec, _ = add_text_section(m, address=0x1000)
        for dunits, odd, tail, al1, al2 in itertools.product((1, 2, 3), (0, 2), (0, 1), (None, 8, 16, 64), (None, 16, 32)):
            if odd and (tail or al2):
                continue
            for old in tuple(sec.byte_intervals):
                old.section = None
            dsize = dunits * 4 + odd
            dinit = dsize - tail * 4
            dbytes = bytes(range(1, dinit + 1))
            d = gtirb.ByteInterval(contents=dbytes, size=dsize, address=0x1000, section=sec)
            mk = gtirb.CodeBlock if code else gtirb.DataBlock
            mk(offset=0, size=dsize, byte_interval=d)
            a = gtirb.ByteInterval(contents=unit_a, size=4, section=sec)
            ab = mk(offset=0, size=4, byte_interval=a)
            b = gtirb.ByteInterval(contents=unit_b * 2, size=8, section=sec)
            bb = mk(offset=0, size=8, byte_interval=b)
            alignment = {k: v for k, v in ((ab, al1), (bb, al2)) if v}
            kw = {"the nop argument": dict(nop=nop), "a nop_encodings entry for the default mode": dict(nop_encodings={DM.Default: nop}),
                  "both (the same bytes)": dict(nop=nop, nop_encodings={DM.Default: nop}), "neither: the module's ABI knows it": {}}[source]
            desc = "destination of %d bytes (%d initialised) + 4 bytes aligned %s + 8 bytes aligned %s" % (dsize, dinit, al1, al2)
            ncases += 1
            # an uninitialised tail of the destination is made explicit with the same kind of bytes as any other padding
            fill = nop * (tail * 4 // u) if code else bytes(tail * 4)
            want = expected_bytes(0x1000, [(code, dbytes + fill, None), (code, unit_a, al1), (code, unit_b * 2, al2)], nop)
            try:
                r = IU.join_byte_intervals([d, a, b], alignment=alignment, tables=[], **kw)
                err = None
            except IU.PaddingError as ex:
                r, err = None, str(ex)
            if want is None:
                if err is None:
                    bad["refused"].append("%s: joined to %s" % (desc, bytes(r.contents).hex()))
                continue
            if err is not None:
                bad["bytes"].append("%s: PaddingError: %s" % (desc, err))
                continue
            wbytes, (_, wa, wb) = want
            got = bytes(r.contents)
            for blk, al in ((ab, al1), (bb, al2)):
                if blk.byte_interval is not r or blk.address is None or blk.address % (al or 1):
                    bad["aligned"].append("%s: block needing %s is at %s" % (desc, al, blk.address and hex(blk.address)))
            if (ab.address, bb.address) != (wa, wb):
                bad["least"].append("%s: blocks at %s, %s; the least padding puts them at %#x, %#x" % (desc, ab.address and hex(ab.address), bb.address and hex(bb.address), wa, wb))
            # the bytes that are not the three intervals' own bytes, wherever they were put
            pos, ok_order = 0, True
            added = b""
            for piece in (dbytes, unit_a, unit_b * 2):
                k = got.find(piece, pos)
                if k < 0:
                    ok_order = False
                    break
                added += got[pos:k]
                pos = k + len(piece)
            added += got[pos:] if ok_order else b""
            unit = nop if code else b"\x00"
            if ok_order and (len(added) % len(unit) or added != unit * (len(added) // len(unit))):
                bad["units"].append("%s: added bytes %s are not whole %s" % (desc, added.hex(), "nops " + nop.hex() if code else "zeros"))
            if got != wbytes:
                bad["bytes"].append("%s: contents %s, expected %s" % (desc, got.hex(), wbytes.hex()))
            if r.size != len(got):
                bad["size"].append("%s: size %d, %d bytes of contents" % (desc, r.size, len(got)))
            un = _uncovered(r)
            if un:
                bad["covered"].append("%s: offsets %s are in no block" % (desc, un[:8]))
    ctx.cover("enumerated")
    tag = "%s, nop from %s, after %s, %d geometries: " % (label, source, "code" if code else "data", ncases)
    P = lambda name, key: ctx.prove("join_byte_intervals/" + name, z3.BoolVal(not bad[key]), note=tag + "; ".join(bad[key][:2])[:400])  # noqa: E731
    P("A/blocks-with-an-alignment-requirement-are-aligned-in-the-destination", "aligned")
    P("A/no-more-padding-than-the-requirement-needs", "least")
    P("A/the-added-bytes-are-whole-nops-of-the-modules-ABI-after-code-and-zeros-after-data", "units")
    P("A/contents-are-the-intervals-bytes-in-order-with-that-padding-in-between", "bytes")
    P("A/the-destinations-size-is-the-length-of-its-contents", "size")
    P("A/every-byte-is-covered-by-a-block", "covered")
    P("A/a-padding-that-is-not-a-whole-number-of-nops-is-refused-with-PaddingError", "refused")


# ------------------------------------------------------------------------------------------------ B: apply() on every ABI
def c10_every_abi(tier, seed):
    def run():
        import gtirb_functions
        from gtirb_test_helpers import add_code_block, add_data_block, add_edge, add_function, add_proxy_block, add_text_section
        from bounded import scen
        from gtirb_rewriting import _auxdata
        from gtirb_rewriting import abi as ABIM
        from gtirb_rewriting import rewriting as RW
        logging.getLogger("gtirb_rewriting").setLevel(logging.CRITICAL)
        br = BResult()
        br.bound = ("apply() on a module of every registered ABI (MIPS32 big- and little-endian), with and without function information: "
                    "[code 16 bytes | code 16 bytes | code 16 bytes + return] with alignment requirements (16, 32) / (8, 16) / (none, 16) / (16, none) on the "
                    "second and third block, and [code 16 | data 8 | code] with 8 on the last; the first block is edited: 1 / 2 / 3 nops inserted at its "
                    "start, one in the middle, one at its end, its first or last instruction deleted, its first instruction replaced by two nops")
        C_AL, C_LEAST, C_PAD, C_SIZE = ("C10/every-abi/alignment-requirements-hold-after-a-rewrite", "C10/every-abi/no-more-padding-than-the-requirement-needs",
                                        "C10/every-abi/padding-is-whole-nops-of-the-ABI-after-code-zeros-after-data-covered-by-blocks",
                                        "C10/every-abi/interval-size-is-the-length-of-its-contents")
        br.clauses = [C_AL, C_LEAST, C_PAD, C_SIZE]
        distinct = set()
        chains = [("code", 16, 32), ("code", 8, 16), ("code", None, 16), ("code", 16, None), ("data", None, 8)]
        edits = [("ins", 0, 1), ("ins", 0, 2), ("ins", 0, 3), ("ins", "mid", 1), ("ins", "end", 1), ("del", 0, 1), ("del", "last", 1), ("rep", 0, 2)]
        for (label, isa, ff, order), funcs, (mid_kind, al1, al2), edit in itertools.product(_configs(), (False, True), chains, edits):
            nop = ABIM._ABIS[(isa, ff)].nop()
            ins, ret = _insn(isa, order), _ret(isa, order)
            u = len(ins)
            ir, m = _module(isa, ff, order)
            _, bi = add_text_section(m, address=0x1000)
            b0_bytes = ins * (16 // u)
            b0 = add_code_block(bi, b0_bytes)
            if mid_kind == "code":
                b1_bytes = ins * (16 // u)
                b1 = add_code_block(bi, b1_bytes)
            else:
                b1_bytes = bytes(range(0xD1, 0xD9))
                b1 = add_data_block(bi, b1_bytes)
            b2_bytes = ins * ((16 - len(ret)) // u) + ret
            b2 = add_code_block(bi, b2_bytes)
            if mid_kind == "code":
                add_edge(ir.cfg, b0, b1, gtirb.EdgeType.Fallthrough)
                add_edge(ir.cfg, b1, b2, gtirb.EdgeType.Fallthrough)
            else:
                add_edge(ir.cfg, b0, b2, gtirb.EdgeType.Branch)      # (the listing is not compared here: only the layout matters)
            add_edge(ir.cfg, b2, add_proxy_block(m), gtirb.EdgeType.Return)
            table = {blk: al for blk, al in ((b1, al1), (b2, al2)) if al}
            _auxdata.alignment.set(m, dict(table))
            assert all(blk.address % al == 0 for blk, al in table.items())         # the requirements hold before the rewrite
            fl = []
            if funcs:
                add_function(m, "f", b0, {b1, b2} if mid_kind == "code" else {b2})
                fl = gtirb_functions.Function.build_functions(m)
            rc = RW.RewritingContext(m, fl)
            op, where, n = edit
            off = {0: 0, "mid": 8, "end": 16, "last": 16 - u}[where]
            if op == "ins":
                rc.insert_at(b0, off, scen.mkpatch("\n".join(["nop"] * n)))
                new_b0 = b0_bytes[:off] + nop * n + b0_bytes[off:]
            elif op == "del":
                rc.delete_at(b0, off, u)
                new_b0 = b0_bytes[:off] + b0_bytes[off + u:]
            else:
                rc.replace_at(b0, off, u, scen.mkpatch("\n".join(["nop"] * n)))
                new_b0 = b0_bytes[:off] + nop * n + b0_bytes[off + u:]
            br.cases += 1
            distinct.add((label, funcs, mid_kind, al1, al2, edit))
            desc = {"abi": label, "nop": nop.hex(), "function information": funcs, "layout": "code 16 | %s %d (alignment %s) | code 16 (alignment %s)" % (mid_kind, len(b1_bytes), al1, al2),
                    "edit of the first block": {"ins": "%d nop(s) inserted at offset %d" % (n, off), "del": "the instruction at offset %d deleted" % off,
                                                "rep": "the instruction at offset %d replaced by %d nops" % (off, n)}[op]}
            try:
                rc.apply()
            except Exception as e:      # noqa
                br.failures.append({"clause": C_AL, "witness": desc, "detail": "%s: %s" % (type(e).__name__, str(e)[:120])})
                continue
            tab = _auxdata.alignment.get(m) or {}
            for blk, al in table.items():
                if tab.get(blk) != al:
                    br.failures.append({"clause": C_AL, "witness": desc, "detail": "the requirement %d of the block that was at %#x is no longer in the alignment table" % (al, 0x1010 if blk is b1 else 0x1020)})
            for blk, al in tab.items():
                if isinstance(blk, gtirb.ByteBlock) and blk.module is m and (blk.address is None or blk.address % al):
                    br.failures.append({"clause": C_AL, "witness": desc, "detail": "block at %s needs alignment %d" % (blk.address is not None and hex(blk.address), al)})
            want, (_, w1, w2) = expected_bytes(0x1000, [(True, new_b0, None), (mid_kind == "code", b1_bytes, al1), (True, b2_bytes, al2)], nop)
            ivs = sorted(m.byte_intervals, key=lambda i: i.address)
            got = b"".join(bytes(i.contents) for i in ivs)
            if len(ivs) != 1 or ivs[0].address != 0x1000:
                br.failures.append({"clause": C_PAD, "witness": desc, "detail": "the section's single byte interval at 0x1000 became %s" % [(hex(i.address), i.size) for i in ivs]})
                continue
            iv = ivs[0]
            if iv.size != len(iv.contents):
                br.failures.append({"clause": C_SIZE, "witness": desc, "detail": "size %d, %d bytes of contents" % (iv.size, len(iv.contents))})
            if (b1.address, b2.address) != (w1, w2) and not any(blk.address is None or blk.address % al for blk, al in table.items()):
                br.failures.append({"clause": C_LEAST, "witness": desc, "detail": "the blocks are at %#x, %#x; the least padding puts them at %#x, %#x" % (b1.address, b2.address, w1, w2)})
            if got != want:
                br.failures.append({"clause": C_PAD, "witness": desc, "detail": "bytes %s, expected %s" % (got.hex(), want.hex())})
            if bytes(b1.contents) != b1_bytes or bytes(b2.contents) != b2_bytes:
                br.failures.append({"clause": C_PAD, "witness": desc, "detail": "an unedited block's bytes changed: %s / %s" % (bytes(b1.contents).hex(), bytes(b2.contents).hex())})
            un = _uncovered(iv)
            if un:
                br.failures.append({"clause": C_PAD, "witness": desc, "detail": "offsets %s of the interval are in no block" % un[:8]})
        br.nontrivial = len(distinct)
        return br
    return run


def jobs(tier="quick", seed=0):
    yield Job("C10/join-padding/every-abi-and-nop-source", join_padding_harness, kind="E",
              func="gtirb_rewriting.intervalutils:join_byte_intervals (padding unit: every registered ABI x where the nop comes from)", expect_cover=("enumerated",))
    yield Job("C10/alignment-after-rewrites/every-abi-bounded", c10_every_abi(tier, seed), kind="B", func="gtirb_rewriting.prepare:prepare_for_rewriting / intervalutils.join_byte_intervals (every ABI's nop size)")
