"""C20 -- internal containers behave like their simple abstract models.

The containers are identity/hash keyed pointer structures without arithmetic.  Each operation inspects only the element(s)
it is given, so a small universe gives an EXHAUSTIVE case split of one operation from every representable state (E):
  _adt.IdentitySet          universe of 3 objects (two of them ==-equal but distinct): every state x every operation
  _adt.OffsetMapping        2 elements x 2 displacements: every state (2^4 entries, plus empty sub-maps) x get/set/del/contains/
                            iter/len/node_keys/element-level get/set/del; ValueError for a non-mapping; D: symbolic displacements
                            histories: every one- and two-operation history (get/set/del/contains/get/pop/setdefault by Offset and by
                            element, write through the handed-out sub-dictionary; 58 operations) from each of the 25 states, compared
                            after EVERY operation -- also one that raised -- with a literal dictionary of dictionaries through all
                            read-only observations by Offset and by element: a failing operation leaves no trace
  _adt.LinkedListNode / BlockOrdering   every list of <= 4 blocks x insert_blocks_after / remove_block / add_detached_blocks /
                            adjacent_blocks against a python list; ValueError on a block already ordered
  cache.ReturnEdgeCache     universe of 8 edges (2 sources x {code, proxy} target x {Return, Fallthrough}): every one of the 256
                            edge sets x add / discard / clear / the three queries: representation invariant
                            (_return_edges[s] == {return edges of s}, NO empty bucket, same for proxies) preserved, answers equal a
                            scan of the CFG, queries do not change the state and return fresh sets
  cache.make_return_cache   body returns / raises / mutates the original CFG / replaces ir.cfg: on every exit ir.cfg is the caller's
                            object holding the cache's final edges; CFGModifiedError exactly in the two reported situations
B (bounded histories, labelled):
  cache.ReferenceCache      random histories of length <= 8 over 3 blocks x 4 symbols (retarget incl. cycles, self retargets and the
                            position-preserving mode, fully/half consumed get_references, get/set_referent, apply, exceptions in the
                            context) against the model "assign Symbol.referent directly", with the tree representation invariant
"""
import itertools
import random

import gtirb
import z3
from gtirb_test_helpers import add_code_block, add_symbol, add_text_section, create_test_module

from gtirb_rewriting._adt import BlockOrdering, IdentitySet, OffsetMapping
from gtirb_rewriting._adt.linked_list import LinkedListNode
from gtirb_rewriting._modify import cache as CA
from gtirb_rewriting._modify.cache import ReferenceCache, RefNode, ReturnEdgeCache

from pyvc import shims
from pyvc.run import BResult, Job
from pyvc.sym import SymInt, zint


class Eq:
    """objects that compare equal but are distinct"""

    def __init__(self, k):
        self.k = k

    def __eq__(self, o):
        return isinstance(o, Eq) and o.k == self.k

    def __hash__(self):
        return hash(self.k)


def identity_set_harness(ctx):
    a, b, c = Eq(1), Eq(1), Eq(2)
    U = [a, b, c]
    for state in itertools.product((0, 1), repeat=3):
        init = [u for u, s in zip(U, state) if s]
        for i, x in enumerate(U):
            s = IdentitySet(init)
            model = {id(u) for u in init}
            ctx.prove("IdentitySet/contains-is-identity-membership", z3.BoolVal((x in s) == (id(x) in model)))
            s.add(x)
            ctx.prove("IdentitySet/add", z3.BoolVal({id(u) for u in s} == model | {id(x)} and len(s) == len(model | {id(x)})))
            s = IdentitySet(init)
            s.discard(x)
            ctx.prove("IdentitySet/discard", z3.BoolVal({id(u) for u in s} == model - {id(x)} and len(s) == len(model - {id(x)})))
        s = IdentitySet(init)
        ctx.prove("IdentitySet/iter-and-len", z3.BoolVal(sorted(id(u) for u in s) == sorted(id(u) for u in init) and len(s) == len(init)))
    ctx.cover("enumerated")


def offset_mapping_harness(ctx):
    ir, m = create_test_module(gtirb.Module.FileFormat.ELF, gtirb.Module.ISA.X64)
    _, bi = add_text_section(m, address=0x1000)
    e1, e2 = add_code_block(bi, b"\x90"), add_code_block(bi, b"\x90")
    keys = [(e1, 0), (e1, 1), (e2, 0), (e2, 1)]
    P = ctx.prove
    for state in itertools.product((0, 1), repeat=4):
        for empty_sub in (False, True):
            def mk():
                om = OffsetMapping()
                for (e, d), s in zip(keys, state):
                    if s:
                        om[gtirb.Offset(e, d)] = "v%d%d" % (keys.index((e, d)), d)
                if empty_sub and e2 not in om:
                    om[e2] = {}
                return om
            model = {(e, d): "v%d%d" % (keys.index((e, d)), d) for (e, d), s in zip(keys, state) if s}
            om = mk()
            P("OffsetMapping/len-iter-bool", z3.BoolVal(len(om) == len(model) and sorted((k.element_id.uuid, k.displacement) for k in om) == sorted((e.uuid, d) for e, d in model) and bool(om) == bool(model)))
            for (e, d) in keys:
                om = mk()
                k = gtirb.Offset(e, d)
                P("OffsetMapping/contains", z3.BoolVal((k in om) == ((e, d) in model)))
                try:
                    got = om[k]
                    P("OffsetMapping/getitem", z3.BoolVal((e, d) in model and got == model[(e, d)]))
                except KeyError:
                    P("OffsetMapping/getitem", z3.BoolVal((e, d) not in model))
                om[k] = "new"
                m2 = dict(model)
                m2[(e, d)] = "new"
                P("OffsetMapping/setitem", z3.BoolVal({(x.element_id, x.displacement): om[x] for x in om} == m2))
                om = mk()
                try:
                    del om[k]
                    m3 = {kk: v for kk, v in model.items() if kk != (e, d)}
                    P("OffsetMapping/delitem", z3.BoolVal((e, d) in model and {(x.element_id, x.displacement): om[x] for x in om} == m3))
                except KeyError:
                    P("OffsetMapping/delitem", z3.BoolVal((e, d) not in model))
            for e in (e1, e2):
                om = mk()
                sub = {d: v for (ee, d), v in model.items() if ee is e}
                present = bool(sub) or (empty_sub and e is e2)
                P("OffsetMapping/element-contains-and-get", z3.BoolVal((e in om) == present and (dict(om[e]) == sub if present else om.get(e) is None)))
                om[e] = {5: "x"}
                m4 = {kk: v for kk, v in model.items() if kk[0] is not e}
                m4[(e, 5)] = "x"
                P("OffsetMapping/element-set-replaces-all-its-offsets", z3.BoolVal({(x.element_id, x.displacement): om[x] for x in om} == m4))
                try:
                    om[e] = [1, 2]
                    ctx.fail("OffsetMapping/non-mapping-is-ValueError", "accepted")
                except ValueError:
                    P("OffsetMapping/non-mapping-is-ValueError", z3.BoolVal(True))
                om = mk()
                if present:
                    del om[e]
                    P("OffsetMapping/element-del", z3.BoolVal({(x.element_id, x.displacement): om[x] for x in om} == {kk: v for kk, v in model.items() if kk[0] is not e} and e not in om))
            om = mk()
            P("OffsetMapping/node_keys", z3.BoolVal(set(om.node_keys()) == {e for e, _ in model} | ({e2} if empty_sub else set())))
    # symbolic displacement: one entry written at a symbolic offset, read back at another
    om = OffsetMapping()
    d1, d2 = ctx.int("d1"), ctx.int("d2")
    from pyvc.containers import PDict
    om._data[e1] = PDict()
    om[gtirb.Offset(e1, SymInt(d1))] = "a"
    k2 = gtirb.Offset(e1, SymInt(d2))
    hit = k2 in om
    P("OffsetMapping/symbolic-displacements", z3.BoolVal(hit) == (d1 == d2))
    ctx.cover("enumerated")


class _DictOfDicts:
    """the abstract model of the statement, LITERALLY: a dictionary {element: {displacement: value}}.  Nothing else is state.
    An operation that raises changes nothing (python's dict semantics); the derived operations get / pop / setdefault are the
    ones every python mapping has (lookup, else default / KeyError; pop = lookup then delete; setdefault = lookup else store)."""
    _MISSING = object()

    def __init__(self):
        self.m = {}

    def lookup(self, key):
        if isinstance(key, tuple):
            return self.m[key[0]][key[1]]          # KeyError when the element or the displacement is missing
        return self.m[key]

    def store(self, key, value):
        if isinstance(key, tuple):
            self.m.setdefault(key[0], {})[key[1]] = value
        elif not isinstance(value, dict):
            raise ValueError(value)                # "all Offsets of an element" must be a mapping
        else:
            self.m[key] = value

    def delete(self, key):
        if isinstance(key, tuple):
            del self.m[key[0]][key[1]]
        else:
            del self.m[key]

    def contains(self, key):
        if isinstance(key, tuple):
            return key[0] in self.m and key[1] in self.m[key[0]]
        return key in self.m

    def get(self, key, default=None):
        try:
            return self.lookup(key)
        except KeyError:
            return default

    def pop(self, key, default=_MISSING):
        try:
            v = self.lookup(key)
        except KeyError:
            if default is self._MISSING:
                raise
            return default
        self.delete(key)
        return v

    def setdefault(self, key, default):
        try:
            return self.lookup(key)
        except KeyError:
            self.store(key, default)
            return default

    def write_through(self, e, d, value):
        """m[e][d] = value -- the sub-dictionary handed out by element is the live one (class docstring of OffsetMapping)"""
        self.m[e][d] = value


def _om_observe(om, elems, disps):
    """everything the public read-only API shows, by Offset and by element, in a canonical form (elements named by their index in
    `elems`; an element outside the universe would show up as -1)"""
    idx = {id(e): i for i, e in enumerate(elems)}
    out = {"len": len(om), "bool": bool(om),
           "iter": sorted((idx.get(id(k.element_id), -1), k.displacement) for k in om),
           "items": sorted((idx.get(id(k.element_id), -1), k.displacement, v) for k, v in om.items()),
           "node_keys": sorted(idx.get(id(e), -1) for e in om.node_keys())}
    for i, e in enumerate(elems):
        try:
            got = sorted(om[e].items())
        except KeyError:
            got = "KeyError"
        g = om.get(e)
        out["elem%d" % i] = (e in om, None if g is None else sorted(g.items()), got)
        for d in disps:
            k = gtirb.Offset(e, d)
            try:
                got = om[k]
            except KeyError:
                got = "KeyError"
            out["off%d.%d" % (i, d)] = (k in om, om.get(k), got)
    return out


def _model_observe(M, elems, disps):
    """the same observations computed from the dictionary of dictionaries"""
    idx = {id(e): i for i, e in enumerate(elems)}
    m = M.m
    flat = sorted((idx.get(id(e), -1), d, v) for e, s in m.items() for d, v in s.items())
    out = {"len": len(flat), "bool": bool(flat),
           "iter": [(i, d) for i, d, _ in flat],
           "items": flat,
           "node_keys": sorted(idx.get(id(e), -1) for e in m)}
    for i, e in enumerate(elems):
        s = m.get(e)
        out["elem%d" % i] = (s is not None, None if s is None else sorted(s.items()), "KeyError" if s is None else sorted(s.items()))
        for d in disps:
            has = s is not None and d in s
            out["off%d.%d" % (i, d)] = (has, s[d] if has else None, s[d] if has else "KeyError")
    return out


def _om_ops(elems, disps):
    """the operation alphabet: get/set/del/contains and the derived get/pop/setdefault, each by Offset and by element, plus the
    write through the sub-dictionary handed out for an element.  (i, d) names Offset(elems[i], d); i alone names the element."""
    ops = []
    for i in range(len(elems)):
        for d in disps:
            for name in ("getitem", "contains", "get", "setitem", "delitem", "pop", "pop-default", "setdefault", "write-through"):
                ops.append((name, i, d))
        for name in ("getitem", "contains", "get", "setitem-empty", "setitem-dict", "setitem-non-mapping", "delitem", "pop", "pop-default",
                     "setdefault-dict", "setdefault-non-mapping"):
            ops.append((name, i, None))
    return ops


def _om_apply(target, is_model, op, elems, tag):
    """run one operation on the real OffsetMapping or on the model; -> ('ok', normalised result) | ('raise', exception class name).
    Sub-dictionary arguments are fresh per side (the two sides must not share mutable objects); a result that IS the argument
    is reported as such (setdefault / pop must hand back the stored object, not a copy)."""
    name, i, d = op
    e = elems[i]
    if d is None:
        key = e
    else:
        key = (e, d) if is_model else gtirb.Offset(e, d)
    arg = None
    val = "w" + tag

    def norm(r):
        if isinstance(r, dict):
            return ("the-argument" if r is arg else "sub", sorted(r.items()))
        return r
    try:
        if name == "getitem":
            r = target.lookup(key) if is_model else target[key]
        elif name == "contains":
            r = target.contains(key) if is_model else (key in target)
        elif name == "get":
            r = target.get(key)
        elif name == "setitem":
            r = target.store(key, val) if is_model else target.__setitem__(key, val)
        elif name in ("setitem-empty", "setitem-dict", "setitem-non-mapping"):
            arg = {} if name == "setitem-empty" else {5: val} if name == "setitem-dict" else [1, 2]
            r = target.store(key, arg) if is_model else target.__setitem__(key, arg)
        elif name == "delitem":
            r = target.delete(key) if is_model else target.__delitem__(key)
        elif name == "pop":
            r = target.pop(key)
        elif name == "pop-default":
            r = target.pop(key, "dflt")
        elif name == "setdefault":
            r = target.setdefault(key, val)
        elif name in ("setdefault-dict", "setdefault-non-mapping"):
            arg = {7: val} if name == "setdefault-dict" else "not-a-mapping"
            r = target.setdefault(key, arg)
        elif name == "write-through":
            if is_model:
                r = target.write_through(e, d, val)
            else:
                target[e][d] = val
                r = None
        else:  # pragma: no cover
            raise AssertionError(name)
        return ("ok", norm(r))
    except (KeyError, ValueError) as ex:
        return ("raise", type(ex).__name__)


def offset_mapping_histories_harness(ctx):
    """E: every history of ONE and of TWO operations of the alphabet from every state of the universe 2 elements x 2 displacements, where a
    state says per element: absent / present with no displacement / {0} / {1} / {0,1} (25 states), each state reached in two
    ways (stored by Offset and by element; emptied sub-dictionaries by deleting the last Offset).  After EVERY operation --
    in particular after one that raised -- the result (or the exception class) and every public observation by Offset and by
    element must equal the dictionary of dictionaries.  The second operation makes residue of the first visible that the
    read-only observations cannot see (e.g. what setdefault by element returns and stores)."""
    ir, m = create_test_module(gtirb.Module.FileFormat.ELF, gtirb.Module.ISA.X64)
    _, bi = add_text_section(m, address=0x1000)
    elems = [add_code_block(bi, b"\x90"), add_code_block(bi, b"\x90")]
    disps = (0, 1)
    ops = _om_ops(elems, disps)
    shapes = (None, (), (0,), (1,), (0, 1))
    C_RES = "OffsetMapping/histories/result-or-exception-class-equals-the-dictionary-of-dictionaries"
    C_NOOP = "OffsetMapping/histories/an-operation-that-raises-leaves-no-trace-by-offset-or-by-element"
    C_OBS = "OffsetMapping/histories/every-observation-by-offset-and-by-element-equals-the-dictionary-of-dictionaries"
    nhist = 0

    def mk(state, how):
        om, M = OffsetMapping(), _DictOfDicts()
        for e, shape in zip(elems, state):
            if shape is None:
                continue
            if how == "by-element":
                om[e] = {d: "v%d" % d for d in shape}
                M.m[e] = {d: "v%d" % d for d in shape}
            else:
                for d in shape or (9,):
                    om[gtirb.Offset(e, d)] = "v%d" % d
                    M.m.setdefault(e, {})[d] = "v%d" % d
                if not shape:
                    del om[gtirb.Offset(e, 9)]
                    del M.m[e][9]
        return om, M

    def step(om, M, op, tag, bad, hist, observe=True):
        r_real = _om_apply(om, False, op, elems, tag)
        r_model = _om_apply(M, True, op, elems, tag)       # a raising operation leaves the model unchanged (dict semantics)
        if r_real != r_model:
            bad.setdefault(C_RES, "%s: %s, the model %s" % (hist, r_real, r_model))
        if not observe:
            return True
        o_real, o_model = _om_observe(om, elems, disps), _model_observe(M, elems, disps)
        if o_real != o_model:
            diff = sorted(k for k in o_model if o_real.get(k) != o_model[k])
            which = C_NOOP if r_model[0] == "raise" else C_OBS
            bad.setdefault(which, "%s <-- here: differs in %s: %s, the model %s" % (hist, diff[0], o_real[diff[0]], o_model[diff[0]]))
            return False
        return True

    for state in itertools.product(shapes, repeat=2):
        for how in ("by-offset", "by-element"):
            om0, M0 = mk(state, how)
            ctx.prove("OffsetMapping/histories/initial-state-equals-the-model", z3.BoolVal(_om_observe(om0, elems, disps) == _model_observe(M0, elems, disps)),
                      note="%s %s" % (state, how))
            bad, nbad = {}, {}
            for op1 in ops:
                bad1 = {}
                om, M = mk(state, how)
                h1 = "state %s (%s); %s" % (state, how, op1)
                nhist += 1
                # two-operation histories from one construction of the state only: the other construction differs in operations
                # (store / delete by Offset vs store by element) that are first operations of the alphabet anyway
                if step(om, M, op1, "1", bad1, h1) and how == "by-offset":
                    for op2 in ops:
                        om, M = mk(state, how)
                        nhist += 1
                        step(om, M, op1, "1", {}, h1, observe=False)
                        step(om, M, op2, "2", bad1, "%s; %s" % (h1, op2))
                for c, why in bad1.items():
                    bad.setdefault(c, why)
                    nbad[c] = nbad.get(c, 0) + 1
            for c in (C_RES, C_NOOP, C_OBS):
                ctx.prove(c, z3.BoolVal(c not in bad), note="%s [first of %d first operations with a failing history]" % (bad[c], nbad[c]) if c in bad else "")
    ctx.prove("OffsetMapping/histories/enumeration-is-not-vacuous", z3.BoolVal(len(ops) == 58 and nhist >= 25 * 2 * len(ops)),
              note="%d histories" % nhist)
    ctx.cover("enumerated")


def block_ordering_harness(ctx):
    blocks = [gtirb.CodeBlock(offset=i, size=1) for i in range(6)]
    P = ctx.prove
    for n in range(0, 5):
        base = blocks[:n]
        for after_i in range(n):
            for k in (1, 2):
                bo = BlockOrdering()
                bo.add_detached_blocks(base)
                new = blocks[n:n + k]
                bo.insert_blocks_after(base[after_i], new)
                model = base[:after_i + 1] + new + base[after_i + 1:]
                ok = all(bo.adjacent_blocks(b) == (model[i - 1] if i else None, model[i + 1] if i + 1 < len(model) else None) for i, b in enumerate(model))
                P("BlockOrdering/insert_blocks_after-equals-list-splice", z3.BoolVal(ok))
                try:
                    bo.insert_blocks_after(base[0], [new[0]])
                    ctx.fail("BlockOrdering/already-ordered-is-ValueError", "accepted")
                except ValueError:
                    P("BlockOrdering/already-ordered-is-ValueError", z3.BoolVal(all(
                        bo.adjacent_blocks(b) == (model[i - 1] if i else None, model[i + 1] if i + 1 < len(model) else None) for i, b in enumerate(model))))
        for rm in range(n):
            bo = BlockOrdering()
            bo.add_detached_blocks(base)
            bo.remove_block(base[rm])
            model = base[:rm] + base[rm + 1:]
            ok = all(bo.adjacent_blocks(b) == (model[i - 1] if i else None, model[i + 1] if i + 1 < len(model) else None) for i, b in enumerate(model))
            try:
                bo.adjacent_blocks(base[rm])
                ok = False
            except KeyError:
                pass
            P("BlockOrdering/remove_block-equals-list-removal", z3.BoolVal(ok))
        bo = BlockOrdering()
        bo.add_detached_blocks(base)
        bo.add_detached_blocks(blocks[n:n + 2])
        two = blocks[n:n + 2]
        ok = all(bo.adjacent_blocks(b) == (base[i - 1] if i else None, base[i + 1] if i + 1 < len(base) else None) for i, b in enumerate(base)) and \
            bo.adjacent_blocks(two[0]) == (None, two[1]) and bo.adjacent_blocks(two[1]) == (two[0], None)
        P("BlockOrdering/add_detached_blocks-are-a-separate-run", z3.BoolVal(ok))
    a, b, c = LinkedListNode("a"), LinkedListNode("b"), LinkedListNode("c")
    a.insert_node_after(c)
    a.insert_node_after(b)
    P("LinkedListNode/insert-keeps-next-prev-inverse", z3.BoolVal(a.next is b and b.prev is a and b.next is c and c.prev is b and a.prev is None and c.next is None))
    try:
        a.insert_node_after(c)
        ctx.fail("LinkedListNode/linked-node-is-ValueError", "accepted")
    except ValueError:
        P("LinkedListNode/linked-node-is-ValueError", z3.BoolVal(a.next is b))
    b.unlink()
    P("LinkedListNode/unlink", z3.BoolVal(a.next is c and c.prev is a and b.next is None and b.prev is None))
    ctx.cover("enumerated")


def _rc_invariant(rc):
    scan_r, scan_p = {}, {}
    for e in rc:
        if e.label is not None and e.label.type == gtirb.EdgeType.Return:
            scan_r.setdefault(e.source, set()).add(e)
            if isinstance(e.target, gtirb.ProxyBlock):
                scan_p.setdefault(e.source, set()).add(e)
    return dict(rc._return_edges) == scan_r and dict(rc._proxy_return_edges) == scan_p, scan_r, scan_p


def return_cache_harness(ctx):
    s1, s2, t = gtirb.CodeBlock(offset=0, size=1), gtirb.CodeBlock(offset=1, size=1), gtirb.CodeBlock(offset=2, size=1)
    px = gtirb.ProxyBlock()
    E = [gtirb.Edge(s, tg, gtirb.Edge.Label(ty)) for s in (s1, s2) for tg in (t, px) for ty in (gtirb.EdgeType.Return, gtirb.EdgeType.Fallthrough)]
    P = ctx.prove
    for mask in range(256):
        init = [e for i, e in enumerate(E) if mask >> i & 1]
        rc = ReturnEdgeCache(init)
        ok, sr, sp = _rc_invariant(rc)
        P("ReturnEdgeCache/constructor-establishes-the-invariant", z3.BoolVal(ok and set(rc) == set(init)))
        for b in (s1, s2, t):
            before = (dict((k, set(v)) for k, v in rc._return_edges.items()), dict((k, set(v)) for k, v in rc._proxy_return_edges.items()), set(rc))
            a1, a2, a3 = rc.any_return_edges(b), rc.block_return_edges(b), rc.block_proxy_return_edges(b)
            after = (dict((k, set(v)) for k, v in rc._return_edges.items()), dict((k, set(v)) for k, v in rc._proxy_return_edges.items()), set(rc))
            P("ReturnEdgeCache/queries-equal-a-scan-of-the-cfg", z3.BoolVal(a1 == bool(sr.get(b)) and a2 == sr.get(b, set()) and a3 == sp.get(b, set())))
            P("ReturnEdgeCache/queries-do-not-change-the-cache", z3.BoolVal(before == after and _rc_invariant(rc)[0]))
            a2.add("junk")
            P("ReturnEdgeCache/queries-return-fresh-sets", z3.BoolVal(_rc_invariant(rc)[0]))
        if mask % 5 == 0 or mask in (255, 1, 2, 4, 8, 16, 32, 64, 128):
            for e in E:
                rc = ReturnEdgeCache(init)
                rc.add(e)
                P("ReturnEdgeCache/add-preserves-the-invariant", z3.BoolVal(_rc_invariant(rc)[0] and set(rc) == set(init) | {e}))
                rc = ReturnEdgeCache(init)
                rc.discard(e)
                P("ReturnEdgeCache/discard-preserves-the-invariant-without-empty-buckets", z3.BoolVal(_rc_invariant(rc)[0] and set(rc) == set(init) - {e}))
            rc = ReturnEdgeCache(init)
            rc.clear()
            P("ReturnEdgeCache/clear", z3.BoolVal(_rc_invariant(rc)[0] and len(rc) == 0))
            rc = ReturnEdgeCache(init)
            rc.update(E[:3])
            P("ReturnEdgeCache/update-goes-through-add", z3.BoolVal(_rc_invariant(rc)[0] and set(rc) == set(init) | set(E[:3])))
    ctx.cover("enumerated")


def make_return_cache_harness(ctx):
    """E: body outcome x what the body did THROUGH THE CACHE (added an edge / nothing / added and discarded an edge) x whether it also
    touched the original CFG object behind the cache's back"""
    P = ctx.prove
    s1, t = gtirb.CodeBlock(offset=0, size=1), gtirb.CodeBlock(offset=2, size=1)
    e0 = gtirb.Edge(s1, t, gtirb.Edge.Label(gtirb.EdgeType.Return))
    e1 = gtirb.Edge(t, s1, gtirb.Edge.Label(gtirb.EdgeType.Fallthrough))
    stray = gtirb.Edge(s1, s1, gtirb.Edge.Label(gtirb.EdgeType.Branch))
    for body in ("returns", "raises", "mutates-original", "mutates-original-and-raises", "replaces-ir-cfg", "nested"):
        for through_cache in ("adds-an-edge", "nothing", "adds-and-discards"):
            ir = gtirb.IR()
            ir.cfg.add(e0)
            old = ir.cfg
            raised = None
            final = None
            try:
                with CA.make_return_cache(ir) as rc:
                    inside_ok = ir.cfg is rc and isinstance(rc, ReturnEdgeCache) and set(rc) == {e0}
                    if through_cache != "nothing":
                        rc.add(e1)
                    if through_cache == "adds-and-discards":
                        rc.discard(e1)
                    final = set(rc)
                    if body.startswith("mutates-original"):
                        old.add(stray)
                    if body in ("raises", "mutates-original-and-raises"):
                        raise KeyError("boom")
                    if body == "replaces-ir-cfg":
                        ir.cfg = gtirb.CFG()
                    if body == "nested":
                        with CA.make_return_cache(ir) as rc2:
                            inside_ok = inside_ok and rc2 is rc
            except Exception as ex:
                raised = ex
            note = "%s / %s" % (body, through_cache)
            P("make_return_cache/inside-ir.cfg-is-the-cache-with-the-original-edges", z3.BoolVal(bool(inside_ok)), note=note)
            P("make_return_cache/on-every-exit-the-callers-cfg-object-holds-the-final-edges", z3.BoolVal(ir.cfg is old and set(old) == final),
              note="%s: restored %d edges, the cache ended with %d" % (note, len(set(old)), len(final or ())))
            P("make_return_cache/return-edge-view-of-the-restored-cfg-equals-a-scan", z3.BoolVal({e for e in old if e.label.type == gtirb.EdgeType.Return} == {e0}), note=note)
            want = {"returns": None, "nested": None, "raises": KeyError, "mutates-original-and-raises": KeyError, "mutates-original": CA.CFGModifiedError,
                    "replaces-ir-cfg": CA.CFGModifiedError}[body]
            P("make_return_cache/CFGModifiedError-exactly-when-the-original-was-modified-or-replaced",
              z3.BoolVal((raised is None and want is None) or (want is not None and type(raised) is want)), note="%s -> %s" % (note, type(raised).__name__))
    ctx.cover("enumerated")


def refcache_view(cache, syms):
    out = {}
    for s in syms:
        if s in cache._referents:
            n = cache._referents[s]
            assert s in n.symbols and s.referent is None, "indirect symbol must have referent None and be in its node"
            root, steps = n, 0
            while isinstance(root.parent, RefNode):
                assert root in root.parent.children, "child link missing"
                root = root.parent
                steps += 1
                assert steps < 1000, "cycle"
            blk = root.parent
            pair = cache._references.get(blk)
            assert pair is not None and (root is pair[0] or root is pair[1]), "root not registered"
            out[s.name] = (blk.uuid, root is pair[1])
        else:
            out[s.name] = (s.referent.uuid if s.referent else None, s.at_end)
    return out


class _Injected(Exception):
    """the exception the history raises inside the cache context on purpose"""


def reference_cache_bounded(tier, seed):
    def run():
        br = BResult()
        N = 3000 if tier == "quick" else 60000
        br.bound = "%d pseudo-random histories (seed %d) of <= 8 operations over 3 blocks x 4 symbols" % (N, seed)
        br.clauses = ["ReferenceCache/abstract-referents-equal-direct-assignment", "ReferenceCache/representation-invariant",
                      "ReferenceCache/get_references-yields-exactly-the-references-made-direct", "ReferenceCache/apply-and-exit-materialise-everything-even-on-exceptions"]
        distinct = set()
        for h in range(N):
            rnd = random.Random(seed * 1000003 + h)
            ir, m = create_test_module(gtirb.Module.FileFormat.ELF, gtirb.Module.ISA.X64)
            _, bi = add_text_section(m, address=0x1000)
            blocks = [add_code_block(bi, b"\x90") for _ in range(3)]
            syms = []
            for i in range(4):
                s = add_symbol(m, "s%d" % i, rnd.choice(blocks))
                s.at_end = rnd.random() < 0.4
                syms.append(s)
            model = {s.name: (s.referent.uuid, s.at_end) for s in syms}
            trace = []
            fail = None
            try:
                with ReferenceCache() as c:
                    for _ in range(rnd.randint(1, 8)):
                        op = rnd.choice(["ret", "ret", "ret", "retkeep", "refs", "refs1", "get", "set", "apply", "raise"])
                        if op in ("ret", "retkeep"):
                            b, t = rnd.choice(blocks), rnd.choice(blocks)
                            e = None if op == "retkeep" else (rnd.random() < 0.5)
                            trace.append((op, blocks.index(b), blocks.index(t), e))
                            c.retarget_references(b, t, e)
                            model = {k: ((t.uuid, v[1] if e is None else e) if v[0] == b.uuid else v) for k, v in model.items()}
                        elif op in ("refs", "refs1"):
                            b = rnd.choice(blocks)
                            trace.append((op, blocks.index(b)))
                            g = c.get_references(b)
                            got = [next(g, None)] if op == "refs1" else list(g)
                            got = [x for x in got if x is not None]
                            exp = {k for k, v in model.items() if v[0] == b.uuid}
                            names = [x.name for x in got]
                            if op == "refs" and (set(names) != exp or len(names) != len(set(names))):
                                fail = ("ReferenceCache/get_references-yields-exactly-the-references-made-direct", "%s expected %s" % (names, sorted(exp)))
                            for x in got:
                                if (x.referent.uuid, x.at_end) != model[x.name]:
                                    fail = ("ReferenceCache/get_references-yields-exactly-the-references-made-direct", "yielded symbol %s is not direct" % x.name)
                        elif op == "get":
                            s = rnd.choice(syms)
                            trace.append((op, s.name))
                            r = c.get_referent(s)
                            if (r.uuid if r else None, s.at_end) != model[s.name]:
                                fail = ("ReferenceCache/abstract-referents-equal-direct-assignment", "get_referent(%s)" % s.name)
                        elif op == "set":
                            s, b, e = rnd.choice(syms), rnd.choice(blocks), rnd.random() < 0.5
                            trace.append((op, s.name, blocks.index(b), e))
                            c.set_referent(s, b, e)
                            model[s.name] = (b.uuid, e)
                        elif op == "apply":
                            trace.append((op,))
                            c.apply()
                            if c._referents or c._references:
                                fail = ("ReferenceCache/apply-and-exit-materialise-everything-even-on-exceptions", "apply left indirect references")
                        else:
                            trace.append((op,))
                            raise _Injected("injected")
                        if fail:
                            break
                        try:
                            v = refcache_view(c, syms)
                        except AssertionError as ex:
                            fail = ("ReferenceCache/representation-invariant", str(ex))
                            break
                        if v != model:
                            fail = ("ReferenceCache/abstract-referents-equal-direct-assignment", "view %s model %s" % (v, model))
                            break
            except _Injected:
                pass
            except Exception as ex:      # noqa  -- the cache itself failed (assertion in apply(), KeyError in a lookup, ...) on a legal history
                if not fail:
                    fail = ("ReferenceCache/apply-and-exit-materialise-everything-even-on-exceptions", "%s raised by the cache: %s" % (type(ex).__name__, str(ex)[:100]))
            if not fail:
                direct = {s.name: (s.referent.uuid if s.referent else None, s.at_end) for s in syms}
                if direct != model:
                    fail = ("ReferenceCache/apply-and-exit-materialise-everything-even-on-exceptions", "after the context: %s expected %s" % (direct, model))
            br.cases += 1
            distinct.add(tuple(t[0] for t in trace) + (len(trace),) + tuple(trace[-1][1:] if trace else ()))
            if fail:
                br.failures.append({"clause": fail[0], "witness": {"history": [list(t) for t in trace]}, "detail": fail[1]})
            if len(br.samples) < 2:
                br.samples.append({"history": [list(t) for t in trace]})
        br.nontrivial = len(distinct)
        return br
    return run


def jobs(tier="quick", seed=0):
    yield Job("C20/IdentitySet", identity_set_harness, kind="E", func="gtirb_rewriting._adt.identity_set:IdentitySet", expect_cover=("enumerated",))
    yield Job("C20/OffsetMapping", offset_mapping_harness, setup=lambda: shims.installed([]), kind="E", func="gtirb_rewriting._adt.offset_mapping:OffsetMapping", expect_cover=("enumerated",))
    yield Job("C20/OffsetMapping-histories", offset_mapping_histories_harness, setup=lambda: shims.installed([]), kind="E", func="gtirb_rewriting._adt.offset_mapping:OffsetMapping",
              expect_cover=("enumerated",))
    yield Job("C20/BlockOrdering", block_ordering_harness, kind="E", func="gtirb_rewriting._adt.block_ordering:BlockOrdering + linked_list:LinkedListNode", expect_cover=("enumerated",))
    yield Job("C20/ReturnEdgeCache", return_cache_harness, kind="E", func="gtirb_rewriting._modify.cache:ReturnEdgeCache", expect_cover=("enumerated",))
    yield Job("C20/make_return_cache", make_return_cache_harness, kind="E", func="gtirb_rewriting._modify.cache:make_return_cache", expect_cover=("enumerated",))
    yield Job("C20/ReferenceCache-bounded", reference_cache_bounded(tier, seed), kind="B", func="gtirb_rewriting._modify.cache:ReferenceCache")
