"""C05 -- see contracts/registry.json for the clauses; D kernels + bounded apply-level stand-in + failure injection."""
import io
import itertools
import random

import gtirb

from pyvc.run import BResult, Job

from . import apply_bounded, kernels


class _Boom(Exception):
    """the exception injected into the k-th patch callback"""


def failure_injection(tier, seed):
    """C05, second sentence: "If apply() instead fails because a patch raises, what is left behind is still closed and serializable:
    ir.cfg is the caller's CFG object holding all live edges and no symbol is stranded without a referent" -- for an exception
    injected into the k-th patch callback, for every k"""
    def run():
        from bounded import driver, scen, validators as VAL
        from gtirb_rewriting import Patch, RewritingContext, patch_constraints
        br = BResult()
        br.bound = ("the multi-edit scenarios of bounded/scen.py (pairs in one block, edits in several blocks, whole-block deletions before a patch) that carry at least one patch; "
                    "the k-th patch callback raises, for every k; %s" % ("all pairs" if tier == "thorough" else "a seed-chosen slice of the pairs"))
        br.clauses = ["C05/failure/the-injected-exception-propagates", "C05/failure/ir.cfg-is-the-callers-cfg-object", "C05/failure/cfg-endpoints-in-module",
                      "C05/failure/no-symbol-stranded", "C05/failure/serialisable-and-round-trips", "C05/failure/aux-data-nodes-in-module"]
        distinct = set()
        rnd = random.Random(seed)
        space = [(sh, ed) for sh, ed in driver.scenario_space(tier, seed, kinds=["plain", "call", "jmp"], patches=["plain", "callg", "jmpL2", "lab"], callee2=(False, True))
                 if len(ed) >= 2 and any(e[3] for e in ed)]
        if tier == "quick":
            rnd.shuffle(space)
            space = space[:260]
        for shape, edits in space:
            edits = [tuple(e) + ((1,) if len(e) == 4 else ()) for e in edits]
            npatch = sum(1 for e in edits if e[3])
            for k in range(npatch):
                ir, m, bi, blocks, fl = scen.build(shape)
                cfg0 = ir.cfg
                syms0 = {s.name for s in m.symbols}
                # the patch callbacks run in application order (block address, offset, registration order)
                order = sorted(range(len(edits)), key=lambda i: (blocks[edits[i][4]].address, edits[i][1], i))
                patch_rank = {}
                for i in order:
                    if edits[i][3]:
                        patch_rank[i] = len(patch_rank)
                rc = RewritingContext(m, fl)
                for i, e in enumerate(edits):
                    op, o, l, pn, t = e
                    if pn and patch_rank[i] == k:
                        @patch_constraints()
                        def boom(ctx):
                            raise _Boom("injected")
                        p = Patch.from_function(boom)
                        if op == "ins":
                            rc.insert_at(blocks[t], o, p)
                        else:
                            rc.replace_at(blocks[t], o, l, p)
                    else:
                        scen.register(rc, blocks[t], e[:4])
                br.cases += 1
                distinct.add((repr(shape), tuple(edits), k))
                desc = {"shape": repr(shape), "edits": [list(e) for e in edits], "raising patch (application order)": k}
                try:
                    rc.apply()
                    br.failures.append({"clause": "C05/failure/the-injected-exception-propagates", "witness": desc, "detail": "apply() returned normally"})
                    continue
                except _Boom:
                    pass
                except Exception as ex:       # noqa
                    br.failures.append({"clause": "C05/failure/the-injected-exception-propagates", "witness": desc, "detail": "%s: %s" % (type(ex).__name__, str(ex)[:100])})
                    continue
                if ir.cfg is not cfg0:
                    br.failures.append({"clause": "C05/failure/ir.cfg-is-the-callers-cfg-object", "witness": desc, "detail": "ir.cfg was replaced"})
                for clause, detail in VAL.closure_problems(ir, m):
                    cl = {"C05/cfg-endpoints-in-module": "C05/failure/cfg-endpoints-in-module", "C05/symbol-referents-in-module": "C05/failure/no-symbol-stranded"}.get(clause, "C05/failure/aux-data-nodes-in-module")
                    br.failures.append({"clause": cl, "witness": desc, "detail": detail})
                for s in m.symbols:
                    if s.name in syms0 and s.referent is None and s.value is None:
                        br.failures.append({"clause": "C05/failure/no-symbol-stranded", "witness": desc, "detail": "%s has no referent" % s.name})
                try:
                    buf = io.BytesIO()
                    ir.save_protobuf_file(buf)
                    buf.seek(0)
                    ir2 = gtirb.IR.load_protobuf_file(buf)
                    if VAL.V_canon(ir) != VAL.V_canon(ir2):
                        br.failures.append({"clause": "C05/failure/serialisable-and-round-trips", "witness": desc, "detail": "canonical dumps differ after save/load"})
                except Exception as ex:       # noqa
                    br.failures.append({"clause": "C05/failure/serialisable-and-round-trips", "witness": desc, "detail": "%s: %s" % (type(ex).__name__, str(ex)[:100])})
                if len(br.samples) < 2:
                    br.samples.append(desc)
        br.nontrivial = len(distinct)
        return br
    return run


def inserted_functions(tier, seed):
    """C05 after apply() with functions inserted through register_insert_function: the stub (and its temporary return proxy), the body
    that replaces it -- or does not, when the body patch yields no code -- and the tables must leave a closed, serialisable IR"""
    def run():
        import logging
        from bounded import scen, validators as VAL
        from gtirb_rewriting import Patch, RewritingContext, patch_constraints
        logging.getLogger("gtirb_rewriting").setLevel(logging.CRITICAL)
        br = BResult()
        bodies = {"one-block": "nop\nret", "branch+label": "cmpq $0, %rdi\nje .Lz\nnop\n.Lz:\nret", "call": "call g\nret", "no-ret": "nop", "jmp-out": "jmp g",
                  "empty-string": "", "none": None}
        # (bodies that assemble to no bytes at all -- a label alone, a comment alone -- make apply() stop with an AssertionError / IndexError before it returns: outside the property)
        br.bound = ("module shapes of bounded/scen.py (kinds plain/call, with and without function info) x 1 or 2 functions inserted with register_insert_function x 7 bodies "
                    "(among them the empty string, None: bodies that yield no code) x optionally an ordinary edit in the same apply()")
        br.clauses = ["C05/inserted-functions/apply-succeeds", "C05/cfg-endpoints-in-module", "C05/symbol-referents-in-module", "C05/aux-data-nodes-in-module",
                      "C05/inserted-functions/serialisable-and-round-trips", "C05/inserted-functions/symbol-designates-a-block-of-the-module"]
        distinct = set()

        def mk(body):
            @patch_constraints()
            def f(ctx):
                return body
            return Patch.from_function(f)
        for kind, funcs, names, with_edit in itertools.product(("plain", "call"), (False, True),
                                                              [(n,) for n in bodies] + [("empty-string", "one-block"), ("call", "none"), ("none", "empty-string")], (False, True)):
            ir, m, bi, blocks, fl = scen.build(scen.Shape(kind, funcs))
            rc = RewritingContext(m, fl)
            syms = [rc.register_insert_function("newfn%d" % i, mk(bodies[b])) for i, b in enumerate(names)]
            if with_edit:
                rc.insert_at(blocks[1], 0, scen.mkpatch("nop"))
            br.cases += 1
            distinct.add((kind, funcs, names, with_edit))
            desc = {"shape": "kind=%s funcs=%s" % (kind, funcs), "inserted function bodies": [repr(bodies[b]) for b in names], "ordinary edit too": with_edit}
            try:
                rc.apply()
            except Exception as ex:      # noqa
                br.failures.append({"clause": "C05/inserted-functions/apply-succeeds", "witness": desc, "detail": "%s: %s" % (type(ex).__name__, str(ex)[:100])})
                continue
            for clause, detail in VAL.closure_problems(ir, m):
                br.failures.append({"clause": clause if clause in br.clauses else "C05/aux-data-nodes-in-module", "witness": desc, "detail": detail})
            for s_ in syms:
                if not isinstance(s_.referent, gtirb.CodeBlock) or s_.referent.module is not m:
                    br.failures.append({"clause": "C05/inserted-functions/symbol-designates-a-block-of-the-module", "witness": desc, "detail": "%s -> %r" % (s_.name, s_.referent)})
            try:
                buf = io.BytesIO()
                ir.save_protobuf_file(buf)
                buf.seek(0)
                ir2 = gtirb.IR.load_protobuf_file(buf)
                if VAL.V_canon(ir) != VAL.V_canon(ir2):
                    br.failures.append({"clause": "C05/inserted-functions/serialisable-and-round-trips", "witness": desc, "detail": "canonical dumps differ after save/load"})
            except Exception as ex:       # noqa
                br.failures.append({"clause": "C05/inserted-functions/serialisable-and-round-trips", "witness": desc, "detail": "%s: %s" % (type(ex).__name__, str(ex)[:100])})
            if len(br.samples) < 2:
                br.samples.append(desc)
        br.nontrivial = len(distinct)
        return br
    return run


def nested_blocks_padding(tier, seed):
    """C05 "newly created blocks never overlap" where blocks of the module legitimately do (a block nested in a longer one): the
    padding blocks the final layout adds (alignment of a following block, uninitialised tails made explicit) must keep out of them"""
    def run():
        import logging
        from gtirb_test_helpers import add_code_block, add_data_block, add_edge, add_proxy_block, add_text_section, create_test_module
        from bounded import scen, validators as VAL
        from gtirb_rewriting import RewritingContext, _auxdata
        logging.getLogger("gtirb_rewriting").setLevel(logging.CRITICAL)
        br = BResult()
        br.bound = ("x86-64 ELF text section: code block X, a data block A of 8 bytes with a block nested at offset 0/2/6 of size 2 (or none), 0 or 6 bytes outside any block, "
                    "a code block C aligned 1/4/16; 1..3 bytes inserted into X or A")
        br.clauses = ["C05/nested/apply-succeeds", "C05/nested/created-blocks-overlap-nothing", "C05/nested/original-blocks-keep-their-relative-geometry", "C05/cfg-endpoints-in-module",
                      "C05/symbol-referents-in-module", "C05/aux-data-nodes-in-module"]
        distinct = set()
        for nest, gap, align, where, nbytes in itertools.product((None, 0, 2, 6), (0, 6), (1, 4, 16), ("X", "A"), (1, 2, 3)):
            ir, m = create_test_module(gtirb.Module.FileFormat.ELF, gtirb.Module.ISA.X64)
            _, bi = add_text_section(m, address=0x1000)
            X = add_code_block(bi, b"\x90\xc3")
            add_edge(ir.cfg, X, add_proxy_block(m), gtirb.EdgeType.Return)
            A = add_data_block(bi, bytes(range(1, 9)))
            B = gtirb.DataBlock(offset=A.offset + nest, size=2, byte_interval=bi) if nest is not None else None
            bi.contents += b"\x00" * gap
            bi.size += gap
            C = gtirb.CodeBlock(offset=bi.size, size=1)
            bi.contents += b"\xc3"
            bi.size += 1
            C.byte_interval = bi
            add_edge(ir.cfg, C, add_proxy_block(m), gtirb.EdgeType.Return)
            if align > 1:
                _auxdata.alignment.set(m, {C: align})
            before = {id(b) for b in m.byte_blocks}
            rc = RewritingContext(m, [])
            if where == "X":
                rc.insert_at(X, 0, scen.mkpatch("\n".join(["nop"] * nbytes)))
            else:
                rc.insert_at(A, 8, scen.mkpatch("\n".join([".byte 7"] * nbytes)))
            br.cases += 1
            distinct.add((nest, gap, align, where, nbytes))
            desc = {"nested block at offset": nest, "bytes outside any block after the data": gap, "alignment of the following code block": align, "inserted into": where, "bytes inserted": nbytes}
            try:
                rc.apply()
            except Exception as ex:       # noqa
                br.failures.append({"clause": "C05/nested/apply-succeeds", "witness": desc, "detail": "%s: %s" % (type(ex).__name__, str(ex)[:100])})
                continue
            blocks = [b for b in m.byte_blocks if b.size]
            for nb in blocks:
                if id(nb) in before:
                    continue
                for e in blocks:
                    if e is not nb and nb.address < e.address + e.size and e.address < nb.address + nb.size:
                        br.failures.append({"clause": "C05/nested/created-blocks-overlap-nothing", "witness": desc,
                                            "detail": "created %s %#x+%d overlaps %s %#x+%d" % (type(nb).__name__, nb.address, nb.size, type(e).__name__, e.address, e.size)})
                        break
            if B is not None and (B.address - A.address != nest or B.size != 2):
                br.failures.append({"clause": "C05/nested/original-blocks-keep-their-relative-geometry", "witness": desc, "detail": "nested block now at +%d" % (B.address - A.address)})
            if align > 1 and C.address % align:
                br.failures.append({"clause": "C05/nested/original-blocks-keep-their-relative-geometry", "witness": desc, "detail": "aligned block at %#x" % C.address})
            for clause, detail in VAL.closure_problems(ir, m):
                br.failures.append({"clause": clause if clause in br.clauses else "C05/aux-data-nodes-in-module", "witness": desc, "detail": detail})
            if len(br.samples) < 2:
                br.samples.append(desc)
        br.nontrivial = len(distinct)
        return br
    return run


def mixed_code_data(tier, seed):
    """C05 on text sections that MIX code and data blocks: code patches (straight-line, ending in a branched-to label, ending in a jump) and
    data patches inserted at every offset -- the end included -- of a data block that lies between / before / after code blocks, and
    whole deletions next to them; after apply(): closed, no zero-sized block outside the documented cases, serialisable"""
    def run():
        import logging
        from gtirb_rewriting import RewritingContext
        from gtirb_test_helpers import add_code_block, add_data_block, add_edge, add_proxy_block, add_symbol, add_text_section, create_test_module
        from bounded import scen, validators as VAL
        logging.getLogger("gtirb_rewriting").setLevel(logging.CRITICAL)
        br = BResult()
        patches = {"plain": "nop", "skip": "testl %eax, %eax\njz .Lskip\nnop\n.Lskip:", "jmp": "jmp after", "data": ".byte 7, 8", "lab-end": "nop\nPL:", "loop": ".Ltop:\ndecl %eax\njnz .Ltop"}
        layouts = {"code|data|code": ("c", "d", "c"), "data|code": ("d", "c"), "code|data": ("c", "d"), "data|data|code": ("d", "d", "c")}
        br.bound = "text sections mixing code and data blocks (4 layouts); 6 patches inserted at every offset (0..size) of every data block and at the end of every code block; whole deletion of each block combined with an insertion into its neighbour"
        br.clauses = ["C05/mixed/closed", "C05/mixed/zero-sized-blocks-only-in-documented-cases", "C05/mixed/serialisable-and-round-trips", "C05/mixed/apply-does-not-raise"]
        distinct = set()

        def build(lay):
            ir, m = create_test_module(gtirb.Module.FileFormat.ELF, gtirb.Module.ISA.X64)
            _, bi = add_text_section(m, address=0x1000)
            blocks = []
            for i, k in enumerate(lay):
                last = i == len(lay) - 1
                b = add_data_block(bi, b"\x01\x02\x03\x04") if k == "d" else add_code_block(bi, b"\x90\xc3" if last else b"\x90\x90")
                blocks.append(b)
                add_symbol(m, "after" if (last and k == "c") else "s%d" % i, b)
            for a, b in zip(blocks, blocks[1:]):
                if isinstance(a, gtirb.CodeBlock) and isinstance(b, gtirb.CodeBlock):
                    add_edge(ir.cfg, a, b, gtirb.EdgeType.Fallthrough)
            for b in blocks:
                if isinstance(b, gtirb.CodeBlock) and bytes(b.contents).endswith(b"\xc3"):
                    add_edge(ir.cfg, b, add_proxy_block(m), gtirb.EdgeType.Return)
            return ir, m, blocks
        cases = []
        for lname, lay in layouts.items():
            for bi_, k in enumerate(lay):
                offs = range(5) if k == "d" else (2,)
                nxt_code = bi_ + 1 < len(lay) and lay[bi_ + 1] == "c"
                for o in offs:
                    for pn in patches:
                        falls = pn in ("plain", "skip", "lab-end", "loop")
                        at_end = o == (4 if k == "d" else 2)
                        if falls and not (at_end and nxt_code):
                            continue          # code that falls through must be followed by code (a program running into data is not a sensible input)
                        if pn == "data" and k != "d":
                            continue
                        if pn == "jmp" and lay[-1] != "c":
                            continue          # no code label to jump to
                        cases.append((lname, [("ins", bi_, o, pn)]))
                # whole deletion of this block + an insertion at the end / start of a neighbour
                for nb in (bi_ - 1, bi_ + 1):
                    if 0 <= nb < len(lay):
                        after_nb = [x for j, x in enumerate(lay) if j > nb]          # what follows in the ORIGINAL layout (modifications are applied in address order)
                        for pn in ("plain", "skip", "jmp"):
                            end_ins = nb < bi_
                            if pn != "jmp" and not (end_ins and after_nb[:1] == ["c"]):
                                continue
                            if pn == "jmp" and (lay[-1] != "c" or bi_ == len(lay) - 1):
                                continue
                            cases.append((lname, [("del", bi_, 0, None), ("ins", nb, (4 if lay[nb] == "d" else 2) if end_ins else 0, pn)]))
        for lname, edits in cases:
            ir, m, blocks = build(layouts[lname])
            rc = RewritingContext(m, [])
            for op, b, o, pn in edits:
                if op == "ins":
                    rc.insert_at(blocks[b], o, scen.mkpatch(patches[pn]))
                else:
                    rc.delete_at(blocks[b], 0, blocks[b].size)
            br.cases += 1
            distinct.add((lname, tuple(edits)))
            desc = {"layout": lname, "edits": [[op, "block %d" % b, o, (patches[pn].splitlines() if pn else None)] for op, b, o, pn in edits]}
            try:
                rc.apply()
            except Exception as ex:       # noqa
                br.failures.append({"clause": "C05/mixed/apply-does-not-raise", "witness": desc, "detail": "%s: %s" % (type(ex).__name__, str(ex)[:100])})
                continue
            for clause, detail in VAL.closure_problems(ir, m):
                br.failures.append({"clause": "C05/mixed/closed", "witness": desc, "detail": "%s: %s" % (clause, detail)})
            deleted_whole = any(op == "del" for op, *_ in edits)
            for b in m.byte_blocks:
                if b.size == 0 and b.section.name == ".text" and not deleted_whole:
                    br.failures.append({"clause": "C05/mixed/zero-sized-blocks-only-in-documented-cases", "witness": desc, "detail": "zero-sized %s left at %#x by an insertion" % (type(b).__name__, b.address)})
            try:
                buf = io.BytesIO()
                ir.save_protobuf_file(buf)
                buf.seek(0)
                ir2 = gtirb.IR.load_protobuf_file(buf)
                if VAL.V_canon(ir) != VAL.V_canon(ir2):
                    br.failures.append({"clause": "C05/mixed/serialisable-and-round-trips", "witness": desc, "detail": "canonical dumps differ after save/load"})
            except Exception as ex:       # noqa
                br.failures.append({"clause": "C05/mixed/serialisable-and-round-trips", "witness": desc, "detail": "%s: %s" % (type(ex).__name__, str(ex)[:100])})
            if len(br.samples) < 2:
                br.samples.append(desc)
        br.nontrivial = len(distinct)
        return br
    return run


def jobs(tier="quick", seed=0):
    yield Job("C05/mixed-code-data-bounded", mixed_code_data(tier, seed), kind="B", func="gtirb_rewriting.rewriting:RewritingContext.apply (code and data blocks mixed)")
    yield from kernels.jobs_for("C05", tier, seed)
    yield apply_bounded.job("C05", tier, seed)
    yield Job("C05/inserted-functions-bounded", inserted_functions(tier, seed), kind="B", func="gtirb_rewriting.rewriting:RewritingContext.register_insert_function / _insert_function_stub / _apply_function_insertion")
    yield Job("C05/nested-blocks-padding-bounded", nested_blocks_padding(tier, seed), kind="B", func="gtirb_rewriting.intervalutils:join_byte_intervals / prepare (overlapping blocks)")
    yield Job("C05/failure-injection-bounded", failure_injection(tier, seed), kind="B", func="gtirb_rewriting.rewriting:RewritingContext.apply (failure path)")
    # the contract of make_return_cache ("the caller's CFG object gets the final edges even when the body raises") is discharged here too
    from . import c20
    for j in c20.jobs(tier, seed):
        if j.id == "C20/make_return_cache":
            j.id = "C05/dep/" + j.id
            yield j
