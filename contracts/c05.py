"""C05 -- see contracts/registry.json for the clauses; D kernels + bounded apply-level stand-in + failure injection."""
import io
import itertools
import random

import gtirb

from pyvc.run import BResult, Job

from . import apply_bounded, kernels


class _Boom(Exception):
    """the exception injected into the k-th patch callback"""


def failure_injection(tier, seed):
    """C05, second sentence: "If apply() instead fails because a patch raises, what is left behind is still closed and serializable:
    ir.cfg is the caller's CFG object holding all live edges and no symbol is stranded without a referent" -- for an exception
    injected into the k-th patch callback, for every k"""
    def run():
        from bounded import driver, scen, validators as VAL
        from gtirb_rewriting import Patch, RewritingContext, patch_constraints
        br = BResult()
        br.bound = ("the multi-edit scenarios of bounded/scen.py (pairs in one block, edits in several blocks, whole-block deletions before a patch) that carry at least one patch; "
                    "the k-th patch callback raises, for every k; %s" % ("all pairs" if tier == "thorough" else "a seed-chosen slice of the pairs"))
        br.clauses = ["C05/failure/the-injected-exception-propagates", "C05/failure/ir.cfg-is-the-callers-cfg-object", "C05/failure/cfg-endpoints-in-module",
                      "C05/failure/no-symbol-stranded", "C05/failure/serialisable-and-round-trips", "C05/failure/aux-data-nodes-in-module"]
        distinct = set()
        rnd = random.Random(seed)
        space = [(sh, ed) for sh, ed in driver.scenario_space(tier, seed, kinds=["plain", "call", "jmp"], patches=["plain", "callg", "jmpL2", "lab"], callee2=(False, True))
                 if len(ed) >= 2 and any(e[3] for e in ed)]
        if tier == "quick":
            rnd.shuffle(space)
            space = space[:260]
        for shape, edits in space:
            edits = [tuple(e) + ((1,) if len(e) == 4 else ()) for e in edits]
            npatch = sum(1 for e in edits if e[3])
            for k in range(npatch):
                ir, m, bi, blocks, fl = scen.build(shape)
                cfg0 = ir.cfg
                syms0 = {s.name for s in m.symbols}
                # the patch callbacks run in application order (block address, offset, registration order)
                order = sorted(range(len(edits)), key=lambda i: (blocks[edits[i][4]].address, edits[i][1], i))
                patch_rank = {}
                for i in order:
                    if edits[i][3]:
                        patch_rank[i] = len(patch_rank)
                rc = RewritingContext(m, fl)
                for i, e in enumerate(edits):
                    op, o, l, pn, t = e
                    if pn and patch_rank[i] == k:
                        @patch_constraints()
                        def boom(ctx):
                            raise _Boom("injected")
                        p = Patch.from_function(boom)
                        if op == "ins":
                            rc.insert_at(blocks[t], o, p)
                        else:
                            rc.replace_at(blocks[t], o, l, p)
                    else:
                        scen.register(rc, blocks[t], e[:4])
                br.cases += 1
                distinct.add((repr(shape), tuple(edits), k))
                desc = {"shape": repr(shape), "edits": [list(e) for e in edits], "raising patch (application order)": k}
                try:
                    rc.apply()
                    br.failures.append({"clause": "C05/failure/the-injected-exception-propagates", "witness": desc, "detail": "apply() returned normally"})
                    continue
                except _Boom:
                    pass
                except Exception as ex:       # noqa
                    br.failures.append({"clause": "C05/failure/the-injected-exception-propagates", "witness": desc, "detail": "%s: %s" % (type(ex).__name__, str(ex)[:100])})
                    continue
                if ir.cfg is not cfg0:
                    br.failures.append({"clause": "C05/failure/ir.cfg-is-the-callers-cfg-object", "witness": desc, "detail": "ir.cfg was replaced"})
                for clause, detail in VAL.closure_problems(ir, m):
                    cl = {"C05/cfg-endpoints-in-module": "C05/failure/cfg-endpoints-in-module", "C05/symbol-referents-in-module": "C05/failure/no-symbol-stranded"}.get(clause, "C05/failure/aux-data-nodes-in-module")
                    br.failures.append({"clause": cl, "witness": desc, "detail": detail})
                for s in m.symbols:
                    if s.name in syms0 and s.referent is None and s.value is None:
                        br.failures.append({"clause": "C05/failure/no-symbol-stranded", "witness": desc, "detail": "%s has no referent" % s.name})
                try:
                    buf = io.BytesIO()
                    ir.save_protobuf_file(buf)
                    buf.seek(0)
                    ir2 = gtirb.IR.load_protobuf_file(buf)
                    if VAL.V_canon(ir) != VAL.V_canon(ir2):
                        br.failures.append({"clause": "C05/failure/serialisable-and-round-trips", "witness": desc, "detail": "canonical dumps differ after save/load"})
                except Exception as ex:       # noqa
                    br.failures.append({"clause": "C05/failure/serialisable-and-round-trips", "witness": desc, "detail": "%s: %s" % (type(ex).__name__, str(ex)[:100])})
                if len(br.samples) < 2:
                    br.samples.append(desc)
        br.nontrivial = len(distinct)
        return br
    return run


def jobs(tier="quick", seed=0):
    yield from kernels.jobs_for("C05", tier, seed)
    yield apply_bounded.job("C05", tier, seed)
    yield Job("C05/failure-injection-bounded", failure_injection(tier, seed), kind="B", func="gtirb_rewriting.rewriting:RewritingContext.apply (failure path)")
    # the contract of make_return_cache ("the caller's CFG object gets the final edges even when the body raises") is discharged here too
    from . import c20
    for j in c20.jobs(tier, seed):
        if j.id == "C20/make_return_cache":
            j.id = "C05/dep/" + j.id
            yield j
