"""C16 (continued) -- ABI._allocate_patch_registers, for ALL Constraints.

Real source, both for-each loops cut by loop contracts over arbitrary sets of (valid) register names; the lists / sets
of registers are sub-collections of abi.all_registers() with symbolic membership (pyvc.masked), so one exploration
covers every subset.  Ghost: C = registers named by clobbers_registers, R = registers named by reads_registers.
  loop #0 invariant   available == scratch0 \\ C_visited      clobbered == C_visited
  loop #1 invariant   available == scratch0 \\ C \\ R_visited   (removing an absent register is the documented ValueError)
Postcondition (k = constraints.scratch_registers >= 0):
  ValueError("unable to allocate")  <=>  k > |scratch0 \\ C \\ R|
  scratch  = the first k registers of scratch0 \\ C \\ R in ABI order: pairwise distinct, exactly k, none read, none clobbered
             by name, all inside _scratch_registers() (which natively excludes sp and the reserved registers)
  clobbered = C u scratch u (caller_saved if preserve_caller_saved_registers), duplicate-free, sorted by ABI index
"""
import z3

from gtirb_rewriting import abi as A
from gtirb_rewriting.assembly import Constraints

from pyvc import core, instrument, shims
from pyvc.core import Unsupported
from pyvc.masked import MaskedList, MaskedSet, SymChoice, sorted_
from pyvc.run import Job
from pyvc.sym import SymBool, SymInt, zint

from . import c16

CLOB, READS = object(), object()

RESERVED = {  # registers a scratch allocation must never hand out, from the platform ABIs (AAPCS64 6.1.1; MIPS o32)
    "ARM64": {"x16", "x17", "x18", "x29", "x30", "sp"},
    "MIPS32": {"t8", "t9", "k0", "k1", "gp", "sp", "fp", "ra", "at", "zero"},
    "X64": {"rsp"}, "IA32": {"esp"},
}


def _names(abi):
    return sorted(abi._register_map.keys())


class _Loop(instrument.LoopSpec):
    local_names = ("clobber", "read", "reg")
    mutates = ("available_scratch_registers", "clobbered_registers")
    which = None

    def __init__(self, ctx, iterable, env):
        super().__init__(ctx, iterable, env)
        self.not_applicable = iterable is not (CLOB if self.which == 0 else READS)
        self.g = ctx.ghost

    def _expected(self, j, c, rd):
        s0 = self.g["scratch0"][j]
        t = z3.And(z3.BoolVal(s0), z3.Not(c[j]))
        return z3.And(t, z3.Not(rd[j])) if rd is not None else t

    def establish(self, env):
        av, cl = env["available_scratch_registers"], env["clobbered_registers"]
        ok = isinstance(av, MaskedList) and isinstance(cl, MaskedSet)
        self.ctx.prove("alloc/loop%d/collections" % self.which, z3.BoolVal(ok))
        U = len(self.g["U"])
        if self.which == 0:
            self.ctx.prove("alloc/loop0/established", z3.And([av.bits[j] == z3.BoolVal(self.g["scratch0"][j]) for j in range(U)] +
                                                             [z3.Not(cl.bits[j]) for j in range(U)]))
        else:
            C = self.g["C"]
            self.ctx.prove("alloc/loop1/established", z3.And([av.bits[j] == self._expected(j, C, None) for j in range(U)] +
                                                             [cl.bits[j] == C[j] for j in range(U)]))

    def havoc(self, env):
        ctx, g = self.ctx, self.g
        U = len(g["U"])
        av, cl = env["available_scratch_registers"], env["clobbered_registers"]
        vis = [ctx.bool("%s%d" % ("c" if self.which == 0 else "rd", j), inp=False) for j in range(U)]
        self.vis = vis
        if self.which == 0:
            av.bits = [self._expected(j, vis, None) for j in range(U)]
            cl.bits = list(vis)
        else:
            C = g["C"]
            for j in range(U):
                ctx.assume(z3.Implies(vis[j], z3.And(z3.BoolVal(g["scratch0"][j]), z3.Not(C[j]))))     # each removed register was present
            av.bits = [self._expected(j, C, vis) for j in range(U)]
            cl.bits = list(C)
        return {}

    def has_next(self):
        return SymBool(self.ctx.bool("more", inp=False))

    def element(self):
        names = self.g["names"]
        i = self.ctx.int("name_idx")
        self.ctx.assume(z3.And(i >= 0, i < len(names)))
        self.name = SymChoice(names, SymInt(i))
        return self.name

    def preserved(self, env):
        ctx, g = self.ctx, self.g
        U = g["U"]
        av, cl = env["available_scratch_registers"], env["clobbered_registers"]
        r = [k for k, u in enumerate(U) if u == g["abi"].get_register(self.name.value())][0]
        vis2 = [z3.Or(self.vis[j], z3.BoolVal(j == r)) for j in range(len(U))]
        if self.which == 0:
            ctx.prove("alloc/loop0/preserved", z3.And([av.bits[j] == self._expected(j, vis2, None) for j in range(len(U))] +
                                                      [cl.bits[j] == vis2[j] for j in range(len(U))]))
        else:
            C = g["C"]
            ctx.prove("alloc/loop1/preserved", z3.And([av.bits[j] == self._expected(j, C, vis2) for j in range(len(U))] +
                                                      [cl.bits[j] == C[j] for j in range(len(U))]))

    def at_exit(self, env):
        self.g["C" if self.which == 0 else "R"] = list(self.vis)


class Loop0(_Loop):
    which = 0


class Loop1(_Loop):
    which = 1


class _setup:
    def __init__(self, abi):
        self.abi = abi

    def __enter__(self):
        abi = self.abi
        U = abi.all_registers()

        def list_(x=()):
            x = list(x)
            return MaskedList(U, [any(u == y for y in x) for u in U]) if all(any(u == y for u in U) for y in x) else x

        def set_(x=()):
            s = MaskedSet(U)
            for y in x:
                s.add(y)
            return s
        self.cms = [shims.installed([A], extra={A.__name__: {"list": list_, "set": set_, "sorted": sorted_}}),
                    instrument.instrumented({"abi:ABI._allocate_patch_registers": (A.ABI._allocate_patch_registers, {0: Loop0, 1: Loop1}, False)})]
        for c in self.cms:
            c.__enter__()
        return self

    def __exit__(self, *e):
        for c in reversed(self.cms):
            c.__exit__(*e)
        return False


def make_harness(name, abi):
    isa = name.split("-")[0]

    def harness(ctx):
        g = ctx.ghost
        U = abi.all_registers()
        scr = abi._scratch_registers()
        g.update(U=U, abi=abi, names=_names(abi), scratch0=[any(u == s for s in scr) for u in U])
        # native facts about _scratch_registers(): inside all_registers, duplicate-free, no sp / reserved register
        nm = lambda r: {n.lower() for n in r.sizes.values()}
        ctx.prove("alloc/scratch-capable-registers-are-general-registers-without-duplicates",
                  z3.BoolVal(all(any(u == s for u in U) for s in scr) and len({id(x) for x in scr}) == len(scr) and
                             all(sum(1 for t in scr if t == s) == 1 for s in scr)))
        ctx.prove("alloc/scratch-capable-registers-exclude-sp-and-reserved",
                  z3.BoolVal(all(not (nm(s) & RESERVED[isa]) for s in scr)))
        k = ctx.int("k_scratch")
        kpos = k >= 0
        ctx.assume(kpos)
        pcs = SymBool(ctx.bool("preserve_caller_saved"))
        cons = Constraints()
        cons.clobbers_registers, cons.reads_registers = CLOB, READS
        cons.scratch_registers, cons.preserve_caller_saved_registers = SymInt(k), pcs
        try:
            res = abi._allocate_patch_registers(cons)
        except ValueError as e:
            C, R = g.get("C"), g.get("R")
            if "unable to allocate" in str(e) and C is not None and R is not None:
                ctx.cover("too-many-requested")
                free = z3.Sum([z3.If(z3.And(z3.BoolVal(g["scratch0"][j]), z3.Not(C[j]), z3.Not(R[j])), 1, 0) for j in range(len(U))])
                ctx.prove("alloc/ValueError-only-when-more-requested-than-free", k > free)
            else:
                ctx.cover("read-register-not-available")      # documented loud failure (list.remove): read register clobbered / not scratch-capable / named twice
                ctx.prove("alloc/ValueError-from-remove-only-inside-reads-loop", z3.BoolVal(C is not None and R is None))
            return
        ctx.cover("allocated")
        C, R = g["C"], g["R"]
        n = len(U)
        free = [z3.And(z3.BoolVal(g["scratch0"][j]), z3.Not(C[j]), z3.Not(R[j])) for j in range(n)]
        ctx.prove("alloc/enough-free-registers", k <= z3.Sum([z3.If(f, 1, 0) for f in free]))
        g["free_total"] = z3.Sum([z3.If(f, 1, 0) for f in free])
        sc, cl, av = res.scratch_registers, res.clobbered_registers, res.available_registers
        ok = isinstance(sc, MaskedList) and isinstance(cl, MaskedList) and [u for u in sc.U] == U and cl.U == U
        ctx.prove("alloc/results-in-ABI-order-without-duplicates", z3.BoolVal(ok),
                  note="masked lists over all_registers(): duplicate-free and ordered by ABI index by construction of the sort key")
        if not ok:
            return
        # scratch = available[:k]  (model of list slicing: element j is kept iff fewer than k kept-candidates precede it)
        pf = getattr(sc, "prefix_of", None)
        ok2 = pf is not None and isinstance(av, MaskedList) and len(pf[0]) == n and all(a_.eq(b_) for a_, b_ in zip(pf[0], av.bits)) and pf[3].eq(k)
        ctx.prove("alloc/scratch-are-the-first-k-of-the-available-list", z3.BoolVal(ok2))
        if not ok2:
            return
        src, r, rdefs, _ = pf
        # |first k| == min(|available|, k): induction over the registers, every step proved from three definitions only
        q, qdefs = sc.running()
        inv = None
        for j in range(n):
            hyps = [kpos, rdefs[j], qdefs[j]] + ([inv] if inv is not None else [])
            goal = q[j + 1] == z3.If(r[j + 1] < k, r[j + 1], k)
            ctx.prove_from("alloc/hint/count-of-first-k-is-min", hyps, goal, note="step %d" % j)
            inv = goal
        ctx.prove("alloc/scratch-count-as-requested", sc.count() == k)
        ctx.prove("alloc/scratch-never-a-read-register", z3.And([z3.Implies(sc.bits[j], z3.Not(R[j])) for j in range(n)]))
        ctx.prove("alloc/scratch-never-a-named-clobber", z3.And([z3.Implies(sc.bits[j], z3.Not(C[j])) for j in range(n)]))
        ctx.prove("alloc/scratch-only-scratch-capable", z3.And([z3.Implies(sc.bits[j], z3.BoolVal(g["scratch0"][j])) for j in range(n)]))
        cs = abi.caller_saved_registers()
        csb = [any(u == x for x in cs) for u in U]
        ctx.prove("alloc/clobbered-is-exactly-clobbers+scratch+caller-saved",
                  z3.And([cl.bits[j] == z3.Or(C[j], sc.bits[j], z3.And(pcs.term, z3.BoolVal(csb[j]))) for j in range(n)]))
        ctx.prove("alloc/available-is-what-is-left", z3.And([av.bits[j] == free[j] for j in range(n)]) if isinstance(av, MaskedList) else z3.BoolVal(False))
    return harness


def native_oracle(abi, cons):
    """independent reading of the contract on concrete Constraints -> ('ValueError',) | (scratch, clobbered)"""
    U = abi.all_registers()
    idx = lambda r: [i for i, u in enumerate(U) if u == r][0]
    C = {idx(abi.get_register(n)) for n in cons.clobbers_registers}
    Rl = [idx(abi.get_register(n)) for n in cons.reads_registers]
    scr0 = [idx(r) for r in abi._scratch_registers()]
    free = [i for i in scr0 if i not in C]
    for r in Rl:
        if r not in free:
            return ("ValueError",)
        free.remove(r)
    if cons.scratch_registers > len(free):
        return ("ValueError",)
    sc = free[:cons.scratch_registers]
    cl = set(C) | set(sc) | ({idx(r) for r in abi.caller_saved_registers()} if cons.preserve_caller_saved_registers else set())
    return (sc, sorted(cl))


def replay(abi):
    """bounded native search for an input on which the real function disagrees with the oracle (no direct model: the
    failing obligation quantifies over name sets)"""
    def rp(clause, model):
        import itertools
        U = abi.all_registers()
        names = [r.name for r in U]
        idx = lambda r: [i for i, u in enumerate(U) if u == r][0]
        subsets = [()] + [(n,) for n in names] + list(itertools.combinations(names[:6], 2))
        for cl in subsets:
            for rd in [()] + [(n,) for n in names[:8]]:
                for k in (0, 1, 2, 3, len(U)):
                    for pcs in (False, True):
                        cons = Constraints(clobbers_registers=set(cl), reads_registers=set(rd), scratch_registers=k, preserve_caller_saved_registers=pcs)
                        want = native_oracle(abi, cons)
                        try:
                            res = abi._allocate_patch_registers(cons)
                            got = ([idx(r) for r in res.scratch_registers], [idx(r) for r in res.clobbered_registers])
                        except ValueError:
                            got = ("ValueError",)
                        except Exception as e:
                            got = (type(e).__name__,)
                        if tuple(got) != tuple(want):
                            return {"confirmed": True, "constraints": repr(cons), "observed": repr(got), "expected": repr(want)}
        return {"confirmed": False, "observed": "no disagreement on the bounded native search"}
    return rp


def bounded_alloc(abi):
    """B safety net: the same contract checked natively on an enumerated set of Constraints (see replay())"""
    def run():
        from pyvc.run import BResult
        br = BResult()
        br.bound = "clobbers: none / every single register / pairs of the first 6; reads: none / one of the first 8; scratch 0,1,2,3,|U|; preserve_caller_saved x2"
        br.clauses = ["alloc-native/scratch-and-clobbered-sets-as-the-contract-says"]
        r = replay(abi)(None, {})
        br.cases = br.nontrivial = 1
        if r.get("confirmed"):
            br.failures.append({"clause": br.clauses[0], "witness": {"constraints": r.get("constraints")}, "detail": "observed %s expected %s" % (r.get("observed"), r.get("expected"))})
        br.samples = [{"abi": type(abi).__name__}]
        return br
    return run


def jobs(tier="quick", seed=0):
    for name, abi, syntax in c16.abis():
        yield Job("C16/alloc-native/%s" % name, bounded_alloc(abi), kind="B", func="gtirb_rewriting.abi:ABI._allocate_patch_registers")
        yield Job("C16/alloc/%s" % name, make_harness(name, abi), setup=lambda abi=abi: _setup(abi), kind="D", replay=replay(abi),
                  func="gtirb_rewriting.abi:ABI._allocate_patch_registers",
                  expect_cover=("allocated", "too-many-requested", "loop-preserved:abi:ABI._allocate_patch_registers#0",
                                "loop-preserved:abi:ABI._allocate_patch_registers#1"), timeout_ms=30000, max_seconds=900)
