"""C14/leb128 -- the installed `leb128` source computes the standard's LEB128 (discharges A-LEB-ENC).

leb128._U.encode / _I.encode: real source, `while True` loop cut by the invariant
    r ++ LEB(i) == LEB(i0)          (r = bytes emitted so far, i = remaining value)
stated pointwise:  len(r) + LEN(i) == LEN(i0)  /\\  forall j < len(r): r[j] == BYTE(i0, j)
                   /\\  forall j: BYTE(i, j) == BYTE(i0, len(r) + j)
with LEN/BYTE the recursive definitions of the standard (contracts/dep_leb128.py).
"""
import z3

import leb128

from pyvc import core, instrument, shims
from pyvc.run import Job
from pyvc.sym import Chunk, SymBytes, SymInt, mk_int, zint

from . import dep_leb128 as D


def _mk_spec(LEN, BYTE, signed):
    class Spec(instrument.LoopSpec):
        local_names = ("b",)
        mutates = ("r",)

        def establish(self, env):
            c = self.ctx
            r, i = env["r"], env["i"]
            c.prove("inv-established", z3.BoolVal(isinstance(r, SymBytes) and r.length() == 0))
            self.i0 = c.ghost["i0"]

        def havoc(self, env):
            c = self.ctx
            r = env["r"]
            i0 = zint(self.i0)
            n = c.int("r_len", inp=False)
            arr = c.array("r_bytes", inp=False)
            i = c.int("i_cur", inp=False)
            r.chunks = [Chunk("arr", n=SymInt(n), arr=arr)]
            c.assume(n >= 0)
            if not signed:
                c.assume(i >= 0)
            c.assume(n + LEN(i) == LEN(i0))
            # the two universally quantified clauses of the invariant, instantiated at exactly the terms the
            # obligations below use (skolem constants j_sk, j_post): quantifier-free queries
            self.jsk = c.int("j_sk", inp=False)
            jpost = c.ghost["j_post"]
            for j in (self.jsk, jpost):
                c.assume(z3.Implies(z3.And(0 <= j, j < n), z3.And(z3.Select(arr, j) == BYTE(i0, j),
                                                                 z3.Select(arr, j) >= 0, z3.Select(arr, j) < 256)))
            for j in (z3.IntVal(0), self.jsk + 1):
                c.assume(z3.Implies(j >= 0, BYTE(i, j) == BYTE(i0, n + j)))
            # a `while True` loop: not the first iteration unless n == 0 -- nothing more to say
            self.n, self.arr, self.ih = n, arr, i
            return {"i": SymInt(i)}

        def preserved(self, env):
            c = self.ctx
            r, i = env["r"], env["i"]
            i0 = zint(self.i0)
            n2 = r.zlen()
            it = zint(i)
            c.prove("inv-preserved/length", z3.And(n2 >= 0, n2 + LEN(it) == LEN(i0)))
            if not signed:
                c.prove("inv-preserved/nonneg", it >= 0)
            j = self.jsk
            c.prove("inv-preserved/prefix", z3.Implies(z3.And(0 <= j, j < n2), z3.And(r.at(j) == BYTE(i0, j), r.at(j) >= 0, r.at(j) < 256)))
            # hints (each one is itself proved before it is used): instance of the hypothesis at j+1, one unfolding of BYTE
            c.prove("inv-preserved/hint-instance", z3.Implies(j >= 0, BYTE(self.ih, j + 1) == BYTE(i0, self.n + j + 1)))
            c.prove("inv-preserved/hint-unfold", z3.Implies(j >= 0, BYTE(self.ih, j + 1) == BYTE(self.ih / 128, j)))
            c.prove("inv-preserved/suffix", z3.Implies(j >= 0, BYTE(it, j) == BYTE(i0, n2 + j)))

    return Spec


def make_harness(fn, LEN, BYTE, signed, name):
    def harness(ctx):
        i0 = ctx.int("i")
        ctx.ghost["i0"] = SymInt(i0)
        ctx.ghost["j_post"] = ctx.int("j_post", inp=False)
        try:
            r = fn(SymInt(i0))
        except AssertionError:
            ctx.prove(name + "/raises-only-when-negative-unsigned", z3.BoolVal(not signed) if signed else i0 < 0)
            return
        if not signed:
            ctx.prove(name + "/accepts-only-nonnegative", i0 >= 0)
        ctx.cover("returned")
        r = SymBytes.of(r)
        ctx.prove(name + "/length-is-standard", r.zlen() == LEN(i0))
        j = ctx.ghost["j_post"]
        ctx.prove(name + "/bytes-are-standard", z3.Implies(z3.And(0 <= j, j < r.zlen()), z3.And(r.at(j) == BYTE(i0, j), r.at(j) >= 0, r.at(j) < 256)))

    return harness


class _setup:
    def __init__(self, fn, key, spec):
        self.fn, self.key, self.spec = fn, key, spec

    def __enter__(self):
        self.a = shims.installed([leb128])
        self.b = instrument.instrumented({self.key: (self.fn, {0: self.spec}, False)})
        self.a.__enter__()
        self.b.__enter__()
        return self

    def __exit__(self, *e):
        self.b.__exit__(*e)
        self.a.__exit__(*e)
        return False


def replay(fn, spec_fn, signed):
    def rp(clause, model):
        k = [x for x in model if x.startswith("i!")]
        v = model[k[0]] if k else 0
        if not signed and v < 0:
            return {"confirmed": False, "input": v, "observed": "negative input for unsigned"}
        got = list(fn(v))
        want = spec_fn(v)
        return {"confirmed": got != want, "input": v, "observed": got, "expected": want}
    return rp


def jobs(tier="quick", seed=0):
    from spec import dwarf_std
    for nm, fn, LEN, BYTE, signed, sf in (("u.encode", leb128._U.encode, D.ULEN, D.UBYTE, False, dwarf_std.uleb),
                                          ("i.encode", leb128._I.encode, D.SLEN, D.SBYTE, True, dwarf_std.sleb)):
        key = "leb128:" + nm
        spec = _mk_spec(LEN, BYTE, signed)
        yield Job("C14/leb128/" + nm, make_harness(fn, LEN, BYTE, signed, nm),
                  setup=(lambda fn=fn, key=key, spec=spec: _setup(fn, key, spec)),
                  replay=replay(fn, sf, signed), kind="D", func="leb128:_%s.encode" % nm[0].upper(),
                  expect_cover=("returned", "loop-preserved:%s#0" % key), timeout_ms=60000)


def _decode_bounded(seed):
    """B stand-in for the pair lemma A-LEB-DEC: decode_reader(encode(v) ++ tail) == (v, len(encode(v))).
    Bound: every v within 300 of +-128^k / +-64*128^k for k = 0..10, plus 4000 pseudo-random 70-bit values."""
    import io
    import random
    from pyvc.run import BResult
    from spec import dwarf_std

    def run():
        br = BResult()
        br.bound = "v within 300 of 128^k, 64*128^k (k<=10), both signs for signed; 4000 random values < 2^70; tails b'', b'\\x80\\x01', b'\\x7f'"
        br.clauses = ["leb128/u.decode_reader-inverts-u.encode", "leb128/i.decode_reader-inverts-i.encode"]
        rnd = random.Random(seed)
        vals = set()
        for k in range(0, 11):
            for base in (128 ** k, 64 * 128 ** k):
                for d in range(-300, 301):
                    vals.add(base + d)
                    vals.add(-(base + d))
        for _ in range(4000):
            vals.add(rnd.getrandbits(rnd.randint(1, 70)) * rnd.choice((1, -1)))
        for v in sorted(vals):
            for tail in (b"", b"\x80\x01", b"\x7f"):
                for nm, codec, spec, ok in (("u", leb128.u, dwarf_std.uleb, v >= 0), ("i", leb128.i, dwarf_std.sleb, True)):
                    if not ok:
                        continue
                    br.cases += 1
                    enc = bytes(codec.encode(v))
                    if list(enc) != spec(v):
                        br.failures.append({"clause": "leb128/%s.encode-is-standard" % nm, "witness": {"v": v}, "detail": enc.hex()})
                        continue
                    got = codec.decode_reader(io.BytesIO(enc + tail))
                    if got != (v, len(enc)):
                        br.failures.append({"clause": "leb128/%s.decode_reader-inverts-%s.encode" % (nm, nm), "witness": {"v": v, "tail": tail.hex()}, "detail": repr(got)})
        br.nontrivial = len(vals)
        br.samples = [{"v": v, "uleb": bytes(leb128.u.encode(abs(v))).hex(), "sleb": bytes(leb128.i.encode(v)).hex()} for v in sorted(vals)[:2] + sorted(vals)[-2:]]
        return br
    return run


_jobs_d = jobs


def jobs(tier="quick", seed=0):
    yield from _jobs_d(tier, seed)
    yield Job("C14/leb128/decode_reader-bounded", _decode_bounded(seed), kind="B", func="leb128:_U.decode_reader/_I.decode_reader")
