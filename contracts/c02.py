"""C02 -- see contracts/registry.json for the clauses; D kernels + bounded apply-level stand-in + data-block patches."""
import itertools

import gtirb

from pyvc.run import BResult, Job

from . import apply_bounded, kernels


def data_patches(tier, seed):
    """C02 for patches inserted into DATA blocks: labels defined by the patch (at its start, in the middle, at its very end) designate
    their position inside the spliced patch; the block's own start / end labels keep their listing position"""
    def run():
        import logging
        from gtirb_rewriting import RewritingContext
        from gtirb_test_helpers import add_data_block, add_data_section, add_symbol, create_test_module
        from bounded import scen
        logging.getLogger("gtirb_rewriting").setLevel(logging.CRITICAL)
        br = BResult()
        patches = {".byte 7": {}, ".byte 7\nDL:": {"DL": 1}, "DL:\n.byte 7": {"DL": 0}, ".byte 7\nDL:\n.byte 8": {"DL": 1}, ".byte 7, 8\nDL:\nDM:": {"DL": 2, "DM": 2},
                   "DL:\n.byte 7\nDM:": {"DL": 0, "DM": 1}}
        br.bound = "data section of two data blocks (4 + 2 bytes) with start and end labels; 6 data patches (labels at the start / middle / very end) inserted or replacing one byte at every offset of the first block; one or two insertions per apply()"
        br.clauses = ["C02/data/patch-label-designates-its-position-in-the-patch", "C02/data/block-labels-keep-their-listing-position", "C02/data/bytes-are-the-listing-edit"]
        distinct = set()
        orig = b"\x01\x02\x03\x04\x05\x06"
        singles = [(op, o, txt) for txt in patches for o in range(5) for op in ("ins", "rep") if not (op == "rep" and o == 4)]
        cases = [[s] for s in singles] + [[a, b] for a, b in itertools.combinations([s for s in singles if s[0] == "ins" and s[2] in (".byte 7\nDL:", "DL:\n.byte 7")], 2) if a[1] < b[1] and a[2] != b[2]]
        for edits in cases:
            ir, m = create_test_module(gtirb.Module.FileFormat.ELF, gtirb.Module.ISA.X64)
            _, bi = add_data_section(m, address=0x2000)
            d, d2 = add_data_block(bi, orig[:4]), add_data_block(bi, orig[4:])
            add_symbol(m, "S", d)
            e_ = add_symbol(m, "E", d)
            e_.at_end = True
            add_symbol(m, "S2", d2)
            rc = RewritingContext(m, [])
            names = {}
            for n, (op, o, txt) in enumerate(edits):
                t2 = txt if n == 0 else txt.replace("DL", "DL2_").replace("DM", "DM2_")
                names[n] = t2
                (rc.insert_at(d, o, scen.mkpatch(t2)) if op == "ins" else rc.replace_at(d, o, 1, scen.mkpatch(t2)))
            br.cases += 1
            distinct.add(tuple(edits))
            desc = {"edits of the first data block": [[op, o, txt.splitlines()] for op, o, txt in edits]}
            try:
                rc.apply()
            except Exception as ex:      # noqa
                br.failures.append({"clause": "C02/data/bytes-are-the-listing-edit", "witness": desc, "detail": "%s: %s" % (type(ex).__name__, str(ex)[:100])})
                continue
            sec = [s for s in m.sections if s.name == ".data"][0]
            got = b"".join(bytes(i.contents) for i in sorted(sec.byte_intervals, key=lambda i: i.address))
            # listing oracle
            out, pos, want_lab, shift_at = bytearray(), 0, {}, []
            for n, (op, o, txt) in enumerate(edits):
                pb = bytes(int(x) for line in txt.splitlines() if line.startswith(".byte") for x in line[5:].replace(",", " ").split())
                out += orig[pos:o]
                start = len(out)
                for lab, lo in patches[txt].items():
                    want_lab[lab if n == 0 else lab.replace("DL", "DL2_").replace("DM", "DM2_")] = start + lo
                out += pb
                pos = o + (1 if op == "rep" else 0)
            out += orig[pos:]
            if got != bytes(out):
                br.failures.append({"clause": "C02/data/bytes-are-the-listing-edit", "witness": desc, "detail": "section bytes %s expected %s" % (got.hex(), bytes(out).hex())})
                continue
            labs = {s.name: (None if not isinstance(s.referent, gtirb.ByteBlock) or s.referent.module is not m else s.referent.address - 0x2000 + (s.referent.size if s.at_end else 0)) for s in m.symbols}
            for lab, w in want_lab.items():
                if labs.get(lab) != w:
                    br.failures.append({"clause": "C02/data/patch-label-designates-its-position-in-the-patch", "witness": desc, "detail": "%s at %s expected %d" % (lab, labs.get(lab), w)})
            grow = len(out) - len(orig)
            first = edits[0]
            want_s = 0 if not (first[1] == 0 and first[0] == "rep") else 0
            if labs.get("S") != 0 or labs.get("S2") != 4 + grow or labs.get("E") != 4 + grow:
                br.failures.append({"clause": "C02/data/block-labels-keep-their-listing-position", "witness": desc, "detail": "S, E, S2 at %s, %s, %s expected 0, %d, %d" % (labs.get("S"), labs.get("E"), labs.get("S2"), 4 + grow, 4 + grow)})
            if len(br.samples) < 2:
                br.samples.append(desc)
        br.nontrivial = len(distinct)
        return br
    return run


def jobs(tier="quick", seed=0):
    yield from kernels.jobs_for("C02", tier, seed)
    yield apply_bounded.job("C02", tier, seed)
    yield Job("C02/data-patches-bounded", data_patches(tier, seed), kind="B", func="gtirb_rewriting.rewriting:RewritingContext.apply (data blocks)")
