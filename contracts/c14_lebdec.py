"""C14/leb128 decode -- the installed `leb128` decoders invert the standard's LEB128 (discharges A-LEB-DEC, the pair lemma
that every decode contract of C14 / C15 uses, for ALL integers and ALL tails; it was a bounded check before).

Contract of leb128._U.decode_reader / _I.decode_reader (real source, both loops cut by invariants):
    the reader holds  LEB(v) ++ tail  (v >= 0 for the unsigned codec; any tail, any length)
        =>  returns (v, LEN(v)), has consumed exactly LEN(v) bytes, raises nothing
    the reader holds a strict prefix of LEB(v)
        =>  raises EOFError
with LEN / BYTE the recursive definitions of the standard (contracts/dep_leb128.py).

decode_reader, loop 0 (`while True`: read one byte, stop at the first byte < 0x80), invariant:
    a == input[0:n]  /\\  reader position == n  /\\  0 <= n <= LEN(v) - 1
  and the exit happens exactly at n == LEN(v) - 1 by the STRUCTURE lemma
    S(x, j):  0 <= j < LEN(x)  =>  0 <= BYTE(x, j) < 256  /\\  (BYTE(x, j) < 128  <=>  j == LEN(x) - 1),   LEN(x) >= 1
  proved by well-founded induction on x (job C14/leb128/lemma/structure: hypothesis at (x div 128, j - 1), one unfolding).
decode (called on a == LEB(v)), loop 0 (`for i, e in enumerate(b)`: r += (e & 0x7f) << (i * 7)), invariant, with ghost w = "what is left":
    0 <= i <= len  /\\  r + w * 2^(7i) == v  /\\  0 <= r < 2^(7i)
    i <  len  =>  LEN(w) + i == len  /\\  forall j >= 0: BYTE(w, j) == BYTE(v, i + j)      (unsigned: w >= 0)
    i == len  =>  w == 0                                              (unsigned)
                  (w == 0 /\\ b[len-1] mod 128 < 64) \\/ (w == -1 /\\ b[len-1] mod 128 >= 64)   (signed; the code then ors in -2^(7 len))
2^s for a symbolic s is the recursive definition POW2 (pyvc/sym.py); `r |= -(1 << 7*len)` is justified by the disjoint-bit-ranges
rule whose side conditions (0 <= r < 2^(7 len), the other operand is -1 * 2^(7 len)) are proved on the path.
"""
import io

import z3

import leb128

from pyvc import core, instrument, shims
from pyvc.run import Job
from pyvc.sym import POW2, Chunk, SymBytes, SymInt, mk_int, zint

from . import dep_leb128 as D


def _claim(LEN, BYTE, x, j):
    return z3.And(LEN(x) >= 1, z3.Implies(z3.And(0 <= j, j < LEN(x)),
                                          z3.And(BYTE(x, j) >= 0, BYTE(x, j) < 256, (BYTE(x, j) < 128) == (j == LEN(x) - 1))))


def structure_lemma(ctx):
    """the step of the induction as a self-contained lemma: hypotheses = the two DEFINITIONS instantiated at (x, j) (built by the very
    functions that define LEN / BYTE in dep_leb128, so they are the definitions) + the induction hypothesis at (x div 128, j - 1);
    the recursive symbols are opaque in the query -- pure linear arithmetic with uninterpreted functions, which no solver seed can
    lead astray (the direct query with z3 unfolding the definitions itself was `canceled` once under load)"""
    x, j = ctx.int("x"), ctx.int("j")
    q = x / 128
    ab = lambda t: z3.If(t >= 0, t, -t)
    # well-foundedness: unsigned, the only recursive call is at x div 128 < x (for x >= 128); signed, |x div 128| < |x| unless last(x)
    ctx.prove("lemma/structure/uleb-measure-decreases", z3.Implies(x >= 128, z3.And(q >= 0, q < x)))
    ctx.prove("lemma/structure/sleb-measure-decreases", z3.Implies(z3.Not(D._slast(x)), ab(q) < ab(x)))
    for nm, LEN, BYTE, lb, bb, last, dom in (("uleb", D.ULEN, D.UBYTE, D.ulen_body, D.ubyte_body, x < 128, x >= 0),
                                             ("sleb", D.SLEN, D.SBYTE, D.slen_body, D.sbyte_body, D._slast(x), z3.BoolVal(True))):
        u1 = LEN(x) == lb(x)
        u2 = BYTE(x, j) == bb(x, j)
        ih = z3.Implies(z3.And(dom, z3.Not(last)), _claim(LEN, BYTE, q, j - 1))
        for k, part in enumerate(_claim(LEN, BYTE, x, j).children()):
            ctx.prove_lemma("lemma/structure/%s-step/%d" % (nm, k), [u1, u2, ih], z3.Implies(dom, part), opaque=True)
    # 2^s >= 1 and 2^(s+7) == 128 * 2^s, same way (definition instances at s, s+1 .. s+7)
    s = ctx.int("s")
    from pyvc.sym import pow2_body as pb
    ctx.prove_lemma("lemma/pow2-positive-step", [POW2(s) == pb(s), z3.Implies(s > 0, POW2(s - 1) >= 1)], POW2(s) >= 1, opaque=True)
    ctx.prove_lemma("lemma/pow2-seven-steps", [POW2(s + k) == pb(s + k) for k in range(0, 8)], z3.Implies(s >= 0, POW2(s + 7) == 128 * POW2(s)), opaque=True)


def _lemma(c, name, goal, hyps=None):
    """prove `goal` (from the named facts of the path condition when given, else from all of it), then keep it as a fact"""
    if hyps is not None:
        return c.prove_from(name, hyps, goal)
    ok = c.prove(name, goal)
    if ok:
        c.assume(goal)
    return ok


def _fact(c, f):
    c.assume(f)
    return f


class _ArrReader:
    """stand-in for the BinaryIO argument: `avail` bytes of the array `inp`, a cursor, read(1) only (all the decoders use)"""

    def __init__(self, inp, avail):
        self.inp, self.avail, self.pos = inp, avail, z3.IntVal(0)

    def read(self, n=-1):
        if n != 1 or isinstance(n, bool):
            raise core.Unsupported("reader: only read(1) is modelled")
        c = core.CUR
        if c.branch(self.pos < self.avail):
            b = mk_int(z3.Select(self.inp, self.pos))
            self.pos = z3.simplify(self.pos + 1)
            return SymBytes([b])
        return SymBytes([])


class _Enum:
    def __init__(self, b):
        self.b = b


def _enumerate(b, *a):
    if isinstance(b, SymBytes) and b.elems is None and not a:
        return _Enum(b)
    return enumerate(b, *a)


def _mk_specs(LEN, BYTE, signed):
    class ReadSpec(instrument.LoopSpec):
        """decode_reader, loop 0"""
        local_names = ("b",)
        mutates = ("a",)

        def establish(self, env):
            c = self.ctx
            a = env["a"]
            self.g = c.ghost["leb"]
            c.prove("reader-loop/inv-established", z3.BoolVal(isinstance(a, SymBytes) and a.length() == 0 and isinstance(env["r"], _ArrReader)))
            c.prove("reader-loop/inv-established/position", env["r"].pos == 0)

        def havoc(self, env):
            c = self.ctx
            g = self.g
            v = g["v"]
            n = c.int("n_read", inp=False)
            self.n = n
            c.assume(z3.And(n >= 0, n <= LEN(v) - 1, n <= g["avail"]))
            c.assume(_claim(LEN, BYTE, v, n))                  # instance of the structure lemma at (v, n)
            env["a"].chunks = [Chunk("arr", n=SymInt(n), arr=g["inp"])]
            env["r"].pos = n
            return {}

        def preserved(self, env):
            c = self.ctx
            g = self.g
            a, r = env["a"], env["r"]
            n2 = a.zlen()
            j = c.int("j_sk", inp=False)
            c.prove("reader-loop/inv-preserved/prefix", z3.And(n2 == self.n + 1, z3.Implies(z3.And(0 <= j, j < n2), a.at(j) == z3.Select(g["inp"], j))))
            c.prove("reader-loop/inv-preserved/position", r.pos == n2)
            c.prove("reader-loop/inv-preserved/range", z3.And(n2 <= LEN(g["v"]) - 1, n2 <= g["avail"]))

        def at_break(self, env):
            # the byte just appended is < 0x80: by the structure lemma it is the LAST byte of LEB(v)
            c = self.ctx
            g = self.g
            a, r = env["a"], env["r"]
            n2 = a.zlen()
            j = c.int("j_sk", inp=False)
            g["jpre"] = j
            _lemma(c, "reader-loop/exit/whole-encoding-read", z3.And(n2 == LEN(g["v"]), r.pos == LEN(g["v"]), g["avail"] >= LEN(g["v"])))
            _lemma(c, "reader-loop/exit/a-is-the-encoding", z3.Implies(z3.And(0 <= j, j < n2), a.at(j) == BYTE(g["v"], j)))

    class DecSpec(instrument.LoopSpec):
        """decode, loop 0"""

        def establish(self, env):
            c = self.ctx
            self.g = g = c.ghost["leb"]
            it = self.iterable
            c.prove("decode-loop/iterates-over-the-argument", z3.BoolVal(isinstance(it, _Enum) and it.b is env["b"]))
            self.b = b = it.b
            v = g["v"]
            self.len = b.zlen()
            # precondition of decode at this call: b == LEB(v)  (pointwise at a skolem index)
            j = c.int("j_pre", inp=False)
            _lemma(c, "decode/pre/length", self.len == LEN(v))
            self.len_fact = self.len == LEN(v)
            c.prove("decode/pre/bytes", z3.Implies(z3.And(0 <= j, j < self.len), b.at(j) == BYTE(v, j)))
            c.prove("decode-loop/inv-established", zint(env["r"]) == 0)

        def _inv(self, i, r, w, jlist, wnext=None):
            """the invariant with its universally quantified clause instantiated at the terms of jlist"""
            v, ln, b = self.g["v"], self.len, self.b
            P = POW2(7 * i)
            cs = [0 <= i, i <= ln, r + w * P == v, 0 <= r, r < P]
            mid = [LEN(w) + i == ln] + [z3.Implies(j >= 0, BYTE(w, j) == BYTE(v, i + j)) for j in jlist]
            if not signed:
                mid.append(w >= 0)
                end = w == 0
            else:
                last = b.at(ln - 1) % 128
                end = z3.Or(z3.And(w == 0, last < 64), z3.And(w == -1, last >= 64))
            named = [("range-i", z3.And(cs[0], cs[1])), ("sum", cs[2]), ("range-r", z3.And(cs[3], cs[4])),
                     ("rest-length", z3.Implies(i < ln, mid[0]))]
            named += [("rest-bytes/%d" % k, z3.Implies(i < ln, m)) for k, m in enumerate(mid[1:1 + len(jlist)])]
            if not signed:
                named.append(("rest-nonneg", z3.Implies(i < ln, w >= 0)))
            named.append(("end", z3.Implies(i == ln, end)))
            return named

        def havoc(self, env):
            c = self.ctx
            v = self.g["v"]
            self.i = i = c.int("i_dec", inp=False)
            self.r = r = c.int("r_dec", inp=False)
            self.w = w = c.int("w_dec", inp=False)
            self.jsk = c.int("j_sk", inp=False)
            self.H = {n: _fact(c, f) for n, f in self._inv(i, r, w, [z3.IntVal(0), self.jsk + 1])}
            # instances of proved facts: decode's precondition at index i, the structure lemma at (w, 0) and (w div 128, 0), the POW2 lemmas
            c.assume(z3.Implies(z3.And(0 <= i, i < self.len), self.b.at(i) == BYTE(v, i)))
            if not signed:
                c.assume(z3.Implies(w >= 0, _claim(LEN, BYTE, w, z3.IntVal(0))))
                c.assume(z3.Implies(w >= 128, _claim(LEN, BYTE, w / 128, z3.IntVal(0))))
            else:
                c.assume(_claim(LEN, BYTE, w, z3.IntVal(0)))
                c.assume(_claim(LEN, BYTE, w / 128, z3.IntVal(0)))
            self.Hpos = _fact(c, POW2(7 * i) >= 1)
            self.Hpow = _fact(c, z3.Implies(7 * i >= 0, POW2(7 * i + 7) == 128 * POW2(7 * i)))
            return {"r": SymInt(r)}

        def has_next(self):
            return self.i < self.len

        def element(self):
            return (SymInt(self.i), mk_int(self.b.at(self.i)))

        def preserved(self, env):
            c = self.ctx
            i, w = self.i, self.w
            r2 = zint(env["r"])
            w2 = w / 128
            j = self.jsk
            # hints, each proved before it is used: the byte just consumed carries w mod 128; unfolding of BYTE at j + 1
            H = self.H
            _lemma(c, "decode-loop/hint/byte-is-low-digit", self.b.at(i) % 128 == w % 128)
            h_sum = r2 == self.r + (w % 128) * POW2(7 * i)
            _lemma(c, "decode-loop/hint/sum", h_sum)
            _lemma(c, "decode-loop/hint/unfold", z3.Implies(z3.And(j >= 0, i + 1 < self.len), BYTE(w, j + 1) == BYTE(w2, j)))
            h_pow = POW2(7 * (i + 1)) == 128 * POW2(7 * i)
            _lemma(c, "decode-loop/hint/pow", h_pow, [H["range-i"], self.Hpow])
            # the two nonlinear clauses from exactly the facts they need (small self-contained queries), the rest from the path condition
            small = {"sum": [H["sum"], h_sum, h_pow], "range-r": [H["range-r"], h_sum, h_pow, self.Hpos]}
            for n, f in self._inv(i + 1, r2, w2, [j]):
                _lemma(c, "decode-loop/inv-preserved/" + n, f, small.get(n))

        def at_exit(self, env):
            # i == len is what exhaustion of enumerate(b) means; the rule assumed not has_next()
            c = self.ctx
            g = c.ghost["leb"]
            H = self.H
            v, r, w, i = g["v"], self.r, self.w, self.i
            # exhaustion of enumerate(b): the rule has assumed `not has_next()`; find that fact to use it in small queries
            ex = z3.Not(z3.simplify(self.i < self.len))
            exf = next((x for x in c.pc if x.eq(ex)), None)
            hy = None if exf is None else [exf, H["range-i"], self.len_fact]
            at_end = i == self.len
            _lemma(c, "decode-loop/exit/all-bytes-consumed", at_end, hy)
            # 2^(7 len), written with the argument in z3's normal form -- the very term the code's `1 << (i * 7) + 7` produces (pyvc.sym._sym_pow2)
            g["t_end"] = z3.simplify(7 * self.len)
            pend = POW2(g["t_end"])
            g["bounds"] = z3.And(0 <= r, r < pend)
            _lemma(c, "decode-loop/exit/sum-is-below-2^(7 len)", g["bounds"], [at_end, H["range-r"]])
            if not signed:
                g["E"] = z3.And(w == 0, r == v)
            else:
                last = self.b.at(self.len - 1) % 128
                g["E"] = z3.Or(z3.And(last < 64, r == v), z3.And(last >= 64, r - pend == v))
            _lemma(c, "decode-loop/exit/value", g["E"], [at_end, self.len_fact, H["sum"], H["end"]])
            g["len_fact"] = self.len_fact
            g["pc_mark"] = len(c.pc)

    return ReadSpec, DecSpec


def _or_hint(g):
    def hint(a, b):
        # r |= -(1 << 7*len): the modulus is 2^(7*len), the other operand is -1 times it
        return g["t_end"], -1, [g["bounds"], g["len_fact"]]
    return hint


def make_harness(codec, LEN, BYTE, signed, nm):
    def harness(ctx):
        v = ctx.int("v")
        if not signed:
            ctx.assume(v >= 0)
        avail = ctx.int("avail")
        tail = ctx.array("tail")
        ctx.assume(avail >= 0)
        k = z3.FreshInt("k")
        inp = z3.Lambda([k], z3.If(k < LEN(v), BYTE(v, k), z3.Select(tail, k - LEN(v))))
        g = ctx.ghost["leb"] = {"v": v, "inp": inp, "avail": avail, "len": LEN(v)}
        ctx.ghost["or_hint"] = _or_hint(g)
        rd = _ArrReader(inp, avail)
        try:
            res = codec.decode_reader(rd)
        except EOFError:
            ctx.cover("eof")
            ctx.prove(nm + "/EOFError-only-on-truncated-input", avail < LEN(v))
            return
        ctx.cover("returned")
        ctx.prove(nm + "/returns-on-complete-input", avail >= LEN(v))          # (a fact since the reader loop's exit)
        val, n = res
        # from the exit facts of the decode loop and what the code after the loop branched on (small query; falls back to the whole path)
        ctx.prove_from(nm + "/value-is-the-encoded-integer", [g["E"], g["len_fact"], g["bounds"]] + ctx.pc[g["pc_mark"]:], zint(val) == v, opaque=True)
        ctx.prove(nm + "/length-is-the-encoding-length", zint(n) == LEN(v))
        ctx.prove(nm + "/consumes-exactly-the-encoding", rd.pos == LEN(v))
    return harness


class _setup:
    def __init__(self, cls, prefix, specs):
        self.cls, self.prefix, self.specs = cls, prefix, specs

    def __enter__(self):
        rs, ds = self.specs
        self.a = shims.installed([leb128], extra={"leb128": {"enumerate": _enumerate, "ord": D._ord}})
        self.b = instrument.instrumented({
            self.prefix + ".decode_reader": (self.cls.__dict__["decode_reader"], {0: rs}, False),
            self.prefix + ".decode": (self.cls.__dict__["decode"], {0: ds}, False)})
        self.a.__enter__()
        self.b.__enter__()
        return self

    def __exit__(self, *e):
        self.b.__exit__(*e)
        self.a.__exit__(*e)
        return False


def replay(codec, signed):
    def rp(clause, model):
        v = next((model[k] for k in model if k.startswith("v!")), 0)
        avail = next((model[k] for k in model if k.startswith("avail!")), 0)
        if not isinstance(v, int) or (not signed and v < 0):
            return {"confirmed": False, "observed": "model outside the precondition"}
        from spec import dwarf_std
        std = bytes((dwarf_std.sleb if signed else dwarf_std.uleb)(v))
        bad = []
        for tail in (b"", b"\x00", b"\x80\x01", b"\xff\x7f"):
            data = (std + tail)[:max(0, min(avail, len(std) + len(tail)))] if isinstance(avail, int) and avail < len(std) else std + tail
            rd = io.BytesIO(data)
            try:
                got = codec.decode_reader(rd)
                want = (v, len(std)) if len(data) >= len(std) else "EOFError"
                if got != want or rd.tell() != len(std):
                    bad.append({"input": data.hex(), "observed": repr(got), "position": rd.tell(), "expected": repr(want)})
            except EOFError:
                if len(data) >= len(std):
                    bad.append({"input": data.hex(), "observed": "EOFError", "expected": repr((v, len(std)))})
            except Exception as ex:
                bad.append({"input": data.hex(), "observed": "%s: %s" % (type(ex).__name__, ex), "expected": repr((v, len(std)))})
        return {"confirmed": bool(bad), "v": v, "failures": bad[:3]}
    return rp


def replay_pool(codec, signed):
    """a native pool run whatever the model says (also when the instrumentation no longer fits): boundary values of every length"""
    def rp(clause, model):
        r0 = replay(codec, signed)(clause, model)
        if r0.get("confirmed"):
            return r0
        for k in range(0, 11):
            for base in (128 ** k, 64 * 128 ** k):
                for d in (-2, -1, 0, 1):
                    for sg in ((1, -1) if signed else (1,)):
                        v = sg * (base + d)
                        if not signed and v < 0:
                            continue
                        r = replay(codec, signed)(clause, {"v!0": v, "avail!1": 99})
                        if r.get("confirmed"):
                            return r
                        r = replay(codec, signed)(clause, {"v!0": v, "avail!1": k})
                        if r.get("confirmed"):
                            return r
        return r0
    return rp


def jobs(tier="quick", seed=0):
    yield Job("C14/leb128/lemma/structure", structure_lemma, kind="D", func="leb128:structure lemma of the standard's LEB128 (spec-level induction)")
    for nm, cls, codec, LEN, BYTE, signed in (("u.decode_reader", leb128._U, leb128.u, D.ULEN, D.UBYTE, False),
                                              ("i.decode_reader", leb128._I, leb128.i, D.SLEN, D.SBYTE, True)):
        prefix = "leb128:_%s" % nm[0].upper()
        specs = _mk_specs(LEN, BYTE, signed)
        yield Job("C14/leb128/" + nm, make_harness(codec, LEN, BYTE, signed, nm),
                  setup=(lambda cls=cls, prefix=prefix, specs=specs: _setup(cls, prefix, specs)),
                  replay=replay_pool(codec, signed), kind="D", func=prefix + ".decode_reader",
                  expect_cover=("returned", "eof", "loop-preserved:%s.decode_reader#0" % prefix, "loop-break:%s.decode_reader#0" % prefix,
                                "loop-preserved:%s.decode#0" % prefix, "loop-exit:%s.decode#0" % prefix), timeout_ms=60000)
