"""Heap kernel, part 3: _modify.functions:add_function_block_aux / remove_function_block_aux (C06, C05).

These two functions only test membership of `block` and emptiness of the per-function sets, so a universe of three
blocks x every combination of (entries subset, blocks subset, tables present/absent, cache entry present) is an
EXHAUSTIVE case split of their behaviour (E); each case is checked against the contract:
  add    : functionBlocks[f] gains the block (when the table exists), cache maps block -> f, nothing else changes
  remove : the block leaves functionEntries[f], functionBlocks[f] and the cache; the function disappears from
           functionBlocks, functionEntries and functionNames exactly when neither set has a block left; other
           functions untouched; a block the cache does not know is a no-op
"""
import itertools
import uuid

import gtirb
import z3
from gtirb_test_helpers import add_code_block, add_symbol, add_text_section, create_test_module

from gtirb_rewriting import _auxdata
from gtirb_rewriting._modify import functions as FN

from pyvc.run import Job


class FakeCache:
    def __init__(self, fbb):
        self.functions_by_block = dict(fbb)


def subsets(xs):
    for r in range(len(xs) + 1):
        yield from itertools.combinations(xs, r)


def harness(ctx):
    F, G = uuid.UUID(int=1), uuid.UUID(int=2)
    n = 0
    for tables in itertools.product((True, False), repeat=3):          # functionBlocks, functionEntries, functionNames present
        for ents in subsets((0, 1, 2)):
            for blks in subsets((0, 1, 2)):
                for in_cache in (True, False):
                    ir, m = create_test_module(gtirb.Module.FileFormat.ELF, gtirb.Module.ISA.X64)
                    _, bi = add_text_section(m, address=0x1000)
                    B = [add_code_block(bi, b"\x90") for _ in range(4)]
                    sf, sg = add_symbol(m, "f", B[0]), add_symbol(m, "g", B[3])
                    for nm in ("functionBlocks", "functionEntries", "functionNames"):
                        m.aux_data.pop(nm, None)
                    if tables[0]:
                        _auxdata.function_blocks.set(m, {F: {B[i] for i in blks}, G: {B[3]}})
                    if tables[1]:
                        _auxdata.function_entries.set(m, {F: {B[i] for i in ents}, G: {B[3]}})
                    if tables[2]:
                        _auxdata.function_names.set(m, {F: sf, G: sg})
                    cache = FakeCache({B[i]: F for i in blks} | {B[3]: G})
                    blk = B[0]
                    if not in_cache:
                        cache.functions_by_block.pop(blk, None)
                    known = blk in cache.functions_by_block
                    FN.remove_function_block_aux(cache, blk)
                    n += 1
                    fb, fe, fnm = _auxdata.function_blocks.get(m), _auxdata.function_entries.get(m), _auxdata.function_names.get(m)
                    desc = "tables=%s entries=%s blocks=%s cached=%s" % (tables, ents, blks, in_cache)
                    if not known:
                        ok = (fb or {}).get(F) == ({B[i] for i in blks} if tables[0] else None) and (fe or {}).get(F) == ({B[i] for i in ents} if tables[1] else None)
                        ctx.prove("functions/remove/unknown-block-is-a-no-op", z3.BoolVal(bool(ok)), note=desc)
                        continue
                    left_b = ({B[i] for i in blks} - {blk}) if tables[0] else set()
                    left_e = ({B[i] for i in ents} - {blk}) if tables[1] else set()
                    gone = not left_b and not left_e
                    ok = blk not in cache.functions_by_block
                    for t, left, present in ((fb, left_b, tables[0]), (fe, left_e, tables[1])):
                        if not present:
                            continue
                        if gone:
                            ok = ok and F not in t
                        else:
                            ok = ok and t.get(F) == left
                        ok = ok and t.get(G) == {B[3]}
                    if tables[2]:
                        ok = ok and ((F not in fnm) if gone else (fnm.get(F) is sf)) and fnm.get(G) is sg
                    ctx.prove("functions/remove/block-leaves-its-function-which-disappears-iff-it-has-no-block-left", z3.BoolVal(bool(ok)), note=desc)
                    ok2 = all(cache.functions_by_block.get(B[i]) == F for i in blks if i != 0) and cache.functions_by_block.get(B[3]) == G
                    ctx.prove("functions/remove/cache-of-other-blocks-untouched", z3.BoolVal(bool(ok2)), note=desc)
    # add
    for present in (True, False):
        ir, m = create_test_module(gtirb.Module.FileFormat.ELF, gtirb.Module.ISA.X64)
        _, bi = add_text_section(m, address=0x1000)
        B = [add_code_block(bi, b"\x90") for _ in range(3)]
        if present:
            _auxdata.function_blocks.set(m, {F: {B[0]}, G: {B[2]}})
        else:
            m.aux_data.pop("functionBlocks", None)
        cache = FakeCache({B[0]: F, B[2]: G})
        FN.add_function_block_aux(cache, B[1], F)
        fb = _auxdata.function_blocks.get(m)
        ok = cache.functions_by_block == {B[0]: F, B[1]: F, B[2]: G} and (not present or fb == {F: {B[0], B[1]}, G: {B[2]}}) and (present or fb is None)
        ctx.prove("functions/add/block-joins-the-function-in-table-and-cache", z3.BoolVal(bool(ok)), note="functionBlocks present=%s" % present)
    ctx.cover("enumerated")


def jobs(tier="quick", seed=0):
    yield Job("K/functions_aux", harness, kind="E", func="gtirb_rewriting._modify.functions:add_function_block_aux/remove_function_block_aux",
              expect_cover=("enumerated",))
