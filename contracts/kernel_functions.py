"""Heap kernel, part 3: _modify.functions:add_function_block_aux / remove_function_block_aux (C06, C05).

These two functions only test membership of `block` and emptiness of the per-function sets, so a universe of three
blocks x every combination of (entries subset, blocks subset, tables present/absent, cache entry present) is an
EXHAUSTIVE case split of their behaviour (E); each case is checked against the contract:
  add    : functionBlocks[f] gains the block (when the table exists), cache maps block -> f, nothing else changes
  remove : the block leaves functionEntries[f], functionBlocks[f] and the cache; the function disappears from
           functionBlocks, functionEntries and functionNames exactly when neither set has a block left; other
           functions untouched; a block the cache does not know is a no-op
"""
import itertools
import uuid

import gtirb
import z3
from gtirb_test_helpers import add_code_block, add_symbol, add_text_section, create_test_module

from gtirb_rewriting import _auxdata
from gtirb_rewriting._modify import functions as FN

from pyvc.run import Job


class _Cache:
    """the REAL ModifyCache of the module (built after the tables were arranged), with the block -> function map under test put in"""

    def __init__(self, m, fbb):
        from gtirb_rewriting._modify import make_modify_cache
        self.cm = make_modify_cache(m, [])
        self.cache = self.cm.__enter__()
        self.cache.functions_by_block = dict(fbb)

    def close(self):
        self.cm.__exit__(None, None, None)


def FakeCache(fbb, m=None):
    return _Cache(m, fbb)


def subsets(xs):
    for r in range(len(xs) + 1):
        yield from itertools.combinations(xs, r)


def harness(ctx):
    F, G = uuid.UUID(int=1), uuid.UUID(int=2)
    n = 0
    for tables in itertools.product((True, False), repeat=3):          # functionBlocks, functionEntries, functionNames present
        for ents in subsets((0, 1, 2)):
            for blks in subsets((0, 1, 2)):
                for in_cache in (True, False):
                    ir, m = create_test_module(gtirb.Module.FileFormat.ELF, gtirb.Module.ISA.X64)
                    _, bi = add_text_section(m, address=0x1000)
                    B = [add_code_block(bi, b"\x90") for _ in range(4)]
                    sf, sg = add_symbol(m, "f", B[0]), add_symbol(m, "g", B[3])
                    for nm in ("functionBlocks", "functionEntries", "functionNames"):
                        m.aux_data.pop(nm, None)
                    if tables[0]:
                        _auxdata.function_blocks.set(m, {F: {B[i] for i in blks}, G: {B[3]}})
                    if tables[1]:
                        _auxdata.function_entries.set(m, {F: {B[i] for i in ents}, G: {B[3]}})
                    if tables[2]:
                        _auxdata.function_names.set(m, {F: sf, G: sg})
                    holder = FakeCache({B[i]: F for i in blks} | {B[3]: G}, m)
                    cache = holder.cache
                    blk = B[0]
                    if not in_cache:
                        cache.functions_by_block.pop(blk, None)
                    known = blk in cache.functions_by_block
                    FN.remove_function_block_aux(cache, blk)
                    holder.close()
                    n += 1
                    fb, fe, fnm = _auxdata.function_blocks.get(m), _auxdata.function_entries.get(m), _auxdata.function_names.get(m)
                    desc = "tables=%s entries=%s blocks=%s cached=%s" % (tables, ents, blks, in_cache)
                    if not known:
                        ok = (fb or {}).get(F) == ({B[i] for i in blks} if tables[0] else None) and (fe or {}).get(F) == ({B[i] for i in ents} if tables[1] else None)
                        ctx.prove("functions/remove/unknown-block-is-a-no-op", z3.BoolVal(bool(ok)), note=desc)
                        continue
                    left_b = ({B[i] for i in blks} - {blk}) if tables[0] else set()
                    left_e = ({B[i] for i in ents} - {blk}) if tables[1] else set()
                    gone = not left_b and not left_e
                    ok = blk not in cache.functions_by_block
                    for t, left, present in ((fb, left_b, tables[0]), (fe, left_e, tables[1])):
                        if not present:
                            continue
                        if gone:
                            ok = ok and F not in t
                        else:
                            ok = ok and t.get(F) == left
                        ok = ok and t.get(G) == {B[3]}
                    if tables[2]:
                        ok = ok and ((F not in fnm) if gone else (fnm.get(F) is sf)) and fnm.get(G) is sg
                    ctx.prove("functions/remove/block-leaves-its-function-which-disappears-iff-it-has-no-block-left", z3.BoolVal(bool(ok)), note=desc)
                    ok2 = all(cache.functions_by_block.get(B[i]) == F for i in blks if i != 0) and cache.functions_by_block.get(B[3]) == G
                    ctx.prove("functions/remove/cache-of-other-blocks-untouched", z3.BoolVal(bool(ok2)), note=desc)
    # add
    for present in (True, False):
        ir, m = create_test_module(gtirb.Module.FileFormat.ELF, gtirb.Module.ISA.X64)
        _, bi = add_text_section(m, address=0x1000)
        B = [add_code_block(bi, b"\x90") for _ in range(3)]
        if present:
            _auxdata.function_blocks.set(m, {F: {B[0]}, G: {B[2]}})
        else:
            m.aux_data.pop("functionBlocks", None)
        holder = FakeCache({B[0]: F, B[2]: G}, m)
        cache = holder.cache
        FN.add_function_block_aux(cache, B[1], F)
        holder.close()
        fb = _auxdata.function_blocks.get(m)
        ok = cache.functions_by_block == {B[0]: F, B[1]: F, B[2]: G} and (not present or fb == {F: {B[0], B[1]}, G: {B[2]}}) and (present or fb is None)
        ctx.prove("functions/add/block-joins-the-function-in-table-and-cache", z3.BoolVal(bool(ok)), note="functionBlocks present=%s" % present)
    ctx.cover("enumerated")


def update_on_removal_harness(ctx):
    """_modify.remove:_update_functions_aux_data(cache, block, next_block) -- from the statement of C06: deleting an entry block promotes
    the next block only if it is in the SAME function; the block leaves its function; a function that lost all its blocks disappears
    from all three tables; entries stay a subset of blocks; other functions are untouched.
    E over: block is an entry or not x the function has other blocks or not (and then a second entry or not) x next block is absent / data / code in the same function /
    code in another function / code in NO function x the real ModifyCache."""
    import importlib
    RM = importlib.import_module("gtirb_rewriting._modify.remove")
    from gtirb_rewriting._modify import make_modify_cache
    import gtirb_functions
    from gtirb_test_helpers import add_data_block, add_function
    is_entry = bool(ctx.choose(2, "block-is-an-entry"))
    has_others = bool(ctx.choose(2, "function-has-other-blocks"))
    nk = ["none", "data", "same-function", "other-function", "no-function"][ctx.choose(5, "next-block")]
    if nk == "same-function" and not has_others:
        return
    ir, m = create_test_module(gtirb.Module.FileFormat.ELF, gtirb.Module.ISA.X64)
    _, bi = add_text_section(m, address=0x1000)
    first = add_code_block(bi, b"\x90")            # entry of F when `blk` is not
    blk = add_code_block(bi, b"\x90")
    nxt = None if nk == "none" else (add_data_block(bi, b"\x00") if nk == "data" else add_code_block(bi, b"\x90"))
    extra = add_code_block(bi, b"\x90")
    gblk = add_code_block(bi, b"\xc3")
    fblocks = {blk}
    if has_others:
        fblocks |= {extra} | ({nxt} if nk == "same-function" else set())
    entry = blk if is_entry else first
    if not is_entry:
        if not has_others:
            return                                   # a function whose only block is not its entry: the entry `first` is another block
        fblocks.add(first)
    f = add_function(m, add_symbol(m, "f", entry), entry, fblocks - {entry})
    if has_others and ctx.choose(2, "function-has-a-second-entry"):
        # functions with several entry blocks exist (functionEntries is a set): the others stay entries whatever happens to this one
        _auxdata.function_entries.get(m)[f].add(extra)
    gset = {gblk} | ({nxt} if nk == "other-function" else set())
    g = add_function(m, add_symbol(m, "g", gblk), gblk, gset - {gblk})
    fl = gtirb_functions.Function.build_functions(m)
    fb0 = {k: set(v) for k, v in _auxdata.function_blocks.get(m).items()}
    fe0 = {k: set(v) for k, v in _auxdata.function_entries.get(m).items()}
    with make_modify_cache(m, fl) as cache:
        RM._update_functions_aux_data(cache, blk, nxt)
        cached = dict(cache.functions_by_block)
    ctx.cover("enumerated")
    fb, fe, fn = _auxdata.function_blocks.get(m), _auxdata.function_entries.get(m), _auxdata.function_names.get(m)
    left = fb0[f] - {blk}
    want_e = (fe0[f] - {blk}) | ({nxt} if (is_entry and nk == "same-function") else set())
    if left:
        ok = fb.get(f) == left and fe.get(f) == want_e and f in fn
    else:
        ok = f not in fb and f not in fe and f not in fn
    ctx.prove("update_functions_aux_data/block-leaves-its-function;next-block-promoted-only-within-the-same-function;empty-function-disappears", z3.BoolVal(bool(ok)),
              note="functionBlocks[f]=%s functionEntries[f]=%s expected blocks=%d entries=%d" % (
                  None if f not in fb else len(fb[f]), None if f not in fe else len(fe[f]), len(left), len(want_e)))
    ctx.prove("update_functions_aux_data/entries-are-a-subset-of-blocks", z3.BoolVal(all(fe.get(u, set()) <= fb.get(u, set()) for u in fe)))
    ctx.prove("update_functions_aux_data/other-function-untouched", z3.BoolVal(fb.get(g) == fb0[g] and fe.get(g) == fe0[g] and g in fn))
    ctx.prove("update_functions_aux_data/cache-follows-the-table", z3.BoolVal(blk not in cached and all(cached.get(b) == u for u, bs in fb.items() for b in bs)))


def jobs(tier="quick", seed=0):
    yield Job("K/functions_aux/update_on_removal", update_on_removal_harness, kind="E", func="gtirb_rewriting._modify.remove:_update_functions_aux_data",
              expect_cover=("enumerated",))
    yield Job("K/functions_aux", harness, kind="E", func="gtirb_rewriting._modify.functions:add_function_block_aux/remove_function_block_aux",
              expect_cover=("enumerated",))
