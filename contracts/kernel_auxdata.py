"""Heap kernel, part 8: _auxdata.TableDefinition (the accessor every table update of delete_symbols / prepare / the rewriting
context goes through; carries C19's "no table still mentions a deleted symbol" and C05's "tables describe the module" one level down).

Data structure against an abstract view: view(container) = { table name -> (type name, data object) }.  Contracts, for EVERY table
definition of the module (enumerated from _auxdata itself, so a new definition is covered without touching this file):

  set(c, data)         ensures view'[name] = (type_name, data) -- the data object handed in, so in particular element for element what
                               the caller computed -- and view' = view elsewhere; raises TypeError (and changes nothing) when a table
                               of that name with another type name exists
  get(c)               pure;   returns view[name].data itself (not a copy: callers mutate it in place) or None
  get_or_insert(c)     ensures the data object of the existing table, or a new empty container of the definition's type, now in view
  exists(c) / remove(c)        membership / view' = view without name

Two families.  (opaque) the data is an object the code knows nothing about: whatever set() stores has to BE that object, for all data
at once.  (typed) because Python code can look at what it is given (isinstance), the same contract for lists, dicts and sets as old
and new data: all pairs of lists over three elements up to length 3 (duplicates included), and the analogous dict / set values.
"""
import itertools

import gtirb
import z3

from gtirb_rewriting import _auxdata

from pyvc.run import Job


def definitions():
    return sorted(((n, d) for n, d in vars(_auxdata).items() if isinstance(d, _auxdata.TableDefinition)), key=lambda x: x[0])


class _Opaque:
    """a value the code under contract has no business looking into"""


def _container(d):
    if d.container_type is gtirb.IR:
        return gtirb.IR()
    return gtirb.Module(name="m", isa=gtirb.Module.ISA.X64, file_format=gtirb.Module.FileFormat.ELF)


def _view(c):
    return {k: (t.type_name, id(t.data)) for k, t in c.aux_data.items()}


def _bystanders(c):
    keep = _Opaque()
    c.aux_data["__bystander__"] = gtirb.AuxData(type_name="string", data=keep)
    return keep


def opaque_harness(ctx):
    defs = definitions()
    name, d = defs[ctx.choose(len(defs), "table-definition")]
    before = ["absent", "present", "present-with-another-type-name"][ctx.choose(3, "table-before")]
    op = ["set", "get", "get_or_insert", "exists", "remove"][ctx.choose(5, "operation")]
    c = _container(d)
    keep = _bystanders(c)
    old = _Opaque()
    if before == "present":
        c.aux_data[d.name] = gtirb.AuxData(type_name=d.type_name, data=old)
    elif before == "present-with-another-type-name":
        c.aux_data[d.name] = gtirb.AuxData(type_name="bogus<" + d.type_name + ">", data=old)
    v0 = _view(c)
    data = _Opaque()
    tag = "TableDefinition/" + op
    bad = []
    try:
        if op == "set":
            r = d.set(c, data)
        elif op == "get":
            r = d.get(c)
        elif op == "get_or_insert":
            r = d.get_or_insert(c)
        elif op == "exists":
            r = d.exists(c)
        else:
            r = d.remove(c)
        raised = None
    except TypeError as ex:
        raised = ex
    ctx.cover("enumerated")
    v1 = _view(c)
    note = "%s, table %s" % (name, before)
    if c.aux_data["__bystander__"].data is not keep or v1.get("__bystander__") != v0.get("__bystander__"):
        bad.append("another table of the container changed")
    if op in ("set", "get", "get_or_insert") and before == "present-with-another-type-name":
        ctx.prove(tag + "/refuses-a-table-of-another-type-and-changes-nothing", z3.BoolVal(raised is not None and v1 == v0 and not bad), note=note)
        return
    if raised is not None:
        ctx.prove(tag + "/does-not-raise", z3.BoolVal(False), note=note + ": " + str(raised)[:60])
        return
    if op == "set":
        t = c.aux_data.get(d.name)
        ok = t is not None and t.data is data and t.type_name == d.type_name and set(v1) == set(v0) | {d.name} and not bad
        ctx.prove(tag + "/the-table-holds-exactly-the-data-handed-in-with-the-definitions-type-name", z3.BoolVal(ok), note=note)
        ctx.prove(tag + "/get-after-set-returns-that-data", z3.BoolVal(d.get(c) is data and d.exists(c)), note=note)
    elif op == "get":
        ctx.prove(tag + "/returns-the-tables-own-data-object-or-None-and-changes-nothing", z3.BoolVal((r is old if before == "present" else r is None) and v1 == v0 and not bad), note=note)
    elif op == "get_or_insert":
        if before == "present":
            ok = r is old and v1 == v0
        else:
            t = c.aux_data.get(d.name)
            ok = t is not None and t.data is r and t.type_name == d.type_name and isinstance(r, d.initializer) and (not hasattr(r, "__len__") or len(r) == 0) and set(v1) == set(v0) | {d.name}
        ctx.prove(tag + "/returns-the-existing-data-object-or-inserts-an-empty-one-of-the-definitions-type", z3.BoolVal(bool(ok) and not bad), note=note)
    elif op == "exists":
        ctx.prove(tag + "/says-whether-a-table-of-that-name-is-there-and-changes-nothing", z3.BoolVal(r is (before != "absent") and v1 == v0 and not bad), note=note)
    else:
        ctx.prove(tag + "/only-that-table-is-gone", z3.BoolVal(d.name not in v1 and {k: v for k, v in v0.items() if k != d.name} == v1 and not bad), note=note)


def _values(kind, elems):
    if kind == "list":
        return [list(t) for n in range(4) for t in itertools.product(elems, repeat=n)]
    if kind == "set":
        return [set(t) for n in range(4) for t in itertools.combinations(elems, n)]
    if kind == "dict":
        return [dict(zip(t, vals)) for n in range(3) for t in itertools.combinations(elems, n) for vals in itertools.product((0, 1), repeat=n)]
    raise AssertionError(kind)


def typed_harness(ctx):
    kind = ["list", "set", "dict"][ctx.choose(3, "data-type")]
    d = {"list": _auxdata.pe_imported_symbols, "set": _auxdata.leaf_functions if hasattr(_auxdata, "leaf_functions") else _auxdata.pe_safe_exception_handlers,
         "dict": _auxdata.alignment}[kind]
    c = _container(d)
    elems = ["a", "b", "c"]
    vals = _values(kind, elems)
    oi = ctx.choose(len(vals) + 1, "old-data")        # the last one: no table yet
    ni = ctx.choose(len(vals), "new-data")
    import copy
    new = copy.copy(vals[ni])
    want = copy.copy(new)
    if oi < len(vals):
        c.aux_data[d.name] = gtirb.AuxData(type_name=d.type_name, data=copy.copy(vals[oi]))
    d.set(c, new)
    ctx.cover("enumerated")
    got = d.get(c)
    ok = type(got) is type(want) and got == want and (kind != "list" or list(got) == list(want))
    ctx.prove("TableDefinition/set/typed/get-after-set-is-element-for-element-the-data-handed-in", z3.BoolVal(bool(ok)),
              note="%s table: old %r, set(%r), get() = %r" % (kind, vals[oi] if oi < len(vals) else None, want, got))
    ctx.prove("TableDefinition/set/typed/the-callers-data-is-not-modified", z3.BoolVal(new == want))


def jobs(tier="quick", seed=0):
    P = "gtirb_rewriting._auxdata:TableDefinition."
    yield Job("K/auxdata/table-definition-opaque", opaque_harness, kind="E", func=P + "set/get/get_or_insert/exists/remove/_get_or_insert_table", expect_cover=("enumerated",))
    yield Job("K/auxdata/table-definition-typed", typed_harness, kind="E", func=P + "set (list / set / dict data)", expect_cover=("enumerated",))
