from .c09_10_11 import jobs_c09 as jobs  # noqa: F401
