"""Heap kernel, part 11: RewritingContext._apply_modifications -- the offset bookkeeping that composes several modifications of ONE
block (`block_delta`, `total_insert_len`, the block handed from one modification to the next): what C01's "why tests cannot" names.

The real method runs (with the real `_insert_assembler_result` and the real InsertionContext) on a real RewritingContext; symbolic are
the block's offset B and size S, every requested offset o_k, every replaced / deleted length L_k and every patch length P_k.  The number
of modifications of the block is bounded (1..3, every mix of insertion / replacement / partial deletion): kind "S" -- a bounded stand-in
in the count, all VALUES symbolic -- never counted as proved.

Callees replaced by their contracts (modular):
  * `_ModificationStore.resolve_offsets`: yields the modifications with offsets in non-decreasing order (proved: C07/C01 D job on the real
    function); the requests themselves are the property's precondition: on the block, non-overlapping: o_k + L_k <= o_(k+1), o_k + L_k <= S.
  * `_modify.insert` / `_modify.delete`: PRECONDITION (their own asserts: 0 <= offset, offset + length <= size of the block handed in) is an
    OBLIGATION of the caller here; POSTCONDITION = clauses G and R of contracts/kernel_compose.py (discharged there on the real insert /
    delete for symbolic geometry): the returned block is not empty, ends where the modified region ends (old end + P - L) and starts no
    later than the position behind the modification; the block object first handed in keeps its offset.
  * `_invoke_patch`: returns an assembler result whose text is P_k > 0 bytes (whatever the patch is).

Obligations, per modification k (clause names carry the mix and k):
  PRE   the callee's precondition holds for the (block, offset, length) it is given
  POS   block.offset + offset == B + o_k + sum over earlier modifications of (P_j - L_j): the modification lands at its LISTING position --
        the requested offset shifted by exactly what earlier modifications of the block inserted and removed                       (C01)
  CTX   the InsertionContext the patch sees names the ORIGINAL block and the REQUESTED offset                                       (C07/C16)
  ONCE  every modification reaches insert / delete exactly once, in the order resolve_offsets gave                                  (C01, C07)
"""
import importlib
import logging

import gtirb
import z3
from gtirb_test_helpers import add_code_block, add_text_section, create_test_module

from pyvc import shims
from pyvc.run import Job
from pyvc.sym import SymBytes, SymInt, zint

RW = importlib.import_module("gtirb_rewriting.rewriting")

KINDS = ("ins", "rep", "del")


class _Scope:
    def __init__(self, length):
        self.length = length

    def _replacement_length(self):
        return self.length


class _Sect:
    def __init__(self):
        self.cfi_procedures = []


class _Result:
    """what _invoke_patch hands back, as far as _apply_modifications / _insert_assembler_result look at it"""

    def __init__(self, nbytes, arr):
        self.text_section = _Sect()
        self.text_section.data = SymBytes.sym(SymInt(nbytes), arr)
        self.sections = {".text": self.text_section}


def _mkblock(off, size):
    b = gtirb.CodeBlock()
    b._offset, b._size = off, size
    return b


def make_harness(mix):
    def harness(ctx):
        from bounded import scen
        logging.getLogger("gtirb_rewriting").setLevel(logging.CRITICAL)
        ir, m = create_test_module(gtirb.Module.FileFormat.ELF, gtirb.Module.ISA.X64)
        _, bi = add_text_section(m, address=0x1000)
        real_block = add_code_block(bi, b"\x90\x90\xc3")
        rc = RW.RewritingContext(m, [])
        B, S = ctx.int("block_offset"), ctx.int("block_size")
        ctx.assume(z3.And(B >= 0, S > 0))
        block = _mkblock(SymInt(B), SymInt(S))
        n = len(mix)
        o = [ctx.int("offset%d" % k) for k in range(n)]
        L = [ctx.int("length%d" % k) if mix[k] != "ins" else z3.IntVal(0) for k in range(n)]
        P = [ctx.int("patchlen%d" % k) if mix[k] != "del" else z3.IntVal(0) for k in range(n)]
        for k in range(n):
            ctx.assume(z3.And(o[k] >= 0, L[k] >= 0, o[k] + L[k] <= S))
            if mix[k] != "ins":
                ctx.assume(L[k] > 0)
            if mix[k] == "del":
                ctx.assume(L[k] < S)                       # a whole-block deletion cannot be combined with anything (documented assert) and is remove_block's contract
            else:
                ctx.assume(P[k] > 0)
            if k:
                ctx.assume(o[k - 1] + L[k - 1] <= o[k])    # non-overlapping, in the order resolve_offsets yields them
        mods = []
        patch = scen.mkpatch("nop")
        for k in range(n):
            if mix[k] == "del":
                mods.append(RW._Deletion(k, _Scope(SymInt(L[k])), False))
            else:
                mods.append(RW._InsertionOrReplacement(k, _Scope(SymInt(L[k]) if mix[k] == "rep" else 0), patch))
        in_proc = ctx.choose(2, "in-cfi-procedure") == 0
        calls = []
        state = {"shift": z3.IntVal(0), "k": 0, "first": block}
        Pv = ctx.prove

        def tag(k):
            return "applymods/%s/%d" % ("-".join(mix), k)

        class Store:
            def resolve_offsets(self_, blk, decoder, modifications):
                Pv("applymods/%s/resolve_offsets-asked-for-this-block-with-these-modifications" % "-".join(mix), z3.BoolVal(blk is block and list(modifications) == mods))
                return [(mods[k], SymInt(o[k])) for k in range(n)]

        def callee(which, cache, blk, offset, length, extra):
            k = state["k"]
            state["k"] += 1
            calls.append(which)
            ok_order = k < n and which == ("delete" if mix[k] == "del" else "insert")
            Pv(tag(min(k, n - 1)) + "/ONCE/reaches-the-callee-its-kind-demands-in-order", z3.BoolVal(ok_order))
            if not ok_order:
                raise AssertionError("unexpected call")
            off, ln = zint(offset), zint(length)
            Pv(tag(k) + "/PRE/offset-and-length-inside-the-block-handed-in", z3.And(off >= 0, ln >= 0, off + ln <= zint(blk.size), zint(blk.size) > 0))
            Pv(tag(k) + "/PRE/length-is-the-requested-one", ln == L[k])
            Pv(tag(k) + "/POS/lands-at-the-listing-position", zint(blk.offset) + off == B + o[k] + state["shift"])
            if which == "insert":
                Pv(tag(k) + "/PRE/the-result-inserted-is-the-one-assembled-for-this-modification", z3.BoolVal(extra is results[k]))
            # postcondition (clauses G / R of kernel_compose): a fresh non-empty block ending at the end of the region, starting no later
            # than the position behind the modification; the block handed in first keeps its offset
            noff, nsize = ctx.int("ret_offset%d" % k, inp=False), ctx.int("ret_size%d" % k, inp=False)
            ctx.assume(z3.And(nsize > 0, noff + nsize == zint(blk.offset) + zint(blk.size) + P[k] - L[k],
                              noff <= zint(blk.offset) + off + P[k], noff >= zint(state["first"].offset)))
            state["shift"] = state["shift"] + P[k] - L[k]
            return _mkblock(SymInt(noff), SymInt(nsize))

        results = {}

        def invoke_patch(p, actual_block, actual_offset, context, **kw):
            k = state["k"]
            Pv(tag(k) + "/CTX/the-patch-sees-the-original-block-and-the-requested-offset",
               z3.And(z3.BoolVal(context.block is block and p is patch), zint(context.offset) == o[k]))
            Pv(tag(k) + "/POS/the-patch-is-assembled-for-the-listing-position", zint(actual_block.offset) + zint(actual_offset) == B + o[k] + state["shift"])
            results[k] = _Result(P[k], ctx.array("patchbytes%d" % k, inp=False))
            return results[k]

        rc._modifications = Store()
        rc._invoke_patch = invoke_patch
        saved = RW.insert, RW.delete
        RW.insert = lambda cache, blk, offset, length, res: callee("insert", cache, blk, offset, length, res)
        RW.delete = lambda cache, blk, offset, length, proxy=False: callee("delete", cache, blk, offset, length, proxy)
        from gtirb_rewriting._modify import make_modify_cache
        try:
            with make_modify_cache(m, []) as cache:            # the real cache (only handed through to the callees' stubs)
                rc._apply_modifications(cache, mods, None, block, lambda off: in_proc)
        finally:
            RW.insert, RW.delete = saved
        ctx.cover("returned")
        Pv("applymods/%s/ONCE/every-modification-applied-exactly-once" % "-".join(mix), z3.BoolVal(len(calls) == n))
        Pv("applymods/%s/the-original-block-object-is-not-moved-by-the-bookkeeping" % "-".join(mix), zint(block.offset) == B)
    return harness


def replay(mix):
    """native replay: the same requests on a real block of nops through a real apply(): bytes must be the listing edit"""
    def rp(clause, model):
        import gtirb_rewriting as gr
        from bounded import scen
        logging.getLogger("gtirb_rewriting").setLevel(logging.CRITICAL)
        bad = []
        # a block of 12 distinct one-byte instructions; the mix at spread offsets and back to back; plain patches and patches with an
        # INTERNAL label (their last block -- not the rest of the original block -- can be what insert() hands back)
        import itertools
        ends = [[12, 12, 12]] if all(x == "ins" for x in mix) else []      # (byte-string patches are for data blocks: not used here)
        for offs, labelled in itertools.product(([1, 4, 8], [0, 2, 4], [2, 2, 2] if all(x == "ins" for x in mix) else [3, 5, 7], [0, 5, 11], *ends), (False, True)):
            ir, m = create_test_module(gtirb.Module.FileFormat.ELF, gtirb.Module.ISA.X64)
            _, bi = add_text_section(m, address=0x1000)
            pre = add_code_block(bi, b"\x51")
            body = bytes([0x50 + (i % 8) for i in range(12)])       # push %rax ... distinct one-byte instructions
            blk = add_code_block(bi, body)
            post = add_code_block(bi, b"\xc3")
            rc = gr.RewritingContext(m, [])
            want = bytearray(body)
            edits = []
            for k, kind in enumerate(mix):
                o_ = offs[k]
                if kind == "ins":
                    txt, new = ("int3\n.Lq%d:\nnop\nnop" % k, b"\xcc\x90\x90") if labelled is True else ("nop", b"\x90")
                    if labelled == "bytes":
                        new = bytes([0xa0 + k])
                    rc.insert_at(blk, o_, new if labelled == "bytes" else scen.mkpatch(txt))
                    edits.append((o_, 0, new))
                elif kind == "rep":
                    txt, new = ("int3\n.Lq%d:\nnop" % k, b"\xcc\x90") if labelled is True else ("nop\nnop", b"\x90\x90")
                    if labelled == "bytes":
                        new = bytes([0xb0 + k, 0xb8 + k])
                    rc.replace_at(blk, o_, 1, new if labelled == "bytes" else scen.mkpatch(txt))
                    edits.append((o_, 1, new))
                else:
                    rc.delete_at(blk, o_, 1)
                    edits.append((o_, 1, b""))
            try:
                rc.apply()
            except Exception as ex:      # noqa
                bad.append({"mix": list(mix), "offsets": offs[:len(mix)], "labelled patches": labelled, "observed": "%s: %s" % (type(ex).__name__, str(ex)[:100])})
                continue
            # registration order at equal offsets: the earlier one comes first in the listing
            for idx in sorted(range(len(edits)), key=lambda i: (-edits[i][0], -i)):
                o_, l_, new = edits[idx]
                want[o_:o_ + l_] = new
            got = bytes(bi.contents)
            exp = b"\x51" + bytes(want) + b"\xc3"
            if got != exp:
                bad.append({"mix": list(mix), "offsets": offs[:len(mix)], "labelled patches": labelled, "observed": got.hex(), "expected": exp.hex()})
        return {"confirmed": bool(bad), "failures": bad[:2]}
    return rp


class _setup:
    def __enter__(self):
        self.a = shims.installed([RW])
        self.a.__enter__()
        return self

    def __exit__(self, *e):
        self.a.__exit__(*e)
        return False


def jobs(tier="quick", seed=0):
    import itertools
    for n in (1, 2, 3):
        for mix in itertools.product(KINDS, repeat=n):
            if n == 3 and tier == "quick" and mix.count("ins") == 0 and len(set(mix)) == 1:
                continue
            yield Job("K/applymods/" + "-".join(mix), make_harness(mix), setup=_setup, replay=replay(mix), kind="S", func="gtirb_rewriting.rewriting:RewritingContext._apply_modifications",
                      meta={"bound": "1..3 modifications of one block (every mix of insertion / replacement / partial deletion); offsets, lengths, patch sizes, block geometry symbolic"},
                      expect_cover=("returned",), timeout_ms=30000)
