"""C11 -- jobs added for the wave-11 seeds (two cooperating sites); see the docstring of each job"""
import logging

import z3

from pyvc.run import BResult, Job  # noqa: F401

from .c09_10_11 import _dump


# ------------------------------------------------------------------------------------------------ ABI singletons keep no history
def _abi_keys():
    from gtirb_rewriting import abi as ABIM
    return sorted(ABIM._ABIS, key=lambda k: (k[0].name, k[1].name))


def _register_classes(abi):
    """the ABI's own register classes, by name, taken from an object WITHOUT history (a fresh instance of the same class)"""
    fresh = type(abi)()
    allr = fresh.all_registers()
    cs = fresh.caller_saved_registers()
    return {"all": [r.name for r in allr],
            "caller_saved": [r.name for r in allr if r in cs],
            "callee_saved": [r.name for r in allr if r not in cs],
            "scratch": [r.name for r in fresh._scratch_registers()]}


def _request_family(cls, flags):
    """requests a patch can make of the allocator, built from the ABI's register CLASSES (not from register names): which class the
    declared clobbers / reads come from, how many scratch registers (none, one, all there are -- the allocation then reaches into
    every class the scratch list has), whether the caller-saved registers are preserved, whether the flags are"""
    callee, caller, scratch = cls["callee_saved"], cls["caller_saved"], cls["scratch"]
    fam = []
    for pcs in (True, False):
        sets = [("nothing", ())]
        if callee:
            sets += [("first-callee-saved", callee[:1]), ("last-callee-saved", callee[-1:]), ("every-callee-saved", callee)]
        if caller:
            sets += [("first-caller-saved", caller[:1])]
        sets += [("every-register", cls["all"])]
        for nm, clob in sets:
            fam.append(("preserve=%s clobbers=%s" % (pcs, nm), dict(preserve_caller_saved_registers=pcs, clobbers_registers=set(clob))))
        for n in sorted({1, len(scratch)}):
            fam.append(("preserve=%s scratch=%d" % (pcs, n), dict(preserve_caller_saved_registers=pcs, scratch_registers=n)))
        sc_callee = [r for r in scratch if r in callee]
        if sc_callee:
            fam.append(("preserve=%s reads=callee-saved scratch=1" % pcs,
                        dict(preserve_caller_saved_registers=pcs, reads_registers=set(sc_callee[:2]), scratch_registers=1)))
        if flags:
            fam.append(("preserve=%s flags clobbers=%s" % (pcs, "first-callee-saved" if callee else "nothing"),
                        dict(preserve_caller_saved_registers=pcs, clobbers_flags=True, clobbers_registers=set(callee[:1]))))
    return fam


def _frame(abi, kw, leaf=False):
    """what the allocator and the frame generator answer to one request (everything that ends up in the rewritten code)"""
    from gtirb_rewriting.assembly import Constraints
    try:
        cons = Constraints(**{k: (set(v) if isinstance(v, (set, frozenset)) else v) for k, v in kw.items()})
        use = abi._allocate_patch_registers(cons)
        snap = ([r.name for r in use.clobbered_registers], [r.name for r in use.scratch_registers], [r.name for r in use.available_registers])
        pro, epi, adj = abi._create_prologue_and_epilogue(cons, use, leaf)
        return (snap, [s_.code for s_ in pro], [s_.code for s_ in epi], adj)
    except Exception as ex:       # noqa   (a refusal is an answer too: it has to be the same refusal every time)
        return "%s: %s" % (type(ex).__name__, str(ex)[:60])


def _classes_now(abi):
    allr = abi.all_registers()
    cs = abi.caller_saved_registers()
    return {"all": [r.name for r in allr], "caller_saved": [r.name for r in allr if r in cs] + sorted(r.name for r in cs if r not in allr),
            "scratch": [r.name for r in abi._scratch_registers()]}


def allocation_history_harness(ctx):
    """C11: the result of a rewrite is a function of the input IR and the registered modifications ONLY.  The ABI objects are
    process-wide singletons shared by every rewrite of the process, so whatever they answer to a patch's request (registers, prologue,
    epilogue, stack adjustment -- all of it ends up in the code) must not depend on the requests they served before.

    One case = (ABI, one earlier request H of the family _request_family).  For every probe request P of the same family:
      answer(P) before H  ==  answer(P) after H (asked three times)  ==  answer(P) of an object without any history (a fresh instance of
      the ABI's class).
    The family varies what allocation_repeatable_harness did not: WHICH register class the earlier patch's clobbers / reads / scratch
    registers come from (callee-saved, caller-saved, all), together with preserve_caller_saved_registers on either side."""
    from gtirb_rewriting import abi as ABIM
    keys = _abi_keys()
    isa, ff = keys[ctx.choose(len(keys), "abi")]
    abi = ABIM._ABIS[(isa, ff)]
    cls = _register_classes(abi)
    fam = _request_family(cls, flags=isa.name != "MIPS32")
    # the number of alternatives has to be the same for every ABI: pad by skipping
    width = 2 * (6 + 2 + 1 + 1)
    h = ctx.choose(width, "earlier-request")
    ctx.cover("enumerated")
    if h >= len(fam):
        return
    hname, hkw = fam[h]
    tag = "%s/%s after [%s]" % (isa.name, ff.name, hname)

    before = [_frame(abi, kw) for _, kw in fam]
    classes_before = _classes_now(abi)
    _frame(abi, hkw)                                             # the earlier request (its own answer is compared as a probe below)
    _frame(abi, hkw, leaf=True)
    classes_after = _classes_now(abi)
    bad_again, bad_fresh = [], []
    for (pname, kw), b in zip(fam, before):
        later = [_frame(abi, kw) for _ in range(3)]
        if any(x != b for x in later):
            bad_again.append((pname, b[0] if isinstance(b, tuple) else b, [x[0] if isinstance(x, tuple) else x for x in later if x != b][:1]))
        pristine = _frame(type(abi)(), kw)
        if any(x != pristine for x in later + [b]):
            bad_fresh.append((pname, pristine[0] if isinstance(pristine, tuple) else pristine,
                              [x[0] if isinstance(x, tuple) else x for x in later + [b] if x != pristine][:1]))
    ctx.prove("ABI/answer-to-a-request-does-not-depend-on-earlier-requests", z3.BoolVal(not bad_again),
              note="%s: %d of %d probes differ, e.g. %s" % (tag, len(bad_again), len(fam), bad_again[:1]))
    ctx.prove("ABI/answer-of-the-shared-object-equals-the-answer-of-an-object-without-history", z3.BoolVal(not bad_fresh),
              note="%s: %d of %d probes differ, e.g. %s" % (tag, len(bad_fresh), len(fam), bad_fresh[:1]))
    pristine_classes = _classes_now(type(abi)())
    ctx.prove("ABI/register-classes-do-not-change-with-the-requests-served", z3.BoolVal(classes_before == classes_after == pristine_classes),
              note="%s: %s" % (tag, [(k, pristine_classes[k], classes_after[k]) for k in pristine_classes if classes_after[k] != pristine_classes[k] or classes_before[k] != pristine_classes[k]][:1]))
    # vacuity: the family really contains requests outside the caller-saved class and the probes really get frames
    ctx.prove("ABI/history-family-is-not-vacuous", z3.BoolVal(bool(cls["all"]) and sum(isinstance(b, tuple) for b in before) >= len(fam) // 2),
              note="%s: %d of %d probes answered with a frame" % (tag, sum(isinstance(b, tuple) for b in before), len(fam)))


# ------------------------------------------------------------------------------------------------ the same rewrite again, after other rewrites
_CODE = {
    # (nop, return) per ISA
    "X64": (b"\x90", b"\xc3"),
    "IA32": (b"\x90", b"\xc3"),
    "ARM64": (b"\x1f\x20\x03\xd5", b"\xc0\x03\x5f\xd6"),
}


def _rewrite_once(isa, ff, kw, where=0, body="nop"):
    """a freshly built module (function f = [nop; nop; ret]) rewritten with ONE insertion of a patch with constraints kw; UUID-free dump"""
    import gtirb_functions
    import gtirb_rewriting
    from gtirb_rewriting import Patch, patch_constraints
    from gtirb_test_helpers import add_code_block, add_function, add_text_section, create_test_module
    nop, ret = _CODE[isa.name]
    ir, m = create_test_module(ff, isa)
    _, bi = add_text_section(m, address=0x1000)
    block = add_code_block(bi, nop + nop + ret)
    add_function(m, "f", block)

    @patch_constraints(**{k: (set(v) if isinstance(v, (set, frozenset)) else v) for k, v in kw.items()})
    def pat(c):
        return body
    rc = gtirb_rewriting.RewritingContext(m, gtirb_functions.Function.build_functions(m))
    rc.insert_at(block, where * len(nop), Patch.from_function(pat))
    rc.apply()
    return _dump(ir, drop=())


def c11_history_bounded(tier, seed):
    """C11 at the level of whole rewrites: "repeated runs give the same module".  The same freshly built module is rewritten with the same
    single modification before and after an UNRELATED rewrite (another module, another context, another patch) in the same process; the
    two dumps must be equal.  Varied: the ISA / file format, the constraints of the unrelated patch (register class of its clobbers,
    number of scratch registers, preserve_caller_saved_registers, flags) and the constraints of the repeated patch."""
    def run():
        from gtirb_rewriting import abi as ABIM
        logging.getLogger("gtirb_rewriting").setLevel(logging.CRITICAL)
        br = BResult()
        br.clauses = ["C11/same-rewrite-of-the-same-IR-gives-the-same-module-whatever-was-rewritten-before"]
        br.bound = ("ISAs X64 (ELF, PE), IA32 (PE), ARM64 (ELF); a module [nop; nop; ret] rewritten with one inserted patch (constraints: none / "
                    "preserve caller-saved / preserve + 1 scratch / flags + clobbers a callee-saved register) before and after an unrelated "
                    "rewrite of another module whose patch's constraints range over the request family (register class of clobbers and reads, "
                    "scratch count 1 / all, preserve on / off, flags)")
        distinct = set()
        for isa, ff in _abi_keys():
            if isa.name not in _CODE:
                continue
            abi = ABIM._ABIS[(isa, ff)]
            cls = _register_classes(abi)
            fam = _request_family(cls, flags=True)
            callee = cls["callee_saved"]
            probes = [("no constraints", dict()),
                      ("preserve caller-saved", dict(preserve_caller_saved_registers=True)),
                      ("preserve caller-saved, 1 scratch", dict(preserve_caller_saved_registers=True, scratch_registers=1)),
                      ("flags, clobbers a callee-saved register", dict(clobbers_flags=True, clobbers_registers=set(callee[:1])))]
            try:
                first = [_rewrite_once(isa, ff, kw, where=1) for _, kw in probes]
            except Exception as ex:      # noqa
                br.assumption_hits.append("probe rewrite raises on %s/%s: %s: %s" % (isa.name, ff.name, type(ex).__name__, str(ex)[:80]))
                continue
            for hname, hkw in fam:
                try:
                    _rewrite_once(isa, ff, hkw, where=0)
                    applied = True
                except Exception:       # noqa   (a request the ABI refuses: the refusal is history too)
                    applied = False
                for (pname, kw), f in zip(probes, first):
                    br.cases += 1
                    desc = {"module": "%s/%s [nop; nop; ret]" % (isa.name, ff.name), "repeated patch": pname,
                            "unrelated rewrite in between": hname + ("" if applied else " (refused)")}
                    try:
                        again = _rewrite_once(isa, ff, kw, where=1)
                    except Exception as ex:      # noqa
                        again = "EXC %s: %s" % (type(ex).__name__, str(ex)[:60])
                    if applied:
                        distinct.add((isa.name, ff.name, pname, hname))
                    if again != f:
                        br.failures.append({"clause": br.clauses[0], "witness": desc,
                                            "detail": "dumps differ (%d vs %d characters)%s" % (len(f), len(again), " " + again if again.startswith("EXC") else "")})
                    elif len(br.samples) < 2:
                        br.samples.append(desc)
        br.nontrivial = len(distinct)
        return br
    return run


def jobs(tier="quick", seed=0):
    yield Job("C11/allocation-history-independent", allocation_history_harness, kind="E",
              func="gtirb_rewriting.abi:ABI._allocate_patch_registers/_create_prologue_and_epilogue/caller_saved_registers (shared objects: answers do not depend on earlier requests)",
              expect_cover=("enumerated",))
    yield Job("C11/repeated-rewrite-history-bounded", c11_history_bounded(tier, seed), kind="B",
              func="gtirb_rewriting.rewriting:RewritingContext.apply (same rewrite before / after unrelated rewrites in one process)")
