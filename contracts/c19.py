"""C19 -- delete_symbol removes every trace of the symbol, and only that.

_modify.delete_symbols is pure finite-map manipulation keyed by object identity (no arithmetic): its helpers are
checked *bounded-exhaustively* (B, labelled bounded) against an oracle written from the property statement, over a
small universe (2 deletable + 2 kept symbols) with every table either absent or populated, every subset of deletions x
force flags, and a family of symbol-version structures.  RewritingContext.delete_symbol (loop-free) is proved (D): the
recorded force flag is the conjunction of all requests; a foreign symbol is refused with ValueError.
"""
import copy
import io
import itertools
import uuid

import gtirb
import z3
from gtirb_test_helpers import add_code_block, add_data_block, add_symbol, add_text_section, create_test_module

from gtirb_rewriting import _auxdata
from gtirb_rewriting import rewriting as RW
from gtirb_rewriting._auxdata import NULL_UUID
from gtirb_rewriting._modify import SymbolDeletionOptions, delete_symbols
from gtirb_rewriting._modify.delete_symbols import SymbolUsesRemainingError

from pyvc import core, shims
from pyvc.run import BResult, Job
from pyvc.sym import SymBool, zbool

VER_FLG_BASE = 1


def build(tables_present, versions_variant, exprs_on, ff):
    ir, m = create_test_module(ff, gtirb.Module.ISA.X64)
    _, bi = add_text_section(m, address=0x1000)
    blocks = [add_code_block(bi, b"\x90\x90\x90\x90") for _ in range(4)]
    syms = {n: add_symbol(m, n, b) for n, b in zip(("A", "B", "K1", "K2"), blocks)}
    S = syms
    # symbolic expressions: one per symbol in exprs_on
    for i, n in enumerate(("A", "B", "K1", "K2")):
        if n in exprs_on:
            bi.symbolic_expressions[i * 4] = gtirb.SymAddrConst(0, S[n])
    bi.symbolic_expressions[17] = gtirb.SymAddrAddr(1, 0, S["K1"], S["A"]) if "AA" in exprs_on else gtirb.SymAddrConst(0, S["K2"])
    # expressions naming two deletable symbols, in both operand orders (the force flags of the two may differ)
    for off, tag, (x, y) in ((21, "AB", ("A", "B")), (25, "BA", ("B", "A")), (29, "AK", ("A", "K1"))):
        if tag in exprs_on:
            bi.symbolic_expressions[off] = gtirb.SymAddrAddr(1, 0, S[x], S[y])
    # a second byte interval with UNRELATED expressions (kept symbols only) at the very same interval-relative offsets
    from gtirb_test_helpers import add_data_section
    _, dbi2 = add_data_section(m, address=0x8000)
    dbi2.contents = b"\x00" * 40
    dbi2.size = 40
    for off in (0, 4, 8, 12, 17, 21, 25, 29):
        dbi2.symbolic_expressions[off] = gtirb.SymAddrConst(off, S["K2"] if off % 8 else S["K1"])
    if "elfSymbolInfo" in tables_present:
        _auxdata.elf_symbol_info.set(m, {s: (0, "FUNC", "GLOBAL", "DEFAULT", 0) for s in S.values()})
    if "elfSymbolTabIdxInfo" in tables_present:
        _auxdata.elf_symbol_tab_idx_info.set(m, {s: [(".symtab", i)] for i, s in enumerate(S.values())})
    if "functionNames" in tables_present:
        _auxdata.function_names.set(m, {uuid.UUID(int=i + 1): s for i, s in enumerate(S.values())})
    if "peImportedSymbols" in tables_present:
        _auxdata.pe_imported_symbols.set(m, [S["A"], S["K1"], S["B"]])
    if "peExportedSymbols" in tables_present:
        _auxdata.pe_exported_symbols.set(m, [S["K2"], S["A"]])
    if "symbolForwarding" in tables_present:
        # many-to-one: K1 and K2 both forward to B; A forwards to K1 and is itself a target (of B)
        _auxdata.symbol_forwarding.set(m, {S["A"]: S["K1"], S["K2"]: S["B"], S["K1"]: S["B"], S["B"]: S["A"]})
    if "cfiDirectives" in tables_present:
        _auxdata.cfi_directives.set(m, {
            gtirb.Offset(blocks[0], 0): [(".cfi_startproc", [], NULL_UUID), (".cfi_personality", [0x9B], S["A"]), (".cfi_lsda", [0x1B], S["K1"])],
            gtirb.Offset(blocks[1], 0): [(".cfi_lsda", [0x1B], S["B"]), (".cfi_undefined", [3], S["A"]), (".cfi_personality", [0], S["K2"])],
            gtirb.Offset(blocks[2], 0): [(".cfi_undefined", [3], S["A"]), (".cfi_lsda", [0x1B], S["B"]), (".cfi_undefined", [4], S["A"]), (".cfi_offset", [5, 8], S["B"])],
        })
    if "elfSymbolVersions" in tables_present:
        defs = {1: (["base"], VER_FLG_BASE), 2: (["V2"], 0), 3: (["V3"], 0)}
        reqs = {"libc.so": {4: "GLIBC_4", 5: "GLIBC_5"}, "libm.so": {6: "M_6"}}
        v = versions_variant
        entries = {S["A"]: (v[0], False), S["B"]: (v[1], False), S["K1"]: (v[2], False), S["K2"]: (v[3], True)}
        _auxdata.elf_symbol_versions.set(m, (defs, reqs, entries))
    return ir, m, bi, S


def snapshot(m, S):
    g = lambda t: copy.deepcopy_shallow(t) if False else t
    names = {id(s): n for n, s in S.items()}
    N = lambda s: names.get(id(s), "?")
    out = {}
    t = _auxdata.elf_symbol_info.get(m)
    out["elfSymbolInfo"] = None if t is None else {N(k): v for k, v in t.items()}
    t = _auxdata.elf_symbol_tab_idx_info.get(m)
    out["elfSymbolTabIdxInfo"] = None if t is None else {N(k): v for k, v in t.items()}
    t = _auxdata.function_names.get(m)
    out["functionNames"] = None if t is None else {k.int: N(v) for k, v in t.items()}
    t = _auxdata.pe_imported_symbols.get(m)
    out["peImportedSymbols"] = None if t is None else [N(x) for x in t]
    t = _auxdata.pe_exported_symbols.get(m)
    out["peExportedSymbols"] = None if t is None else [N(x) for x in t]
    t = _auxdata.symbol_forwarding.get(m)
    out["symbolForwarding"] = None if t is None else {N(k): N(v) for k, v in t.items()}
    t = _auxdata.cfi_directives.get(m)
    out["cfiDirectives"] = None if t is None else sorted((k.element_id.address, k.displacement, [(d, list(a), N(s) if isinstance(s, gtirb.Symbol) else ("null" if s == NULL_UUID else "uuid")) for d, a, s in v]) for k, v in t.items())
    t = _auxdata.elf_symbol_versions.get(m)
    if t is None:
        out["elfSymbolVersions"] = None
    else:
        d, r, e = t
        out["elfSymbolVersions"] = ({k: (list(v[0]), v[1]) for k, v in d.items()}, {k: dict(v) for k, v in r.items()}, {N(k): v for k, v in e.items()})
    out["symbols"] = sorted(N(s) for s in m.symbols)
    out["exprs"] = sorted((i.address, k, type(e).__name__, tuple(N(s) for s in e.symbols)) for i in m.byte_intervals for k, e in i.symbolic_expressions.items())
    return out


def oracle(pre, deleted, force):
    """expected snapshot after deleting `deleted` (names) -- written from the property statement"""
    D = set(deleted)
    uses = [x for x in pre["exprs"] if set(x[3]) & D]
    unforced_used = [n for n in D if not force[n] and any(n in x[3] for x in uses)]
    if unforced_used:
        return ("SymbolUsesRemainingError", None)
    out = {}
    for t in ("elfSymbolInfo", "elfSymbolTabIdxInfo"):
        out[t] = None if pre[t] is None else {k: v for k, v in pre[t].items() if k not in D}
    out["functionNames"] = None if pre["functionNames"] is None else {k: v for k, v in pre["functionNames"].items() if v not in D}
    for t in ("peImportedSymbols", "peExportedSymbols"):
        out[t] = None if pre[t] is None else [x for x in pre[t] if x not in D]
    out["symbolForwarding"] = None if pre["symbolForwarding"] is None else {k: v for k, v in pre["symbolForwarding"].items() if k not in D and v not in D}
    if pre["cfiDirectives"] is None:
        out["cfiDirectives"] = None
    else:
        new = []
        for a, d, ds in pre["cfiDirectives"]:
            nd = []
            for name, args, s in ds:
                if s in D:
                    nd.append((name, [0xFF], "null") if name in (".cfi_personality", ".cfi_lsda") else (name, args, "null"))
                else:
                    nd.append((name, args, s))
            new.append((a, d, nd))
        out["cfiDirectives"] = new
    if pre["elfSymbolVersions"] is None:
        out["elfSymbolVersions"] = None
    else:
        defs, reqs, ent = pre["elfSymbolVersions"]
        ent2 = {k: v for k, v in ent.items() if k not in D}
        used = {v[0] for v in ent2.values()}
        defs2 = {k: v for k, v in defs.items() if k in used or v[1] == VER_FLG_BASE}
        reqs2 = {}
        for lib, vs in reqs.items():
            keep = {k: v for k, v in vs.items() if k in used}
            if keep:
                reqs2[lib] = keep
        out["elfSymbolVersions"] = (defs2, reqs2, ent2)
    out["symbols"] = sorted(set(pre["symbols"]) - D)
    out["exprs"] = [x for x in pre["exprs"] if not (set(x[3]) & D)]
    return ("ok", out)


ALL_TABLES = ["elfSymbolInfo", "elfSymbolTabIdxInfo", "functionNames", "peImportedSymbols", "peExportedSymbols", "symbolForwarding",
              "cfiDirectives", "elfSymbolVersions"]


def bounded(tier, seed):
    def run():
        br = BResult()
        br.bound = ("universe of 4 symbols (A, B deletable; K1, K2 kept); deletions {A}, {B}, {A,B} x force flags; every aux table all-present, "
                    "each-absent-in-turn and all-absent; symbolic expressions on subsets of {A, B, K1, AA=SymAddrAddr(K1, A), AB=SymAddrAddr(A, B), BA=SymAddrAddr(B, A), AK=SymAddrAddr(A, K1)}; 12 symbol-version id "
                    "assignments (shared / exclusive / base ids, definitions and requirements); ELF and PE")
        br.clauses = ["C19/no-table-mentions-a-deleted-symbol-and-nothing-else-changes", "C19/SymbolUsesRemainingError-iff-unforced-symbol-still-used",
                      "C19/forced-deletion-drops-exactly-the-using-expressions", "C19/version-definitions-and-requirements-dropped-iff-unused",
                      "C19/module-still-serialises"]
        table_sets = [tuple(ALL_TABLES), ()] + [tuple(t for t in ALL_TABLES if t != x) for x in ALL_TABLES]
        vvars = [(2, 2, 2, 3), (2, 3, 3, 3), (2, 3, 1, 1), (4, 4, 5, 6), (4, 5, 5, 6), (6, 4, 4, 5), (4, 6, 6, 5), (2, 4, 1, 5), (3, 6, 2, 4), (1, 1, 2, 4), (5, 5, 5, 5), (6, 2, 6, 2)]
        expr_sets = [(), ("A",), ("B",), ("A", "B"), ("A", "K1"), ("AA",), ("K1",), ("A", "B", "K1", "AA"), ("AB",), ("BA",), ("AK",), ("AB", "K1"), ("BA", "AK"),
                     ("AB", "BA", "AA", "AK")]
        distinct = set()
        for ff in (gtirb.Module.FileFormat.ELF, gtirb.Module.FileFormat.PE):
            for tp in table_sets:
                vs = vvars if (tp == tuple(ALL_TABLES)) else vvars[:2]
                for vv in vs:
                    es = expr_sets if vv == vvars[0] else (expr_sets[:3] + expr_sets[8:10])
                    for ex in es:
                        for deleted in (("A",), ("B",), ("A", "B")):
                            for fl in itertools.product((True, False), repeat=len(deleted)):
                                force = dict(zip(deleted, fl))
                                ir, m, bi, S = build(tp, vv, ex, ff)
                                pre = snapshot(m, S)
                                want = oracle(pre, deleted, force)
                                br.cases += 1
                                distinct.add((ff.name, tp, vv, ex, deleted, fl))
                                desc = {"format": ff.name, "absent_tables": sorted(set(ALL_TABLES) - set(tp)), "version_ids(A,B,K1,K2)": vv, "exprs_on": ex,
                                        "deleted": deleted, "force": fl}
                                try:
                                    delete_symbols(m, {S[n]: SymbolDeletionOptions(force[n]) for n in deleted})
                                    got = ("ok", snapshot(m, S))
                                except SymbolUsesRemainingError:
                                    got = ("SymbolUsesRemainingError", None)
                                except Exception as e:
                                    got = (type(e).__name__, str(e)[:80])
                                if got[0] != want[0]:
                                    br.failures.append({"clause": "C19/SymbolUsesRemainingError-iff-unforced-symbol-still-used", "witness": desc,
                                                        "detail": "expected %s observed %s" % (want[0], got[:2] if got[0] != "ok" else "ok")})
                                    continue
                                if got[0] == "ok":
                                    for key in want[1]:
                                        if got[1][key] != want[1][key]:
                                            cl = {"exprs": "C19/forced-deletion-drops-exactly-the-using-expressions",
                                                  "elfSymbolVersions": "C19/version-definitions-and-requirements-dropped-iff-unused"}.get(
                                                      key, "C19/no-table-mentions-a-deleted-symbol-and-nothing-else-changes")
                                            br.failures.append({"clause": cl, "witness": desc, "detail": "%s: observed %r expected %r" % (key, got[1][key], want[1][key])})
                                    try:
                                        buf = io.BytesIO()
                                        ir.save_protobuf_file(buf)
                                    except Exception as e:
                                        br.failures.append({"clause": "C19/module-still-serialises", "witness": desc, "detail": "%s: %s" % (type(e).__name__, str(e)[:80])})
                                if len(br.samples) < 2:
                                    br.samples.append(desc)
        br.nontrivial = len(distinct)
        return br
    return run


def delete_symbol_harness(ctx):
    """RewritingContext.delete_symbol: force recorded == conjunction of all requests; foreign symbol refused"""
    ir, m = create_test_module(gtirb.Module.FileFormat.ELF, gtirb.Module.ISA.X64)
    _, bi = add_text_section(m, address=0x1000)
    s = add_symbol(m, "s", add_code_block(bi, b"\x90"))
    rc = RW.RewritingContext(m, [])
    n = ctx.choose(4, "number-of-requests") + 1
    fs = [SymBool(ctx.bool("force%d" % i)) for i in range(n)]
    for f in fs:
        rc.delete_symbol(s, force=f)
    opts = rc._symbol_deletions.get(s)
    ok = opts is not None and list(rc._symbol_deletions) == [s]
    got = opts.force
    ctx.prove("delete_symbol/force-is-the-conjunction-of-all-requests",
              z3.And(z3.BoolVal(bool(ok)), zbool(got) == z3.And([f.term for f in fs])))
    foreign = gtirb.Symbol("x")
    try:
        rc.delete_symbol(foreign)
        ctx.fail("delete_symbol/foreign-symbol-refused", "accepted")
    except ValueError:
        ctx.prove("delete_symbol/foreign-symbol-refused", z3.BoolVal(True))


def delete_symbol_history_harness(ctx):
    """RewritingContext.delete_symbol over histories of up to 4 requests on TWO symbols (E): the flag recorded for each symbol is the
    conjunction of the requests made FOR THAT SYMBOL -- a downgrade of one symbol never touches another"""
    ir, m = create_test_module(gtirb.Module.FileFormat.ELF, gtirb.Module.ISA.X64)
    _, bi = add_text_section(m, address=0x1000)
    syms = [add_symbol(m, n, add_code_block(bi, b"\x90")) for n in ("a", "b")]
    rc = RW.RewritingContext(m, [])
    n = ctx.choose(4, "requests") + 1
    want = {}
    for i in range(n):
        s = syms[ctx.choose(2, "symbol%d" % i)]
        f = bool(ctx.choose(2, "force%d" % i))
        rc.delete_symbol(s, force=f)
        want[s] = want.get(s, True) and f
    got = {s: o.force for s, o in rc._symbol_deletions.items()}
    ctx.prove("delete_symbol/each-symbol's-flag-is-the-conjunction-of-ITS-OWN-requests", z3.BoolVal(got == want),
              note="recorded %s expected %s" % ({s.name: v for s, v in got.items()}, {s.name: v for s, v in want.items()}))
    ctx.cover("enumerated")


# ---------------------------------------------------------------------------------------------------------------------------------
# delete_symbol in the company of OTHER requests of the same RewritingContext, through the real apply().
#
# Everything above calls delete_symbols / delete_symbol on their own.  The property is a statement about the user's call
# `ctx.delete_symbol(s, force=f)` whatever else the same context was asked to do: the flag the user gave is the flag that decides,
# and "still uses it" is judged on the module as the other requests leave it.  The oracle below is written from the property
# statement only and judges OUTCOMES (it does not predict how a retarget treats an expression -- that is C18's business):
#   * an expression may disappear only if it names a symbol whose deletion was FORCED (before or after the requested retargets), or
#     if it lay in a block the user deleted;
#   * if apply() returns, the deleted symbols have left the module, no expression / table names them, symbols and entries not asked
#     for are untouched, and the module serialises;
#   * SymbolUsesRemainingError names an UNFORCED symbol of the request that an expression still uses;
#   * any other failure is only acceptable as the refusal of one of the companion requests.
# Every expression carries a distinct addend ("tag"), which neither retargeting nor deleting changes, so expressions are followed by
# tag and not by position.

APPLY_USES = ("no use of A", "data word A", "call A", "difference A - K", "difference K - A")
APPLY_COMPANIONS = ("nothing else", "retarget A -> N", "retarget C -> A", "retarget A -> N and C -> A", "retarget K -> N", "retarget C -> N",
                    "delete the block holding the use of A", "retarget A -> N and delete the block holding the use of A")
TAG_USE, TAG_C, TAG_K, TAG_N, TAG_B = 1, 3, 4, 5, 6


def apply_build(ff, use, with_b):
    from gtirb_test_helpers import add_data_section, add_edge
    ir, m = create_test_module(ff, gtirb.Module.ISA.X64)
    _, tbi = add_text_section(m, address=0x1000)
    S = {n: add_symbol(m, n, add_code_block(tbi, b"\xC3")) for n in ("A", "N", "C", "B")}
    if use == "call A":
        site = add_code_block(tbi, b"\xE8\x00\x00\x00\x00", {(1, 4): gtirb.SymAddrConst(TAG_USE, S["A"])})
    else:
        site = add_code_block(tbi, b"\x90\x90\x90\x90\x90")
    after = add_code_block(tbi, b"\xC3")
    S["main"] = add_symbol(m, "main", site)
    if use == "call A":
        add_edge(ir.cfg, site, S["A"].referent, gtirb.EdgeType.Call)
    add_edge(ir.cfg, site, after, gtirb.EdgeType.Fallthrough)
    _, dbi = add_data_section(m, address=0x4000)
    use_blk = add_data_block(dbi, b"\x00" * 8)
    others = add_data_block(dbi, b"\x00" * 24)
    S["K"] = add_symbol(m, "K", others)
    if use == "data word A":
        dbi.symbolic_expressions[0] = gtirb.SymAddrConst(TAG_USE, S["A"])
    elif use == "difference A - K":
        dbi.symbolic_expressions[0] = gtirb.SymAddrAddr(1, TAG_USE, S["A"], S["K"])
    elif use == "difference K - A":
        dbi.symbolic_expressions[0] = gtirb.SymAddrAddr(1, TAG_USE, S["K"], S["A"])
    dbi.symbolic_expressions[8] = gtirb.SymAddrConst(TAG_C, S["C"])
    dbi.symbolic_expressions[12] = gtirb.SymAddrConst(TAG_K, S["K"])
    dbi.symbolic_expressions[16] = gtirb.SymAddrConst(TAG_N, S["N"])
    if with_b:
        dbi.symbolic_expressions[20] = gtirb.SymAddrConst(TAG_B, S["B"])
    if ff == gtirb.Module.FileFormat.ELF:
        _auxdata.elf_symbol_info.set(m, {s: (0, "OBJECT" if n == "K" else "FUNC", "GLOBAL", "DEFAULT", 0) for n, s in S.items()})
    else:
        _auxdata.pe_exported_symbols.set(m, [S["K"], S["A"], S["B"], S["main"]])
    _auxdata.function_names.set(m, {uuid.UUID(int=i + 1): S[n] for i, n in enumerate(("A", "N", "C", "B", "main"))})
    return ir, m, S, (site if use == "call A" else use_blk)


def apply_exprs(m, names):
    out = {}
    for i in m.byte_intervals:
        for k, e in i.symbolic_expressions.items():
            out[e.offset] = (type(e).__name__, tuple(names.get(id(s), "?") for s in e.symbols), i, k)
    return out


def apply_tables(m, names):
    out = {}
    t = _auxdata.elf_symbol_info.get(m)
    out["elfSymbolInfo"] = None if t is None else sorted(names.get(id(k), "?") for k in t)
    t = _auxdata.pe_exported_symbols.get(m)
    out["peExportedSymbols"] = None if t is None else [names.get(id(x), "?") for x in t]
    t = _auxdata.function_names.get(m)
    out["functionNames"] = None if t is None else {k.int: names.get(id(v), "?") for k, v in t.items()}
    return out


def apply_harness(ctx):
    """RewritingContext.apply(): delete_symbol(A, force=f) [and optionally delete_symbol(B, force=True)] together with retargets and a
    block deletion registered in the same context, in both registration orders (E: every combination is executed on the real code)"""
    import logging
    ff = (gtirb.Module.FileFormat.ELF, gtirb.Module.FileFormat.PE)[ctx.choose(2, "format")]
    use = APPLY_USES[ctx.choose(len(APPLY_USES), "use-of-A")]
    force = bool(ctx.choose(2, "force"))
    comp = APPLY_COMPANIONS[ctx.choose(len(APPLY_COMPANIONS), "companion-requests")]
    delete_first = bool(ctx.choose(2, "delete_symbol-registered-first")) if comp != "nothing else" else True
    with_b = bool(ctx.choose(2, "also-delete-B-forced(B-has-a-use)"))
    ir, m, S, use_block = apply_build(ff, use, with_b)
    names = {id(s): n for n, s in S.items()}
    retargets = {}
    for a, b in (("A", "N"), ("C", "A"), ("K", "N"), ("C", "N")):
        if "%s -> %s" % (a, b) in comp:
            retargets[a] = b
    drop_block = "delete the block" in comp
    requested = {"A": force}
    if with_b:
        requested["B"] = True
    pre = apply_exprs(m, names)
    pre_tables = apply_tables(m, names)
    pre_symbols = sorted(names.get(id(s), "?") for s in m.symbols)
    in_dropped_block = set()
    if drop_block:
        bi, lo, hi = use_block.byte_interval, use_block.offset, use_block.offset + use_block.size
        in_dropped_block = {t for t, (_, _, i, k) in pre.items() if i is bi and lo <= k < hi}

    rc = RW.RewritingContext(m, [])

    def deletions():
        # the unforced / forced request for A is made twice with the SAME flag around B's (the conjunction rule must not mix them up)
        rc.delete_symbol(S["A"], force=force)
        if with_b:
            rc.delete_symbol(S["B"], force=True)
            rc.delete_symbol(S["A"], force=force)

    def companions():
        for a, b in retargets.items():
            rc.retarget_symbol_uses(S[a], S[b])
        if drop_block:
            rc.delete_at(use_block, 0, use_block.size)

    for step in ((deletions, companions) if delete_first else (companions, deletions)):
        step()
    desc = "%s; %s; delete_symbol(A, force=%s)%s; %s; %s" % (ff.name, use, force, " + delete_symbol(B, force=True)" if with_b else "", comp,
                                                               "deletion registered first" if delete_first else "deletion registered last")
    lg = logging.getLogger("gtirb_rewriting")
    old_level = lg.level
    lg.setLevel(logging.CRITICAL)
    try:
        rc.apply()
        outcome, exc = "ok", None
    except SymbolUsesRemainingError as e:
        outcome, exc = "SymbolUsesRemainingError", e
    except Exception as e:
        outcome, exc = type(e).__name__, e
    finally:
        lg.setLevel(old_level)
    post = apply_exprs(m, names)
    forced = {n for n, f in requested.items() if f}
    unforced = {n for n, f in requested.items() if not f}

    # 1. the only licence to throw an expression away is a FORCED deletion of a symbol it names (or the user's own block deletion)
    bad = []
    for t, (ty, syms, _, _) in pre.items():
        if t in post or t in in_dropped_block:
            continue
        mapped = tuple(retargets.get(n, n) for n in syms)
        if not ((set(syms) | set(mapped)) & forced):
            bad.append("%s(%s) [tag %d] was removed" % (ty, ", ".join(syms), t))
    ctx.prove("apply/an-expression-is-removed-only-for-a-FORCED-deletion-of-a-symbol-it-names", z3.BoolVal(not bad),
              note="%s -> %s: %s" % (desc, outcome, "; ".join(bad)))
    # 2. whatever happens, a surviving expression names what it named before, up to the requested retargets; nothing new appears
    bad = []
    for t, (ty, syms, _, _) in post.items():
        if t not in pre:
            bad.append("new expression tag %d" % t)
            continue
        pty, psyms = pre[t][0], pre[t][1]
        if ty != pty or any(s not in (p, retargets.get(p, p)) for s, p in zip(syms, psyms)):
            bad.append("%s(%s) became %s(%s)" % (pty, ", ".join(psyms), ty, ", ".join(syms)))
    ctx.prove("apply/surviving-expressions-differ-only-by-the-requested-retargets", z3.BoolVal(not bad), note="%s -> %s: %s" % (desc, outcome, "; ".join(bad)))

    if outcome == "ok":
        ctx.cover("apply-succeeded")
        left = [n for n in requested if S[n] in m.symbols or S[n].module is not None]
        still = ["%s(%s)" % (ty, ", ".join(syms)) for ty, syms, _, _ in post.values() if set(syms) & set(requested)]
        tabs = apply_tables(m, names)
        want_tabs = {
            "elfSymbolInfo": None if pre_tables["elfSymbolInfo"] is None else [n for n in pre_tables["elfSymbolInfo"] if n not in requested],
            "peExportedSymbols": None if pre_tables["peExportedSymbols"] is None else [n for n in pre_tables["peExportedSymbols"] if n not in requested],
            "functionNames": {k: v for k, v in pre_tables["functionNames"].items() if v not in requested},
        }
        ctx.prove("apply/success-means-the-symbol-is-gone-and-no-expression-names-it", z3.BoolVal(not left and not still),
                  note="%s: still in the module %s, still used by %s" % (desc, left, still))
        ctx.prove("apply/tables-lose-exactly-the-deleted-symbols", z3.BoolVal(tabs == want_tabs), note="%s: observed %r expected %r" % (desc, tabs, want_tabs))
        ctx.prove("apply/symbols-not-asked-for-stay", z3.BoolVal(sorted(names.get(id(s), "?") for s in m.symbols) == [n for n in pre_symbols if n not in requested]),
                  note=desc)
        # an unforced deletion that went through: every expression that named the symbol is still there (under another name) or went with its block
        kept = [t for t, (_, syms, _, _) in pre.items() if set(syms) & unforced and t not in in_dropped_block]
        ctx.prove("apply/an-UNFORCED-deletion-succeeds-only-when-no-use-had-to-be-dropped", z3.BoolVal(all(t in post for t in kept)),
                  note="%s: expressions naming the unforced symbol before: tags %s, after: %s" % (desc, kept, sorted(post)))
        if unforced and any(set(v[1]) & unforced for v in pre.values()):
            ctx.cover("unforced-deletion-of-a-symbol-whose-uses-were-all-taken-away-by-companions")
        if any(t not in post and t not in in_dropped_block for t in pre):
            ctx.cover("forced-deletion-dropped-an-expression")
        try:
            ir.save_protobuf_file(io.BytesIO())
            ctx.prove("apply/module-still-serialises", z3.BoolVal(True))
        except Exception as e:
            ctx.fail("apply/module-still-serialises", "%s: %s: %s" % (desc, type(e).__name__, str(e)[:80]))
    elif outcome == "SymbolUsesRemainingError":
        ctx.cover("SymbolUsesRemainingError")
        culprit = names.get(id(exc.symbol), "?")
        used = any(culprit in syms for _, syms, _, _ in post.values())
        ctx.prove("apply/SymbolUsesRemainingError-names-an-UNFORCED-symbol-that-is-still-used", z3.BoolVal(culprit in unforced and used),
                  note="%s: blamed %s (unforced: %s), still used: %s" % (desc, culprit, sorted(unforced), used))
    else:
        ctx.cover("refused-by-a-companion-request")
        # only a companion request may fail for reasons of its own (C18 decides which); a lone delete_symbol knows one failure only
        ctx.prove("apply/no-other-failure-without-a-companion-request-to-blame", z3.BoolVal(bool(retargets) or drop_block),
                  note="%s: %s: %s" % (desc, outcome, str(exc)[:100]))
    # 3. completeness of the refusal: an unforced symbol that is still used, with no companion touching its uses, must be refused
    if not force and use != "no use of A" and "A -> N" not in comp and not drop_block and outcome == "ok":
        ctx.fail("apply/unforced-deletion-of-a-used-symbol-is-refused", "%s: apply() succeeded" % desc)
    else:
        ctx.prove("apply/unforced-deletion-of-a-used-symbol-is-refused", z3.BoolVal(True))


def jobs(tier="quick", seed=0):
    yield Job("C19/apply-with-companion-requests", apply_harness, kind="E", func="gtirb_rewriting.rewriting:RewritingContext.apply",
              # ("refused-by-a-companion-request" is reached today -- a retarget refuses label differences -- but whether a companion refuses
              # is C18's decision, so it is not demanded here)
              expect_cover=("apply-succeeded", "SymbolUsesRemainingError", "forced-deletion-dropped-an-expression",
                            "unforced-deletion-of-a-symbol-whose-uses-were-all-taken-away-by-companions"))
    yield Job("C19/delete_symbol-histories",delete_symbol_history_harness, kind="E", func="gtirb_rewriting.rewriting:RewritingContext.delete_symbol", expect_cover=("enumerated",))
    from . import c19_d
    yield from c19_d.jobs(tier, seed)
    # the accessor through which every table update above reaches the module
    from . import kernel_auxdata
    for j in kernel_auxdata.jobs(tier, seed):
        j.id = "C19/" + j.id
        yield j
    yield Job("C19/delete_symbol", delete_symbol_harness, setup=lambda: shims.installed([RW]), kind="D",
              func="gtirb_rewriting.rewriting:RewritingContext.delete_symbol")
    yield Job("C19/delete_symbols-bounded", bounded(tier, seed), kind="B", func="gtirb_rewriting._modify.delete_symbols:delete_symbols")
