"""C01 -- see contracts/registry.json for the clauses; D kernels + bounded apply-level stand-in."""
from . import apply_bounded, kernels


def jobs(tier="quick", seed=0):
    yield from kernels.jobs_for("C01", tier, seed)
    # "every patch appears exactly once, in registration order when several target the same offset"
    from . import c07
    for j in c07.jobs(tier, seed):
        if j.id in ("C07/resolve_offsets", "C07/store", "C07/apply-bounded"):
            j.id = "C01/" + j.id
            yield j
    yield apply_bounded.job("C01", tier, seed)
