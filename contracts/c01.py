"""C01 -- see contracts/registry.json for the clauses; D kernels + bounded apply-level stand-in."""
import itertools

import gtirb

from pyvc.run import BResult, Job

from . import apply_bounded, kernels


def overlapping_blocks(tier, seed):
    """C01 on intervals whose blocks OVERLAP (nested, nested + a later block inside the outer one, chains): every block gets its own byte
    interval during a rewrite (prepare_for_rewriting / split_byte_interval) and the intervals are re-joined afterwards; an edit addressed
    at block + offset must land at that block's address + offset whatever the overlap structure"""
    def run():
        import logging
        from gtirb_rewriting import RewritingContext
        from gtirb_test_helpers import add_text_section, create_test_module
        from bounded import scen
        logging.getLogger("gtirb_rewriting").setLevel(logging.CRITICAL)
        br = BResult()
        br.bound = ("x86-64 interval of 12 one-byte instructions (push/pop, every offset is an instruction boundary) with 5 overlapping block layouts "
                    "(nested, nested + later block inside the outer one, chain, identical, nested at the end); every single insert / delete / replace at every "
                    "offset of every block")
        br.clauses = ["C01/bytes-are-the-listing-edit(overlapping-blocks)", "C01/apply-does-not-raise(overlapping-blocks)"]
        layouts = {"nested+later": [(0, 10), (2, 2), (6, 4), (10, 2)], "nested": [(0, 10), (3, 4), (10, 2)], "chain": [(0, 6), (4, 6), (10, 2)],
                   "identical": [(0, 6), (0, 6), (6, 6)], "nested-at-the-end": [(0, 10), (7, 3), (10, 2)]}
        data = bytes([0x50, 0x51, 0x52, 0x53, 0x54, 0x55, 0x56, 0x57, 0x58, 0x59, 0x5A, 0x5B])
        distinct = set()
        for lname, lay in layouts.items():
            for bidx, (bo, bs) in enumerate(lay):
                edits = [("ins", o, 0) for o in range(bs + 1)] + [("del", o, l) for o in range(bs) for l in (1, 2) if o + l <= bs and not (o == 0 and l == bs)] \
                    + [("rep", o, 1) for o in range(bs)]
                for op, o, l in edits:
                    ir, m = create_test_module(gtirb.Module.FileFormat.ELF, gtirb.Module.ISA.X64)
                    _, bi = add_text_section(m, address=0x1000)
                    bi.contents = data
                    bi.size = len(data)
                    blocks = []
                    for (off, sz) in lay:
                        b = gtirb.CodeBlock(offset=off, size=sz)
                        b.byte_interval = bi
                        blocks.append(b)
                    rc = RewritingContext(m, [])
                    patch = scen.mkpatch("nop")
                    if op == "ins":
                        rc.insert_at(blocks[bidx], o, patch)
                    elif op == "del":
                        rc.delete_at(blocks[bidx], o, l)
                    else:
                        rc.replace_at(blocks[bidx], o, l, patch)
                    br.cases += 1
                    distinct.add((lname, bidx, op, o, l))
                    desc = {"layout": lname, "blocks (offset, size)": lay, "edit": [op, "block %d" % bidx, o, l]}
                    try:
                        rc.apply()
                    except Exception as ex:       # noqa
                        br.failures.append({"clause": "C01/apply-does-not-raise(overlapping-blocks)", "witness": desc, "detail": "%s: %s" % (type(ex).__name__, str(ex)[:100])})
                        continue
                    (sect,) = [s for s in m.sections if s.name == ".text"]
                    got = b"".join(bytes(i.contents) for i in sorted(sect.byte_intervals, key=lambda i: i.address))
                    p = bo + o
                    want = data[:p] + (b"\x90" if op in ("ins", "rep") else b"") + data[p + l:]
                    if got != want:
                        br.failures.append({"clause": "C01/bytes-are-the-listing-edit(overlapping-blocks)", "witness": desc, "detail": "section bytes %s expected %s" % (got.hex(), want.hex())})
                    if len(br.samples) < 2:
                        br.samples.append(desc)
        br.nontrivial = len(distinct)
        return br
    return run


def jobs(tier="quick", seed=0):
    yield from kernels.jobs_for("C01", tier, seed)
    # "every patch appears exactly once, in registration order when several target the same offset"
    from . import c07
    for j in c07.jobs(tier, seed):
        if j.id in ("C07/resolve_offsets", "C07/store", "C07/apply-bounded"):
            j.id = "C01/" + j.id
            yield j
    yield apply_bounded.job("C01", tier, seed)
    yield Job("C01/overlapping-blocks-bounded", overlapping_blocks(tier, seed), kind="B", func="gtirb_rewriting.rewriting:RewritingContext.apply + prepare:prepare_for_rewriting")
