"""C14 (continued) -- expression operands and instruction streams: loops over unbounded sequences.

Functions under contract (real source):
  dwarf.cfi:_ExprEncoder.encode   ensures result == ULEB(len E) ++ E,  E = concat(op.encode(bo, ps) for op in value)
  dwarf.cfi:_ExprEncoder.decode   requires reader at  ULEB(len E) ++ E ++ rest ; ensures (value, len(ULEB ++ E)), exact consumption
                                  loop #0 invariant: exists k <= N: reader after k operations, op_bytes_read == PREFIX(k),
                                  ops == value[:k]
  dwarf.cfi:parse_cfi_instructions  requires value == concat(i.encode(bo, ps) for i in insts) ; yields exactly insts, in order
                                  loop #0 invariant: offset == PREFIX(k), reader after k instructions, k instructions yielded
Operations / instructions are *abstract* here: their encode/decode behaviour is the contract proved per class in
contracts/c14.py (modular verification: callee contract, not callee body).
Lemma prefix-monotone (partial sums of lengths >= 1 are strictly monotone) is proved by induction: base and step
are z3 obligations of job C14/lemma/prefix-monotone.
"""
import z3

import leb128
from gtirb_rewriting.dwarf import _encodable, _encoders, cfi, expr

from pyvc import absseq, core, instrument, shims
from pyvc.absseq import PREFIX, AbsSeq, PrefixMarker, monotone_lemma, represents
from pyvc.core import Unsupported
from pyvc.run import Job
from pyvc.sym import SymBytes, SymInt, SymReader, mk_int, zint

from . import dep_leb128

MODULES = [_encodable, _encoders, cfi, expr, leb128]


def _seq_of_reader(rd):
    ch = rd.at_chunk() if isinstance(rd, SymReader) else None
    if ch is not None and ch.kind == "enc" and ch.tag[0] == "seq":
        return ch.tag[1]
    return None


class ExprDecodeLoop(instrument.LoopSpec):
    local_names = ("op", "op_read")
    mutates = ("ops",)

    def __init__(self, ctx, iterable, env):
        super().__init__(ctx, iterable, env)
        self.rd = env.get("io")
        self.seq = _seq_of_reader(self.rd)
        self.not_applicable = self.seq is None

    def establish(self, env):
        c, seq = self.ctx, self.seq
        self.c0 = self.rd.consumed
        c.prove("decode-loop/established", z3.And(zint(env["op_bytes_read"]) == 0, z3.BoolVal(env["ops"] == []),
                                                   zint(env["length"]) == seq.prefix(seq.n)))

    def havoc(self, env):
        c, seq = self.ctx, self.seq
        k = c.int("k_dec", inp=False)
        c.assume(z3.And(0 <= k, k <= zint(seq.n)))
        self.k = k
        self.rd.seqpos = SymInt(k)
        self.rd.consumed = mk_int(zint(self.c0) + seq.prefix(k))
        env["ops"][:] = [PrefixMarker(seq, SymInt(k))]
        monotone_lemma(c, seq, SymInt(k), seq.n)
        return {"op_bytes_read": mk_int(seq.prefix(k))}

    def preserved(self, env):
        c, seq, k = self.ctx, self.seq, self.k
        c.prove("decode-loop/preserved/in-bounds", k + 1 <= zint(seq.n))
        c.prove("decode-loop/preserved/bytes-read", zint(env["op_bytes_read"]) == seq.prefix(k + 1))
        c.prove("decode-loop/preserved/ops", represents(env["ops"], seq, SymInt(k + 1)))
        c.prove("decode-loop/preserved/reader", z3.And(zint(self.rd.seqpos) == k + 1,
                                                        zint(self.rd.consumed) == zint(self.c0) + seq.prefix(k + 1)))


class ParseLoop(instrument.LoopSpec):
    local_names = ("inst", "read")

    def __init__(self, ctx, iterable, env):
        super().__init__(ctx, iterable, env)
        self.rd = env.get("reader")
        self.seq = _seq_of_reader(self.rd)
        self.not_applicable = self.seq is None

    def establish(self, env):
        self.ctx.prove("parse-loop/established", zint(env["offset"]) == 0)

    def havoc(self, env):
        c, seq = self.ctx, self.seq
        k = c.int("k_parse", inp=False)
        c.assume(z3.And(0 <= k, k <= zint(seq.n)))
        self.k = k
        c.ghost["parse_k"] = k
        self.rd.seqpos = SymInt(k)
        self.rd.consumed = mk_int(seq.prefix(k))
        monotone_lemma(c, seq, SymInt(k), seq.n)
        return {"offset": mk_int(seq.prefix(k))}

    def preserved(self, env):
        c, seq, k = self.ctx, self.seq, self.k
        c.prove("parse-loop/preserved/in-bounds", k + 1 <= zint(seq.n))
        c.prove("parse-loop/preserved/offset", zint(env["offset"]) == seq.prefix(k + 1))
        c.prove("parse-loop/preserved/reader", zint(self.rd.seqpos) == k + 1)
        c.prove("parse-loop/preserved/yielded-one", z3.BoolVal(c.ghost.get("yields_this_iteration") == 1))


class setup:
    def __init__(self, which):
        self.which = which

    def __enter__(self):
        self.cms = [shims.installed(MODULES), dep_leb128.stubs()]
        specs = {
            "cfi:_ExprEncoder.encode": (cfi._ExprEncoder.encode, {}, False),
            "cfi:_ExprEncoder.decode": (cfi._ExprEncoder.decode, {0: ExprDecodeLoop}, False),
            "cfi:parse_cfi_instructions": (cfi.parse_cfi_instructions, {0: ParseLoop}, False),
        }
        self.cms.append(instrument.instrumented(specs))
        for cm in self.cms:
            cm.__enter__()
        self.real = _encodable._OpcodeEncodable.__dict__["decode"]
        _encodable._OpcodeEncodable.decode = classmethod(absseq.decode_stub_factory(self.real.__func__))
        return self

    def __exit__(self, *e):
        _encodable._OpcodeEncodable.decode = self.real
        for cm in reversed(self.cms):
            cm.__exit__(*e)
        return False


def expr_harness(bo, ps):
    def harness(ctx):
        seq = AbsSeq(ctx, "ops")
        encd = cfi._ExprEncoder()
        enc = SymBytes.of(encd.encode(seq, bo, ps))
        N = zint(seq.n)
        ch = enc.chunks
        if len(ch) == 2 and ch[0].kind == "enc" and ch[0].tag[0] == "uleb" and ch[1].kind == "enc" and ch[1].tag[0] == "seq":
            ctx.cover("nonempty")
            ctx.prove("encode/STD/length-prefix-is-ULEB-of-byte-length", zint(ch[0].tag[1]) == seq.prefix(N))
            ctx.prove("encode/STD/body-is-concatenation-in-order", z3.And(z3.BoolVal(ch[1].tag[1] is seq), zint(ch[1].tag[2]) == 0, zint(ch[1].tag[3]) == N))
        elif enc.elems is not None:
            ctx.cover("empty")
            ctx.prove("encode/STD/empty-expression", z3.And(N == 0, z3.BoolVal(len(enc.elems) == 1), zint(enc.elems[0]) == 0 if enc.elems else z3.BoolVal(False)))
        else:
            ctx.fail("encode/STD/shape", "unexpected rope %r" % (enc,))
            return
        ctx.prove("encode/operations-encoded-with-callers-byteorder-and-ptr-size",
                  z3.BoolVal(all(x == (bo, ps) for x in seq.encode_calls)))
        tail = SymBytes.sym(SymInt(ctx.int("tail_len")), ctx.array("tail"))
        ctx.assume(tail.zlen() >= 0)
        rd = SymReader(enc.concat(tail))
        try:
            ops, nread = encd.decode(rd, bo, ps)
        except Exception as e:
            if isinstance(e, (Unsupported, core.PathEnd, core.PathInfeasible, core.EngineError)):
                raise
            ctx.fail("decode/RT/does-not-raise", "raised %s: %s" % (type(e).__name__, str(e)[:80]))
            return
        ctx.cover("decoded")
        ctx.prove("decode/RT/same-operations-in-order", represents(ops, seq, seq.n) if not (N is None) else False)
        ctx.prove("decode/RT/reports-exact-length", zint(nread) == enc.zlen())
        ctx.prove("decode/RT/consumes-exactly-its-bytes", zint(rd.consumed) == enc.zlen())
    return harness


def parse_harness(bo, ps):
    def harness(ctx):
        seq = AbsSeq(ctx, "insts", "inst")
        value = seq.chunk_bytes(0, seq.n)
        got = 0
        gen = cfi.parse_cfi_instructions(value, bo, ps)
        ctx.ghost["yields_this_iteration"] = 0
        try:
            for inst in gen:
                k = ctx.ghost.get("parse_k")
                ctx.ghost["yields_this_iteration"] += 1
                got += 1
                ctx.prove("parse/yields-the-kth-instruction-at-step-k",
                          inst.same(seq.item(SymInt(k))) if isinstance(inst, absseq.AbsItem) and k is not None else z3.BoolVal(False))
        except core.PathEnd:
            ctx.cover("iteration")
            raise
        except Exception as e:
            if isinstance(e, (Unsupported, core.PathInfeasible, core.EngineError)):
                raise
            ctx.fail("parse/does-not-raise", "raised %s: %s" % (type(e).__name__, str(e)[:80]))
            return
        # generator exhausted: with the invariant, exactly N instructions have been produced
        k = ctx.ghost.get("parse_k")
        ctx.cover("exhausted")
        ctx.prove("parse/stops-exactly-after-the-last-instruction", (k == zint(seq.n)) if k is not None else zint(seq.n) == 0)
    return harness


def lemma_harness(ctx):
    """prefix-monotone by induction on m:  L(m) := forall k >= 0. PREFIX(k+m) - PREFIX(k) >= m,  items >= 1"""
    s = ctx.int("s", inp=False)
    k = ctx.int("k")
    m = ctx.int("m")
    j = z3.Int("j")
    ctx.assume(z3.ForAll([j], absseq.ITEMLEN(s, j) >= 1))
    ctx.assume(z3.And(k >= 0, m >= 0))
    ctx.prove("lemma/base", PREFIX(s, k + 0) - PREFIX(s, k) >= 0)
    ctx.assume(PREFIX(s, k + m) - PREFIX(s, k) >= m)          # induction hypothesis L(m) at k
    ctx.prove("lemma/step", PREFIX(s, k + m + 1) - PREFIX(s, k) >= m + 1)


def jobs(tier="quick", seed=0):
    yield Job("C14/lemma/prefix-monotone", lemma_harness, kind="D", func="spec:prefix_len (lemma)")
    for bo in ("little", "big"):
        for ps in (4, 8):
            yield Job("C14/exprenc/%s/%d" % (bo, ps), expr_harness(bo, ps), setup=lambda: setup("expr"), kind="D", replay=replay_expr(bo, ps),
                      func="gtirb_rewriting.dwarf.cfi:_ExprEncoder.encode/decode",
                      expect_cover=("nonempty", "empty", "decoded", "loop-preserved:cfi:_ExprEncoder.decode#0", "loop-exit:cfi:_ExprEncoder.decode#0"))
            yield Job("C14/parse_cfi/%s/%d" % (bo, ps), parse_harness(bo, ps), setup=lambda: setup("parse"), kind="D", replay=replay_parse(bo, ps),
                      func="gtirb_rewriting.dwarf.cfi:parse_cfi_instructions",
                      expect_cover=("exhausted", "iteration", "loop-preserved:cfi:parse_cfi_instructions#0"))


# ---------------------------------------------------------------- native replays
_OPS = None


def _pool():
    # (OpAddr: the one operation whose size depends on the pointer size of the target)
    return [expr.OpDup(), expr.OpLit(5), expr.OpConst2S(-2), expr.OpBReg(3, -9), expr.OpConstU(300), expr.OpConst8U(2 ** 40), expr.OpAddr(0x1234), expr.OpAddr(0)]


def _ipool():
    return [cfi.InstNop(), cfi.InstDefCFA(7, 8), cfi.InstOffset(3, 2), cfi.InstRestore(5), cfi.InstRememberState(),
            cfi.InstDefCFAExpression([expr.OpBReg(7, 8), expr.OpLit(3)]), cfi.InstValOffsetSF(300, -70000),
            cfi.InstValExpression(3, [expr.OpAddr(0x1000), expr.OpDeref()]), cfi.InstDefCFAExpression([expr.OpAddr(0x20)])]


def _lens(model, prefix):
    k = [x for x in model if x.startswith(prefix)]
    n = model[k[0]] if k else 1
    # ... and lengths whose encoding needs a TWO-byte ULEB128 length prefix (>= 128 bytes)
    return sorted({max(0, min(n, 50)), 0, 1, 2, 3, 127, 128, 130, 200})


def replay_expr(bo, ps):
    def rp(clause, model):
        import io
        from spec import dwarf_std
        encd = cfi._ExprEncoder()
        for n in _lens(model, "ops_len!"):
            ops = [_pool()[i % len(_pool())] for i in range(n)] if n < 100 else [expr.OpDup()] * n       # n >= 100: n single-byte operations
            for tail in (b"", b"\x12", b"\x08\x01\x00"):
                try:
                    enc = bytes(encd.encode(ops, bo, ps))
                    body = b"".join(bytes(o.encode(bo, ps)) for o in ops)
                    want = bytes(dwarf_std.uleb(len(body))) + body
                    if enc != want:
                        return {"confirmed": True, "ops": repr(ops), "observed": enc.hex(), "expected": want.hex()}
                    got, nread = encd.decode(io.BytesIO(enc + tail), bo, ps)
                    if got != ops or nread != len(enc):
                        return {"confirmed": True, "ops": repr(ops), "tail": tail.hex(), "observed": "%r, %d" % (got, nread), "expected": "%r, %d" % (ops, len(enc))}
                except Exception as e:
                    return {"confirmed": True, "ops": repr(ops), "tail": tail.hex(), "observed": "raised %s: %s" % (type(e).__name__, e)}
        return {"confirmed": False, "observed": "native runs satisfy the contract"}
    return rp


def _edge_pool():
    """instructions whose encodings begin / end with bytes that could be mistaken for something else (zero operands, zero
    high bytes of fixed-width operands, empty expression blocks, nops in between)"""
    return [cfi.InstNop(), cfi.InstDefCFAOffset(0), cfi.InstDefCFA(0, 0), cfi.InstOffset(0, 0), cfi.InstRestore(0), cfi.InstRestore(63),
            cfi.InstDefCFAExpression([]), cfi.InstDefCFAExpression([expr.OpBReg(7, 0)]), cfi.InstValExpression(3, [expr.OpConst4S(200)]),
            cfi.InstExpression(0, [expr.OpConst8U(1)]), cfi.InstRegister(0, 0), cfi.InstUndefined(0), cfi.InstDefCFAOffsetSF(0), cfi.InstRememberState()]


def replay_parse(bo, ps):
    def rp(clause, model):
        import itertools
        cands = []
        for n in _lens(model, "insts_len!"):
            cands.append([_ipool()[i % len(_ipool())] for i in range(n)])
        ep = _edge_pool()
        for n in (1, 2):
            cands.extend(list(c) for c in itertools.product(ep, repeat=n))
        cands.extend([a, cfi.InstNop(), b] for a in ep for b in ep[:4])
        for insts in cands:
            value = b"".join(bytes(i.encode(bo, ps)) for i in insts)
            try:
                got = list(cfi.parse_cfi_instructions(value, bo, ps))
            except Exception as e:
                return {"confirmed": True, "insts": repr(insts), "bytes": value.hex(), "observed": "raised %s: %s" % (type(e).__name__, e)}
            if got != insts:
                return {"confirmed": True, "insts": repr(insts), "bytes": value.hex(), "observed": repr(got)}
        return {"confirmed": False, "observed": "native runs satisfy the contract"}
    return rp
