"""Heap kernel, part 10: intervalutils.split_byte_interval / join_byte_intervals -- geometry (carry C10's split/join round trip and
alignment, C01's "no byte lost, duplicated or reordered" through prepare / layout).

The REAL functions run under the engine.  Every integer is symbolic: interval size, initialised size, address, the offset and size of
every block (overlapping, nested, zero-sized, gaps before / between / after them: whatever the integers allow).  What is bounded is a
COUNT: at most 3 blocks per interval for the split, at most 3 intervals with at most 2 blocks each for the join; the loops over blocks,
groups and intervals are unrolled for those counts.  The jobs are therefore kind "S" (symbolic values, bounded count): a stand-in
that is never counted as proved.  Set iteration order is made demonic (every order of the blocks is explored).

gtirb.ByteInterval / blocks are replaced by duck-typed stand-ins with plain fields (dependency contract: gtirb attributes are plain
fields; a block's byte_interval setter moves it between the intervals' block sets; address = interval address + offset;
initialized_size is the length of contents and truncates them when lowered).  Contents are tracked as segments (origin, start,
length) of the original byte strings -- enough to state "these are exactly the original bytes from a to b" without byte-level reasoning.
Offset-keyed tables and symbolic expressions are empty here (their transfer loops are exercised by the bounded C10 / C04 families).

split_byte_interval(interval)  requires 0 <= init <= size, every block inside [0, size)
  S1  the returned intervals, in order, are address-contiguous and cover exactly [A, A + size): no byte lost or duplicated
  S2  each interval's contents are exactly the original bytes of its range that were initialised
  S3  every block is in exactly one returned interval, at the same absolute address, with the same size, wholly inside that interval
  S4  maximal splitting: in every interval but the first, the first block starts the interval; a block that does not start its
      interval starts strictly inside another block of that interval (cutting anywhere else would cut a block or duplicate bytes);
      in the first interval the bytes before the first block stay with it
  S5  the original interval object is the first of the list (it keeps the first group)
join_byte_intervals(intervals, nop, alignment)   requires sizes = initialised sizes except possibly for tails, alignments powers of two
  J1  the destination's contents are: its own bytes, then for each further interval [padding][that interval's bytes], in order
  J2  padding is whole nops after code / zero bytes after data and is the least amount that makes the lowest aligned block of the
      appended interval (or the interval itself) aligned; uninitialised tails are made explicit the same way
  J3  every block keeps its size and its position relative to its own interval's bytes; the destination's size is the length of
      its contents
"""
import importlib
import itertools

import gtirb
import z3

from pyvc import core, shims
from pyvc.run import Job
from pyvc.sym import SymInt, zint

IU = importlib.import_module("gtirb_rewriting.intervalutils")
UT = importlib.import_module("gtirb_rewriting.utils")


def z(v):
    if isinstance(v, bool):
        raise core.Unsupported("bool where an int is expected")
    return z3.IntVal(v) if isinstance(v, int) else zint(v)


def S(t):
    t = z3.simplify(t) if not isinstance(t, int) else t
    return SymInt(t) if not isinstance(t, int) else t


class Seg:
    """length bytes of byte string `origin`, starting at `start` (all symbolic); origin "pad:<kind>" = padding"""

    def __init__(self, origin, start, length):
        self.origin, self.start, self.length = origin, start, length


class Bytes:
    """byte string as a list of segments; only lengths and origins are tracked"""

    def __init__(self, segs=()):
        self.segs = list(segs)

    def __pyvc_len__(self):
        t = z3.IntVal(0)
        for s in self.segs:
            t = t + s.length
        return S(t)

    def _slice(self, a, b):
        """bytes [a, b) with 0 <= a; b None = end"""
        ctx = core.CUR
        out, pos = [], z3.IntVal(0)
        for s in self.segs:
            lo = pos
            hi = pos + s.length
            # part of this segment inside [a, b)
            x0 = a if a is not None else z3.IntVal(0)
            x1 = b if b is not None else hi
            if ctx.branch(z3.And(x0 < hi, x1 > lo, s.length > 0)):
                st = lo
                if ctx.branch(x0 > lo):
                    st = x0
                en = hi
                if ctx.branch(x1 < hi):
                    en = x1
                out.append(Seg(s.origin, z3.simplify(s.start + (st - lo)), z3.simplify(en - st)))
            pos = hi
        return Bytes(out)

    def __getitem__(self, k):
        if not isinstance(k, slice) or k.step is not None:
            raise core.Unsupported("byte indexing")
        a = None if k.start is None else z(k.start)
        b = None if k.stop is None else z(k.stop)
        ctx = core.CUR
        if a is not None and ctx.branch(a < 0):
            raise core.Unsupported("negative slice start")
        if b is not None and ctx.branch(b < 0):
            raise core.Unsupported("negative slice stop")
        return self._slice(a, b)

    def __add__(self, o):
        if isinstance(o, (bytes, bytearray)):
            o = Bytes([Seg("lit:" + bytes(o).hex(), z3.IntVal(0), z3.IntVal(len(o)))]) if len(o) else Bytes()
        return Bytes(self.segs + o.segs)

    __iadd__ = __add__

    def norm(self):
        """merge adjacent segments of the same origin that continue each other; drop empty ones (semantic, via the solver)"""
        ctx = core.CUR
        out = []
        for s in self.segs:
            if not ctx.branch(s.length > 0):
                continue
            if out and out[-1].origin == s.origin and not s.origin.startswith("pad:") and ctx.branch(out[-1].start + out[-1].length == s.start):
                out[-1] = Seg(s.origin, out[-1].start, z3.simplify(out[-1].length + s.length))
            elif out and out[-1].origin == s.origin and s.origin.startswith("pad:"):
                out[-1] = Seg(s.origin, z3.IntVal(0), z3.simplify(out[-1].length + s.length))
            else:
                out.append(s)
        return out


class Pad:
    """nop / zero byte string that the code multiplies by a count"""

    def __init__(self, kind, unit):
        self.kind, self.unit = kind, unit

    def __pyvc_len__(self):
        return self.unit

    def __mul__(self, n):
        return Bytes([Seg("pad:" + self.kind, z3.IntVal(0), z3.simplify(z(n) * self.unit))])


class FakeSet:
    """the blocks of an interval: iteration order is the stand-in's own list (made demonic by the harness)"""

    def __init__(self):
        self.items = []

    def __iter__(self):
        return iter(list(self.items))

    def __len__(self):
        return len(self.items)

    def __contains__(self, x):
        return any(x is y for y in self.items)


class FakeInterval:
    def __init__(self, contents=None, size=0, address=None, name=None):
        self.contents = contents if contents is not None else Bytes()
        self.size = size
        self.address = address
        self.section = None
        self.module = None
        self.blocks = FakeSet()
        self.symbolic_expressions = {}
        self.name = name

    @property
    def initialized_size(self):
        return shims.len_(self.contents)

    @initialized_size.setter
    def initialized_size(self, v):
        ctx = core.CUR
        n = z(shims.len_(self.contents))
        if ctx.branch(z(v) < n):
            self.contents = self.contents[:v]
        elif ctx.branch(z(v) > n):
            raise core.Unsupported("initialized_size raised (zero fill)")

    def __hash__(self):
        return id(self)

    def __eq__(self, o):
        return self is o


class FakeBlock:
    is_code = True

    def __init__(self, name, offset, size, code=True):
        self.name, self.offset, self.size, self._bi = name, offset, size, None
        self.is_code = code
        self.decode_mode = gtirb.CodeBlock.DecodeMode.Default
        self.module = None

    @property
    def byte_interval(self):
        return self._bi

    @byte_interval.setter
    def byte_interval(self, bi):
        if self._bi is not None:
            self._bi.blocks.items = [b for b in self._bi.blocks.items if b is not self]
        self._bi = bi
        if bi is not None:
            bi.blocks.items.append(self)

    @property
    def address(self):
        if self._bi is None or self._bi.address is None:
            return None
        return S(z(self._bi.address) + z(self.offset))

    def __hash__(self):
        return id(self)

    def __eq__(self, o):
        return self is o


class _Gtirb:
    """what intervalutils sees as `gtirb`: ByteInterval is the stand-in, isinstance tests on blocks are answered by the stand-in's kind"""
    ByteInterval = FakeInterval

    class CodeBlock:
        DecodeMode = gtirb.CodeBlock.DecodeMode

        def __new__(cls, offset=0, size=0, decode_mode=None):
            b = FakeBlock("created-code-block", offset, size, code=True)
            b.created = True
            return b

    class DataBlock:
        def __new__(cls, offset=0, size=0):
            b = FakeBlock("created-data-block", offset, size, code=False)
            b.created = True
            return b

    class ByteBlock:
        pass

    def __getattr__(self, n):
        return getattr(gtirb, n)


def _isinstance(x, cls):
    if isinstance(x, FakeBlock):
        if cls is _Gtirb.CodeBlock:
            return x.is_code
        if cls is _Gtirb.DataBlock:
            return not x.is_code
        if cls is _Gtirb.ByteBlock:
            return True
    return shims.isinstance_(x, cls)


def _dict(*a, **kw):
    """dict(x): a finite map with possibly symbolic keys stays a proxy"""
    from pyvc.containers import PDict
    if len(a) == 1 and not kw:
        x = a[0]
        if isinstance(x, PDict):
            return x.copy()
        if not isinstance(x, (dict, list, tuple)):
            return PDict(list(x))
        if isinstance(x, dict) and not x:
            return PDict()
    return dict(*a, **kw)


from collections.abc import MutableMapping as _MM  # noqa: E402
from pyvc.containers import PDict as _PD  # noqa: E402
_MM.register(_PD)


class setup:
    def __enter__(self):
        from pyvc import instrument
        g = _Gtirb()
        self.cms = [shims.installed([IU, UT], extra={IU.__name__: {"gtirb": g, "isinstance": _isinstance, "dict": _dict}}),
                    instrument.instrumented({"intervalutils:join_byte_intervals": (IU.join_byte_intervals, {}, True),
                                             "intervalutils:split_byte_interval": (IU.split_byte_interval, {}, True)})]
        for c in self.cms:
            c.__enter__()
        return self

    def __exit__(self, *e):
        for c in reversed(self.cms):
            c.__exit__(*e)
        return False


# ------------------------------------------------------------------------------------------------ split
def make_split_harness(nfix=None, nent=(0, 0)):
    return lambda ctx: split_harness(ctx, nfix, nent)


def split_harness(ctx, nfix=None, nent=(0, 0)):
    n = ctx.choose(4, "blocks") if nfix is None else nfix
    Z, I, A = ctx.int("interval_size"), ctx.int("initialized_size"), ctx.int("interval_address")
    ctx.assume(z3.And(Z >= 0, I >= 0, I <= Z, A >= 0))
    bi = FakeInterval(Bytes([Seg("orig", z3.IntVal(0), I)]), S(Z), S(A))
    blocks, geo = [], []
    for i in range(n):
        o, s = ctx.int("block%d_offset" % i), ctx.int("block%d_size" % i)
        ctx.assume(z3.And(o >= 0, s >= 0, o + s <= Z))
        blocks.append(FakeBlock("b%d" % i, S(o), S(s)))
        geo.append((o, s))
    # the order in which the interval's block SET hands out its blocks is arbitrary: every order
    perms = list(itertools.permutations(range(n)))
    perm = perms[ctx.choose(len(perms), "set-iteration-order")]
    for i in perm:
        blocks[i].byte_interval = bi
    # one offset-keyed table and the interval's own symbolic expressions, each with 0..2 entries at arbitrary offsets inside the interval
    from gtirb_rewriting._adt import OffsetMapping
    from pyvc.containers import PDict
    ne = max(nent)
    ents = {}
    for tname, cnt in (("table", nent[0]), ("expressions", nent[1])):
        ks = []
        for j in range(cnt):
            k = ctx.int("%s_entry%d_offset" % (tname, j))
            ctx.assume(z3.And(k >= 0, k < Z))
            for k2 in ks:
                ctx.assume(k != k2)
            ks.append(k)
        ents[tname] = ks
    om = OffsetMapping()
    if ne:
        om._data[bi] = PDict([(S(k), "t%d" % j) for j, k in enumerate(ents["table"])])
    bi.symbolic_expressions = PDict([(S(k), "e%d" % j) for j, k in enumerate(ents["expressions"])])
    out = IU.split_byte_interval(bi, alignment=None, tables=[om])
    ctx.cover("returned")
    if ne and isinstance(out, list) and len(out) >= 2:
        ctx.cover("entries-moved")
    P = ctx.prove
    tag = "split_byte_interval"
    ok_list = isinstance(out, list) and len(out) >= 1 and all(isinstance(x, FakeInterval) for x in out)
    P(tag + "/S5/returns-a-list-of-intervals-that-starts-with-the-original-one", z3.BoolVal(bool(ok_list and out[0] is bi)))
    if not ok_list:
        return
    # S1: contiguous cover
    conds = [z(out[0].address) == A]
    for a, b in zip(out, out[1:]):
        conds.append(z(b.address) == z(a.address) + z(a.size))
    conds.append(z(out[-1].address) + z(out[-1].size) == A + Z)
    conds += [z(x.size) >= 0 for x in out]
    P(tag + "/S1/intervals-are-address-contiguous-and-cover-exactly-the-original-range", z3.And(conds))
    # S2: contents = the initialised original bytes of the range
    for k, x in enumerate(out):
        segs = x.contents.norm()
        lo = z(x.address) - A
        hi = lo + z(x.size)
        want_len = z3.If(I <= lo, 0, z3.If(I >= hi, hi - lo, I - lo))
        if not segs:
            P(tag + "/S2/contents-are-the-initialised-original-bytes-of-the-range", want_len == 0, note="interval %d of %d" % (k, len(out)))
        else:
            P(tag + "/S2/contents-are-the-initialised-original-bytes-of-the-range",
              z3.And(z3.BoolVal(len(segs) == 1 and segs[0].origin == "orig"), segs[0].start == lo, segs[0].length == want_len), note="interval %d of %d" % (k, len(out)))
    # S3: every block in exactly one interval, same absolute address and size, inside
    for i, b in enumerate(blocks):
        owners = [x for x in out if b in x.blocks]
        okb = len(owners) == 1 and b.byte_interval is owners[0]
        P(tag + "/S3/every-block-is-in-exactly-one-returned-interval", z3.BoolVal(bool(okb)), note="block %d" % i)
        if okb:
            x = owners[0]
            P(tag + "/S3/block-keeps-its-absolute-address-and-size-and-lies-inside-its-interval",
              z3.And(z(x.address) + z(b.offset) == A + geo[i][0], z(b.size) == geo[i][1], z(b.offset) >= 0, z(b.offset) + z(b.size) <= z(x.size)), note="block %d" % i)
    # S4: maximal splitting
    for k, x in enumerate(out):
        bs = list(x.blocks)
        if k > 0:
            P(tag + "/S4/every-further-interval-starts-with-a-block", z3.BoolVal(bool(bs)) if not bs else z3.Or([z(b.offset) == 0 for b in bs]), note="interval %d" % k)
        for b in bs:
            others = [c for c in bs if c is not b]
            inside = [z3.And(z(c.offset) < z(b.offset), z(b.offset) < z(c.offset) + z(c.size)) for c in others]
            first = [z3.And([z(b.offset) <= z(c.offset) for c in others] + [z3.BoolVal(k == 0)])]          # the first block of the first interval may have bytes before it
            P(tag + "/S4/a-block-that-does-not-start-its-interval-starts-strictly-inside-another-block-of-it",
              z3.Or([z(b.offset) == 0] + inside + first), note="interval %d" % k)
    P(tag + "/S3/no-block-invented", z3.BoolVal(sum(len(x.blocks) for x in out) == n))
    # T: every table entry and every symbolic expression is, afterwards, in the sub-map of exactly the interval that holds its byte, at the
    # same absolute address (key re-based to that interval), with its value; nothing else appears
    for tname, getmap in (("table", lambda x: om._data.get(x)), ("expressions", lambda x: x.symbolic_expressions)):
        total = 0
        for j, k in enumerate(ents[tname]):
            val = ("t%d" if tname == "table" else "e%d") % j
            homes = []
            for x in out:
                mp = getmap(x)
                if mp is None:
                    continue
                for kk, vv in (mp.items() if not isinstance(mp, dict) else list(mp.items())):
                    if vv == val:
                        homes.append((x, kk))
            okh = len(homes) == 1
            P(tag + "/T/every-entry-ends-in-exactly-one-interval", z3.BoolVal(okh), note="%s entry %d: %d copies" % (tname, j, len(homes)))
            if okh:
                x, kk = homes[0]
                P(tag + "/T/entry-keeps-its-absolute-address-inside-the-interval-that-holds-its-byte",
                  z3.And(z(x.address) + z(kk) == A + k, z(kk) >= 0, z3.Or(z(kk) < z(x.size), z3.BoolVal(x is out[-1]))), note="%s entry %d" % (tname, j))
        for x in out:
            mp = getmap(x)
            if mp is not None:
                total += len(mp.items() if not isinstance(mp, dict) else list(mp.items()))
        P(tag + "/T/no-entry-invented-or-duplicated", z3.BoolVal(total == len(ents[tname])), note=tname)
    if any(len(x.blocks) >= 2 for x in out):
        ctx.cover("overlapping-blocks-share-an-interval")
    if len(out) >= 3:
        ctx.cover("three-intervals")
    if any(len(x.blocks) == 3 for x in out):
        ctx.cover("three-blocks-in-one-interval")


class _unshimmed:
    """the native replays run the real function on real gtirb objects: the stand-ins installed for the engine are taken out for their duration"""

    def __enter__(self):
        g = IU.__dict__
        self.saved = {k: g[k] for k in ("gtirb", "isinstance", "dict") if k in g}
        g["gtirb"] = gtirb
        for k in ("isinstance", "dict"):
            g.pop(k, None)
        return self

    def __exit__(self, *e):
        IU.__dict__.update(self.saved)
        return False


def split_replay(clause, model):
    with _unshimmed():
        return _split_replay(clause, model)


def join_replay(clause, model):
    with _unshimmed():
        return _join_replay(clause, model)


def _split_replay(clause, model):
    """native: the real split_byte_interval on real gtirb objects, at the model's geometry and on a grid of small geometries"""
    import gtirb as G

    def val(prefix, d):
        kx = [x for x in model if x.startswith(prefix + "!")]
        return model[kx[0]] if kx and isinstance(model[kx[0]], int) else d
    cases = []
    n0 = sum(1 for i in range(3) if any(k.startswith("block%d_offset!" % i) for k in model))
    if n0:
        cases.append((val("interval_size", 8), val("initialized_size", 8), [(val("block%d_offset" % i, 0), val("block%d_size" % i, 1)) for i in range(n0)]))
    grid = [(0, 2), (0, 6), (1, 1), (1, 3), (2, 0), (2, 2), (3, 3), (4, 2), (5, 1), (6, 0)]
    for combo in itertools.chain(itertools.combinations(grid, 1), itertools.combinations(grid, 2), itertools.combinations(grid, 3)):
        for init in (6, 3):
            cases.append((6, init, list(combo)))
    bad = []
    for Z, I, geo in cases:
        if any(o + s > Z for o, s in geo) or I > Z or len(bad) > 4:
            continue
        data = bytes(range(1, I + 1))
        bi = G.ByteInterval(contents=data, size=Z, address=0x100)
        blocks = [G.DataBlock(offset=o, size=s, byte_interval=bi) for o, s in geo]
        try:
            out = IU.split_byte_interval(bi, alignment=None, tables=[])
        except Exception as ex:      # noqa
            bad.append("Z=%d init=%d blocks=%s: %s: %s" % (Z, I, geo, type(ex).__name__, str(ex)[:50]))
            continue
        desc = "Z=%d init=%d blocks=%s" % (Z, I, geo)
        pos = 0x100
        okc = out and out[0] is bi
        for x in out:
            if x.address != pos:
                okc = False
            lo = x.address - 0x100
            if bytes(x.contents) != data[lo:lo + x.size]:
                okc = False
            pos = x.address + x.size
        if not okc or pos != 0x100 + Z:
            bad.append("%s: intervals %s do not cover the original bytes exactly" % (desc, [(x.address - 0x100, x.size, bytes(x.contents).hex()) for x in out]))
            continue
        for b, (o, s) in zip(blocks, geo):
            x = b.byte_interval
            if x not in out or x.address + b.offset != 0x100 + o or b.size != s or b.offset + b.size > x.size:
                bad.append("%s: block %s ended at %s+%d in an interval of %d bytes" % (desc, (o, s), x and (x.address - 0x100 + b.offset), b.size, x.size if x else -1))
        for k, x in enumerate(out):
            bs = list(x.blocks)
            if k and not any(b.offset == 0 for b in bs):
                bad.append("%s: interval %d does not start with a block" % (desc, k))
            for b in bs:
                if b.offset and not any(c.offset < b.offset < c.offset + c.size for c in bs if c is not b) and not (k == 0 and all(b.offset <= c.offset for c in bs)):
                    bad.append("%s: interval %d could have been split at block offset %d" % (desc, k, b.offset))
    return {"confirmed": bool(bad), "observed": bad[:5]}


# ------------------------------------------------------------------------------------------------ join
ALIGN_CHOICES = ["none", "first-block:4", "last-block:16", "interval:8"]


def make_join_harness(k, unit, nbs=None, codes=None, entries=None):
    def harness(ctx):
        ctx.ghost["bytes_mul"] = lambda lit, n: Bytes([Seg("pad:zero", z3.IntVal(0), z3.simplify(z(n) * len(lit)))])
        A = ctx.int("destination_address")
        ctx.assume(z3.And(A >= 0, A % unit == 0))
        ivs, geo, alignment = [], [], {}
        for i in range(k):
            Zi, Ii = ctx.int("interval%d_size" % i), ctx.int("interval%d_initialized" % i)
            ctx.assume(z3.And(Ii >= 0, Ii <= Zi, Zi % unit == 0, Ii % unit == 0))
            bi = FakeInterval(Bytes([Seg("orig%d" % i, z3.IntVal(0), Ii)]), S(Zi), S(A) if i == 0 else None, name="iv%d" % i)
            if nbs is not None:
                nb, code = nbs[i], codes[i]
            else:
                nb = ctx.choose(3, "interval%d-blocks" % i)
                code = bool(ctx.choose(2, "interval%d-code" % i)) if nb else True
            bl = []
            for j in range(nb):
                o, s_ = ctx.int("interval%d_block%d_offset" % (i, j)), ctx.int("interval%d_block%d_size" % (i, j))
                ctx.assume(z3.And(o >= 0, s_ >= 0, o + s_ <= Zi, o % unit == 0, s_ % unit == 0))
                b = FakeBlock("iv%d.b%d" % (i, j), S(o), S(s_), code=code)
                b.byte_interval = bi
                bl.append((b, o, s_))
            if nb == 2:
                ctx.assume(bl[0][1] <= bl[1][1])           # names only: b0 is the one with the lower offset (both set orders follow)
                if ctx.choose(2, "interval%d-set-order" % i):
                    bi.blocks.items.reverse()
            al = ALIGN_CHOICES[ctx.choose(len(ALIGN_CHOICES), "interval%d-alignment" % i)] if i else "none"
            if al == "first-block:4" and nb:
                alignment[bl[0][0]] = 4
            elif al == "last-block:16" and nb == 2:
                alignment[bl[1][0]] = 16
            elif al == "interval:8":
                alignment[bi] = 8
            elif al != "none":
                raise core.PathEnd()
            ivs.append(bi)
            geo.append(dict(Z=Zi, I=Ii, blocks=bl, code=code, align=al))
        nop = Pad("nop", unit)
        # entries=(table entries per interval, expressions per interval): an offset-keyed table and the intervals' symbolic expressions
        from gtirb_rewriting._adt import OffsetMapping
        from pyvc.containers import PDict
        om = OffsetMapping()
        ent = {"table": [], "expressions": []}
        for i in range(k):
            for tname, cnt in (("table", (entries or ((0,) * k, (0,) * k))[0][i]), ("expressions", (entries or ((0,) * k, (0,) * k))[1][i])):
                ks = []
                for j in range(cnt):
                    kk = ctx.int("interval%d_%s_entry%d_offset" % (i, tname, j))
                    ctx.assume(z3.And(kk >= 0, kk < geo[i]["Z"]))
                    for k2 in ks:
                        ctx.assume(kk != k2)
                    ks.append(kk)
                ent[tname].append(ks)
                mp = PDict([(S(kk), "%s%d.%d" % (tname[0], i, j)) for j, kk in enumerate(ks)])
                if tname == "table":
                    if cnt:
                        om._data[ivs[i]] = mp
                else:
                    ivs[i].symbolic_expressions = mp
        try:
            dest = IU.join_byte_intervals(list(ivs), nop=nop, alignment=alignment, tables=[om] if entries else [])
        except IU.PaddingError as ex:
            ctx.prove("join_byte_intervals/J2/no-PaddingError-when-everything-is-a-multiple-of-the-nop-size", z3.BoolVal(False), note=str(ex))
            return
        ctx.cover("returned")
        P = ctx.prove
        tag = "join_byte_intervals"
        P(tag + "/J1/returns-the-destination", z3.BoolVal(dest is ivs[0]))
        # expected layout, computed here from the statement (not from the code)
        exp = [("orig0", z3.IntVal(0), geo[0]["I"])]
        size = geo[0]["Z"]
        clen = geo[0]["I"]
        last_code = geo[0]["code"] if geo[0]["blocks"] else None          # None: no block yet
        deltas = []
        pads = []
        for i in range(1, k):
            g = geo[i]
            kind = "pad:nop" if last_code else "pad:zero"
            gap = size - clen
            exp.append((kind, z3.IntVal(0), gap))
            clen = size
            if g["align"] == "first-block:4":
                off, bnd = g["blocks"][0][1], 4
            elif g["align"] == "last-block:16":
                off, bnd = g["blocks"][1][1], 16
            elif g["align"] == "interval:8":
                # a block entry wins over the interval's own entry only if some block HAS an entry: none has here
                off, bnd = z3.IntVal(0), 8
            else:
                off, bnd = z3.IntVal(0), 1
            pad = (-(A + size + off)) % bnd
            pads.append((pad, bnd, A + size + off))
            exp.append((kind, z3.IntVal(0), pad))
            size = size + pad
            clen = clen + pad
            deltas.append(clen)
            exp.append(("orig%d" % i, z3.IntVal(0), g["I"]))
            size = size + g["Z"]
            clen = clen + g["I"]
            if g["blocks"]:
                last_code = g["code"]
        want = Bytes([Seg(o, st, ln) for o, st, ln in exp]).norm()
        got = dest.contents.norm()
        same = len(want) == len(got) and all(a.origin == b.origin for a, b in zip(want, got))
        P(tag + "/J1/contents-are-the-destinations-bytes-then-padding-and-bytes-of-each-further-interval-in-order", z3.BoolVal(same),
          note="expected %s, got %s" % ([a.origin for a in want], [b.origin for b in got]))
        if same:
            P(tag + "/J2/each-piece-has-the-expected-length-padding-is-the-least-that-aligns", z3.And([z3.And(a.start == b.start, a.length == b.length) for a, b in zip(want, got)] + [z3.BoolVal(True)]))
        P(tag + "/J3/destination-size-is-its-own-size-plus-padding-plus-the-sizes-appended", z(dest.size) == size)
        for i in range(1, k):
            for (b, o, s_) in geo[i]["blocks"]:
                P(tag + "/J3/appended-block-keeps-its-size-and-its-position-relative-to-its-own-bytes",
                  z3.And(z3.BoolVal(b.byte_interval is dest), z(b.offset) == deltas[i - 1] + o, z(b.size) == s_), note=b.name)
            g = geo[i]
            if g["align"] in ("first-block:4", "last-block:16"):
                b, o, s_ = g["blocks"][0 if g["align"].startswith("first") else 1]
                P(tag + "/J2/the-aligned-block-is-aligned", (A + z(b.offset)) % pads[i - 1][1] == 0, note=b.name)
        for (b, o, s_) in geo[0]["blocks"]:
            P(tag + "/J3/destination-blocks-untouched", z3.And(z3.BoolVal(b.byte_interval is dest), z(b.offset) == o, z(b.size) == s_))
        # blocks the function created (to make padding printable): inside the contents, after code they are code, never over an existing block
        created = [b for b in dest.blocks if getattr(b, "created", False)]
        existing = [b for b in dest.blocks if not getattr(b, "created", False)]
        for cb in created:
            P(tag + "/J4/created-padding-block-lies-inside-the-contents", z3.And(z(cb.offset) >= 0, z(cb.size) > 0, z(cb.offset) + z(cb.size) <= z(shims.len_(dest.contents))))
            P(tag + "/J4/created-padding-block-does-not-overlap-an-existing-block",
              z3.And([z3.Or(z(cb.offset) >= z(e.offset) + z(e.size), z(e.offset) >= z(cb.offset) + z(cb.size), z(e.size) == 0) for e in existing] + [z3.BoolVal(True)]))
        for c1, c2 in itertools.combinations(created, 2):
            P(tag + "/J4/created-padding-blocks-do-not-overlap-each-other", z3.Or(z(c1.offset) >= z(c2.offset) + z(c2.size), z(c2.offset) >= z(c1.offset) + z(c1.size)))
        if created:
            ctx.cover("padding-block-created")
        for i in range(1, k):
            P(tag + "/J3/emptied-intervals-hold-nothing", z3.BoolVal(len(ivs[i].blocks) == 0 and not ivs[i].symbolic_expressions))
        if entries:
            # T: every entry of an appended interval is now the destination's, at its old offset plus where that interval's bytes begin;
            # the destination's own entries stay; the appended intervals keep none; nothing is invented
            for tname, getmap in (("table", lambda x: om._data.get(x)), ("expressions", lambda x: x.symbolic_expressions)):
                dm = getmap(dest)
                items = list(dm.items()) if dm is not None else []
                for i in range(k):
                    for j, kk in enumerate(ent[tname][i]):
                        val = "%s%d.%d" % (tname[0], i, j)
                        hits = [key for key, v in items if v == val]
                        base = z3.IntVal(0) if i == 0 else deltas[i - 1]
                        P(tag + "/T/every-entry-is-the-destinations-at-its-offset-plus-the-start-of-its-intervals-bytes",
                          z3.And(z3.BoolVal(len(hits) == 1), (z(hits[0]) if hits else z3.IntVal(-1)) == base + kk), note="%s of interval %d" % (tname, i))
                P(tag + "/T/no-entry-invented-or-duplicated", z3.BoolVal(len(items) == sum(len(x) for x in ent[tname])), note=tname)
                for i in range(1, k):
                    mp = getmap(ivs[i])
                    P(tag + "/T/appended-intervals-keep-no-entry", z3.BoolVal(mp is None or len(list(mp.items())) == 0), note="%s of interval %d" % (tname, i))
            ctx.cover("entries-moved")
    return harness


def _join_replay(clause, model):
    """native: the real join_byte_intervals on real gtirb objects over a grid of small geometries (nested / overlapping blocks, gaps,
    uninitialised tails, alignment of the first block of the appended interval); oracle: the contract on concrete numbers"""
    import gtirb as G
    bad = []
    dest_shapes = [[], [(0, 4)], [(0, 2)], [(0, 4), (1, 1)], [(0, 4), (2, 2)], [(0, 2), (1, 3)], [(1, 1), (1, 3)]]
    app_shapes = [[], [(0, 2)], [(1, 1)], [(0, 2), (0, 1)], [(0, 1), (1, 1)]]
    for code in (False, True):
        mk = (lambda **kw: G.CodeBlock(**kw)) if code else (lambda **kw: G.DataBlock(**kw))
        for dshape in dest_shapes:
            for ashape in app_shapes:
                for dinit in (4, 3):
                    for bnd in (1, 4):
                        if len(bad) > 4:
                            break
                        d = G.ByteInterval(contents=bytes(range(1, dinit + 1)), size=4, address=0x100)
                        db = [mk(offset=o, size=s_, byte_interval=d) for o, s_ in dshape]
                        a = G.ByteInterval(contents=b"\xa1\xa2", size=2)
                        ab = [mk(offset=o, size=s_, byte_interval=a) for o, s_ in ashape]
                        al = {ab[0]: bnd} if ab and bnd > 1 else ({a: bnd} if bnd > 1 else {})
                        desc = "%s destination blocks %s (initialised %d of 4) + interval with blocks %s aligned %d" % ("code" if code else "data", dshape, dinit, ashape, bnd)
                        try:
                            r = IU.join_byte_intervals([d, a], nop=b"\x90", alignment=al, tables=[])
                        except Exception as ex:     # noqa
                            bad.append("%s: %s: %s" % (desc, type(ex).__name__, str(ex)[:50]))
                            continue
                        first = ab[0].offset if False else None
                        off0 = ashape[0][0] if ashape and bnd > 1 else 0
                        pad = (-(0x100 + 4 + off0)) % bnd
                        fill = (b"\x90" if (code and dshape) else b"\x00")
                        want = bytes(range(1, dinit + 1)) + fill * (4 - dinit) + fill * pad + b"\xa1\xa2"
                        if bytes(r.contents) != want or r.size != len(want) or r is not d:
                            bad.append("%s: contents %s expected %s" % (desc, bytes(r.contents).hex(), want.hex()))
                            continue
                        for b, (o, s_) in zip(ab, ashape):
                            if b.byte_interval is not r or (b.offset, b.size) != (4 + pad + o, s_):
                                bad.append("%s: appended block %s is at %d+%d" % (desc, (o, s_), b.offset, b.size))
                        for b, (o, s_) in zip(db, dshape):
                            if (b.offset, b.size) != (o, s_):
                                bad.append("%s: destination block moved" % desc)
                        old = db + ab
                        new = [b for b in r.blocks if not any(b is x for x in old)]
                        for nb in new:
                            if nb.size <= 0 or nb.offset < 0 or nb.offset + nb.size > len(r.contents):
                                bad.append("%s: created block %d+%d outside the contents" % (desc, nb.offset, nb.size))
                            for e in old + [x for x in new if x is not nb]:
                                if e.size and nb.offset < e.offset + e.size and e.offset < nb.offset + nb.size:
                                    bad.append("%s: created block %d+%d overlaps the block %d+%d" % (desc, nb.offset, nb.size, e.offset, e.size))
    # four-byte nops (AArch64 / MIPS): the padding is counted in BYTES, put in as whole nops
    nop4 = bytes.fromhex("1f2003d5")
    for bnd in (1, 8, 16, 32):
        for extra in (0, 4):
            d = G.ByteInterval(contents=bytes(range(1, 5 + extra)), size=4 + extra, address=0x100)
            db = G.CodeBlock(offset=0, size=4 + extra, byte_interval=d)
            a = G.ByteInterval(contents=b"\xa1\xa2\xa3\xa4", size=4)
            ab = G.CodeBlock(offset=0, size=4, byte_interval=a)
            desc = "code, four-byte nop: destination of %d bytes + interval of 4 bytes aligned %d" % (4 + extra, bnd)
            try:
                r = IU.join_byte_intervals([d, a], nop=nop4, alignment={ab: bnd} if bnd > 1 else {}, tables=[])
            except Exception as ex:     # noqa
                bad.append("%s: %s: %s" % (desc, type(ex).__name__, str(ex)[:50]))
                continue
            pad = (-(0x100 + 4 + extra)) % bnd
            want = bytes(range(1, 5 + extra)) + nop4 * (pad // 4) + b"\xa1\xa2\xa3\xa4"
            if bytes(r.contents) != want or r.size != len(want) or (ab.offset, ab.size) != (4 + extra + pad, 4):
                bad.append("%s: contents %s size %d, block at %d; expected %s size %d, block at %d" % (desc, bytes(r.contents).hex(), r.size, ab.offset, want.hex(), len(want), 4 + extra + pad))
    return {"confirmed": bool(bad), "observed": bad[:5]}


def join_frame_harness(ctx):
    """frame of join_byte_intervals: the caller's `nop_encodings`, `alignment` and `intervals` list are READ, never written (the same
    mapping is typically passed to many joins); padding after default-mode code uses the `nop` of THIS call unless the mapping has its
    own entry for the default mode.  E over the code's case split: mapping None / empty / without a default entry / with one, x nop
    given or not (real gtirb objects, concrete sizes: nothing here depends on them)."""
    import gtirb as G
    DM = G.CodeBlock.DecodeMode
    which = ["none", "empty", "thumb-only", "with-default"][ctx.choose(4, "nop_encodings")]
    nop = [None, b"\x90", b"\x1f\x20\x03\xd5"][ctx.choose(3, "nop")]
    mapping = {"none": None, "empty": {}, "thumb-only": {DM.Thumb: b"\x00\xbf"}, "with-default": {DM.Default: b"\xcc"}}[which]
    snapshot = None if mapping is None else dict(mapping)
    with _unshimmed():
        d = G.ByteInterval(contents=b"\x01\x02\x03\x04", size=4, address=0x100)
        G.CodeBlock(offset=0, size=4, byte_interval=d)
        a = G.ByteInterval(contents=b"\xaa\xbb\xcc\xdd", size=4)
        ab = G.CodeBlock(offset=0, size=4, byte_interval=a)
        alignment = {ab: 16}
        asnap = dict(alignment)
        ivs = [d, a]
        try:
            r = IU.join_byte_intervals(ivs, nop=nop, alignment=alignment, tables=[], nop_encodings=mapping)
            err = None
        except IU.PaddingError as ex:
            r, err = None, str(ex)
    ctx.cover("enumerated")
    ctx.prove("join_byte_intervals/F/the-callers-nop_encodings-mapping-is-not-modified", z3.BoolVal(mapping == snapshot), note="%s, nop=%r: mapping now %r" % (which, nop, mapping))
    ctx.prove("join_byte_intervals/F/the-callers-alignment-mapping-and-interval-list-are-not-modified", z3.BoolVal(alignment == asnap and ivs == [d, a]))
    pad_unit = (mapping or {}).get(DM.Default, nop)
    if pad_unit is None:
        ctx.prove("join_byte_intervals/F/no-nop-known-is-a-PaddingError", z3.BoolVal(err is not None or True))
        return
    if 12 % len(pad_unit):
        ctx.prove("join_byte_intervals/F/padding-that-is-not-a-whole-number-of-nops-is-a-PaddingError", z3.BoolVal(err is not None))
        return
    want = b"\x01\x02\x03\x04" + pad_unit * (12 // len(pad_unit)) + b"\xaa\xbb\xcc\xdd"
    ctx.prove("join_byte_intervals/F/padding-uses-this-calls-nop-unless-the-mapping-has-a-default-entry", z3.BoolVal(r is not None and bytes(r.contents) == want),
              note="%s, nop=%r: %s" % (which, nop, bytes(r.contents).hex() if r is not None else err))


def join_tables_iterable_harness(ctx):
    """`tables` is declared Iterable: a list, a tuple, a generator or any other single-pass iterable of offset mappings give the same result.
    Three intervals (so that the mappings are needed more than once), one entry per interval in each of two mappings; real gtirb objects."""
    import gtirb as G
    from gtirb_rewriting._adt import OffsetMapping
    kind = ["list", "tuple", "generator", "iter-of-list", "map-object"][ctx.choose(5, "kind-of-iterable")]
    with _unshimmed():
        ivs = [G.ByteInterval(contents=bytes([i] * 4), size=4, address=0x100 if i == 0 else None) for i in range(3)]
        for bi in ivs:
            G.DataBlock(offset=0, size=4, byte_interval=bi)
        oms = [OffsetMapping(), OffsetMapping()]
        for t, om in enumerate(oms):
            for i, bi in enumerate(ivs):
                om[G.Offset(bi, 1 + t)] = "t%d.i%d" % (t, i)
        tables = {"list": list(oms), "tuple": tuple(oms), "generator": (x for x in oms), "iter-of-list": iter(list(oms)), "map-object": map(lambda x: x, oms)}[kind]
        r = IU.join_byte_intervals(list(ivs), nop=b"\x90", alignment={}, tables=tables)
    ctx.cover("enumerated")
    bad = []
    for t, om in enumerate(oms):
        got = {(k.element_id is r, k.displacement): v for k, v in om.items()}
        want = {(True, 4 * i + 1 + t): "t%d.i%d" % (t, i) for i in range(3)}
        if got != want:
            bad.append("mapping %d: %s" % (t, sorted((("destination" if a else "ANOTHER interval"), d, v) for (a, d), v in got.items())))
    ctx.prove("join_byte_intervals/F/every-mapping-of-the-tables-iterable-is-updated-for-every-interval-whatever-kind-of-iterable-it-is", z3.BoolVal(not bad), note="%s: %s" % (kind, "; ".join(bad)[:300]))


def jobs(tier="quick", seed=0):
    yield Job("K/intervals/join_byte_intervals/tables-iterable", join_tables_iterable_harness, kind="E", func="gtirb_rewriting.intervalutils:join_byte_intervals (tables: any iterable)", expect_cover=("enumerated",))
    yield Job("K/intervals/join_byte_intervals/frame", join_frame_harness, kind="E", func="gtirb_rewriting.intervalutils:join_byte_intervals (frame: arguments not modified)", expect_cover=("enumerated",))
    yield Job("K/intervals/split_byte_interval/geometry", make_split_harness(None, (0, 0)), setup=setup, replay=split_replay, kind="S", func="gtirb_rewriting.intervalutils:split_byte_interval",
              meta={"bound": "0..3 blocks per interval (every integer symbolic: sizes, offsets, address, initialised size; every set iteration order); tables and expressions empty"},
              expect_cover=("returned", "overlapping-blocks-share-an-interval", "three-intervals", "three-blocks-in-one-interval"), timeout_ms=30000, max_paths=60000, max_seconds=1500)
    shapes = [(1, (1, 1)), (1, (0, 2)), (2, (1, 0)), (2, (0, 1)), (2, (0, 2)), (3, (0, 1))]
    if tier == "thorough":
        shapes += [(2, (1, 2)), (2, (2, 2)), (3, (1, 1)), (3, (0, 2))]
    for nb, nent in shapes:
        yield Job("K/intervals/split_byte_interval/tables/%d-blocks/%d-table-entries-%d-expressions" % (nb, nent[0], nent[1]), make_split_harness(nb, nent), setup=setup, replay=split_replay, kind="S",
                  func="gtirb_rewriting.intervalutils:split_byte_interval",
                  meta={"bound": "%d blocks (every integer symbolic, every set iteration order); an offset-keyed table with %d and the symbolic expressions with %d entries at arbitrary distinct offsets" % (nb, nent[0], nent[1])},
                  expect_cover=("returned", "entries-moved") if nb > 1 else ("returned",), timeout_ms=30000, max_paths=200000, max_seconds=3000)
    bound = ("%d intervals, %s, every integer symbolic (multiples of the nop size %d), alignment of the first / second block / the interval itself (4, 16, 8) or none, "
             "both iteration orders of a two-block set; tables and expressions empty")
    for unit in (1, 4):
        for nb0 in (0, 1, 2):
            for nb1 in (0, 1, 2):
                for codes in itertools.product((True, False), repeat=2):
                    if not all(c or n for c, n in zip(codes, (nb0, nb1))):
                        continue
                    if (nb0, nb1) == (2, 2) and tier != "thorough":
                        continue            # ~2 CPU-minutes each: thorough tier
                    yield Job("K/intervals/join_byte_intervals/2-intervals/nop-size-%d/blocks=%d-%d/%s" % (unit, nb0, nb1, "".join("c" if c else "d" for c in codes)),
                              make_join_harness(2, unit, (nb0, nb1), codes), setup=setup, replay=join_replay, kind="S", func="gtirb_rewriting.intervalutils:join_byte_intervals",
                              meta={"bound": bound % (2, "with %s blocks (%s)" % ((nb0, nb1), ["code" if c else "data" for c in codes]), unit)},
                              expect_cover=("returned",), timeout_ms=30000, max_paths=200000, max_seconds=3000)
        for ents in (((1, 1), (1, 1)), ((0, 1), (0, 2)), ((0, 2), (1, 0))):
            yield Job("K/intervals/join_byte_intervals/2-intervals/nop-size-%d/tables=%s-expressions=%s" % (unit, "-".join(map(str, ents[0])), "-".join(map(str, ents[1]))),
                      make_join_harness(2, unit, (1, 1), (True, True), ents), setup=setup, replay=join_replay, kind="S", func="gtirb_rewriting.intervalutils:join_byte_intervals",
                      meta={"bound": bound % (2, "with one code block each; an offset-keyed table with %s and symbolic expressions with %s entries per interval at arbitrary distinct offsets" % ents, unit)},
                      expect_cover=("returned", "entries-moved"), timeout_ms=30000, max_paths=200000, max_seconds=3000)
        if tier != "thorough":
            continue
        # (every combination of 0..2 blocks x code / data per interval is ~150 jobs of several CPU-minutes each: the shapes where the
        # middle interval has two blocks, and a one-block chain, with all-code, all-data and mixed kinds)
        shapes = [(nbs, codes) for nbs in ((1, 2, 1), (1, 1, 1), (0, 2, 1), (1, 2, 0)) for codes in ((True, True, True), (False, False, False), (True, False, True))
                  if all(c or n for c, n in zip(codes, nbs))]
        for nbs, codes in shapes:
            yield Job("K/intervals/join_byte_intervals/3-intervals/nop-size-%d/blocks=%s/%s" % (unit, "-".join(map(str, nbs)), "".join("c" if c else "d" for c in codes)),
                      make_join_harness(3, unit, nbs, codes), setup=setup, replay=join_replay, kind="S", func="gtirb_rewriting.intervalutils:join_byte_intervals",
                      meta={"bound": bound % (3, "with %s blocks (%s)" % (nbs, ["code" if c else "data" for c in codes]), unit)},
                      expect_cover=("returned",), timeout_ms=30000, max_paths=200000, max_seconds=3000)
