"""Bounded stand-ins (B) at apply() level for C01-C06, C08: small-scope enumeration of modules x modifications run through
the real RewritingContext.apply(), checked by the independent listing oracle of /verif/bounded.  Labelled bounded in
evidence; never counted as proved."""
from bounded import driver, validators as VAL
from pyvc.run import Job

# the default patch vocabulary of bounded/driver.py plus a patch that calls the function it is inserted into and returns
WITH_CALLFRET = ["plain", "jmpL2", "ret", "callg", "jcc", "lab", "lab0", "jmplab", "samehead", "samehead2", "selfloop", "twocalls", "callfret"]

BOUND = ("x86-64 ELF module of 4 code blocks (target block kinds plain/jmp/ret/call/jcc) with and without function information; every "
         "single insert/replace/delete of the target block at instruction boundaries with the patch vocabulary of bounded/scen.py, whole-block "
         "deletion with retarget_to_proxy, and pairs of compatible modifications (all pairs in thorough, a seed-chosen slice of 40 per shape in quick)")

SPEC = {
    "C01": dict(vals=[VAL.c01_bytes], clauses=["C01/bytes-are-the-listing-edit", "C01/section-contiguous"],
                space=dict(gaps=(False, True), data_follows=(False, True), patches=["plain", "jmpL2", "ret", "callg", "jcc", "lab", "lab0", "jmplab", "samehead", "samehead2", "selfloop", "twocalls", "othersec"])),
    "C02": dict(vals=[VAL.c02_labels], clauses=["C02/label-designates-the-same-listing-position", "C02/patch-label-designates-its-position-in-the-patch",
                                                 "C02/no-dangling-referent", "C02/retarget_to_proxy-makes-labels-external", "C02/label-survives"], space=dict(bare=(False, True))),
    "C03": dict(vals=[VAL.c03_cfg], clauses=["C03/falls-through-to-the-physically-next-block", "C03/no-fallthrough-after-ret-or-jmp",
                                              "C03/branch-edge-leads-to-its-target-label", "C03/no-control-transfer-buried-mid-block",
                                              "C03/returns-lead-to-the-return-sites-of-the-callers", "C03/no-edge-to-a-removed-block"], space=dict(callee2=(False, True), gaps=(False, True), ftflags=(False, True), patches=WITH_CALLFRET)),
    "C04": dict(vals=[VAL.c04_annotations], clauses=["C04/annotations-travel-with-their-byte", "C04/symbolic-expressions-travel-with-their-byte",
                                                      "C04/patch-expression-at-its-offset-with-module-symbol", "C04/no-annotation-on-removed-nodes",
                                                      "C04/nothing-points-outside-its-element", "C04/no-duplicate-symbols"],
                space=dict(anns=("block", "interval", "interval-rev"), patches=["plain", "symexpr", "jmpL2", "two", "symexprimm", "symexprimm4", "symexpradd"])),
    "C05": dict(vals=[VAL.c05_closed], clauses=["C05/cfg-endpoints-in-module", "C05/symbol-referents-in-module", "C05/aux-data-nodes-in-module",
                                                 "C05/blocks-inside-their-interval", "C05/every-block-has-an-address",
                                                 "C05/zero-sized-blocks-only-in-documented-cases", "C05/protobuf-round-trip-unchanged", "C05/serialisable"],
                space=dict(anns=("none", "block"), bare=(False, True), patches=WITH_CALLFRET)),
    "C06": dict(vals=[VAL.c06_functions], clauses=["C06/surviving-instruction-keeps-its-function", "C06/inserted-code-belongs-to-the-function-of-its-block",
                                                    "C06/entries-follow-the-code", "C06/function-without-blocks-disappears", "C06/data-never-belongs-to-a-function"],
                space=dict(funcs=(True,), patches=["plain", "jmpL2", "ret", "callg", "jcc", "lab", "lab0", "jmplab", "embdata", "twocalls"])),
    "C08": dict(vals=[VAL.c08_cfi], clauses=["C08/directives-still-evaluate-cleanly", "C08/instruction-inside-a-procedure-iff-it-was",
                                              "C08/unwind-state-unchanged-when-nothing-is-deleted", "C08/procedure-structure-directives-never-dropped",
                                              "C08/inserted-code-covered-by-the-enclosing-procedure", "C08/patch-directives-take-effect-inside-a-procedure"],
                space=dict(cfis=("whole", "b1only", "endatb1", "b0b1", "b1b2"), patches=["plain", "cfi", "two", "cfidup", "cfilab", "cfistack", "cficlob", "cfiscratch", "twoclob"])),
}


def job(prop, tier, seed):
    s = SPEC[prop]
    mk = driver.bounded_job(s["vals"], list(s["clauses"]) + ["KERNEL/preconditions-of-the-join-kernel-hold-at-its-call-sites"], BOUND, **s["space"])
    return Job("%s/apply-bounded" % prop, mk(tier, seed), kind="B", func="gtirb_rewriting.rewriting:RewritingContext.apply")
