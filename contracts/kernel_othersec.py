"""Heap kernel, part 11: _modify.edit:_add_other_section_contents (what a patch puts into sections other than the one it is inserted
into; carries C01 "nothing else changed", C02 labels of the patch, C04 its expressions, C05 closure).

E family on the real function, the real Assembler (for the patch) and the real ModifyCache: the section named by the patch exists in the
module or not x shape of the patch's other section --
  data                      two bytes
  data+label-inside         a label in front of the second byte
  data+label-at-end         a label behind the last byte (the assembler leaves a zero-sized block for it)
  label-only                nothing but a label (refused: NotImplementedError)
  data+expression           a data word naming a symbol of the module (with an addend)
  aligned                   .align 8 in front of the data
  code                      a small function in another executable section, called from the text part of the patch
  code-ends-with-call / code-ends-with-jump-to-its-end     the assembler keeps a zero-sized last block that has an incoming edge: refused
Contract (whole view of the module's other sections, not just the new interval):
  N  exactly one new byte interval appears, in the section of that name (created, with the patch's flags, iff it did not exist); every
     other interval of the module is untouched (same contents, blocks, expressions)
  B  its contents are the patch section's bytes; its blocks are the patch section's non-empty blocks at their offsets, inside it; no
     zero-sized block enters the module
  L  every label of the patch section designates its position: a block of the new interval at the label's offset, or the END of the
     last block for a label behind the last byte
  X  expressions and their recorded sizes are keyed by the new interval at their offsets, refer to the module's symbol, keep the addend
  O  the cache's ordering knows the new blocks; alignment / encodings of the patch section are in the module's tables
  R  NotImplementedError exactly for the two documented shapes, and then no interval was added
"""
import importlib

import gtirb
import z3
from gtirb_test_helpers import add_code_block, add_data_block, add_data_section, add_edge, add_proxy_block, add_symbol, add_text_section, create_test_module

from gtirb_rewriting import _auxdata
from gtirb_rewriting._modify import make_modify_cache
from gtirb_rewriting.assembler import Assembler

from pyvc.run import Job

ED = importlib.import_module("gtirb_rewriting._modify.edit")

SHAPES = {
    "data": ("nop\n.section .mydata,\"aw\",@progbits\n.byte 1, 2\n.text\nnop", {}, None),
    "data+label-inside": ("nop\n.section .mydata,\"aw\",@progbits\n.byte 1\nmid:\n.byte 2\n.text\nnop", {"mid": 1}, None),
    "data+label-at-end": ("nop\n.section .mydata,\"aw\",@progbits\n.byte 1, 2\nend_:\n.text\nleaq end_(%rip), %rax", {"end_": 2}, None),
    "label-only": ("nop\n.section .mydata,\"aw\",@progbits\nonly:\n.text\nleaq only(%rip), %rax", {"only": 0}, "NotImplementedError"),
    "data+expression": ("nop\n.section .mydata,\"aw\",@progbits\n.byte 9\n.quad modsym+4\n.text\nnop", {}, None),
    "aligned": ("nop\n.section .mydata,\"aw\",@progbits\n.align 8\n.byte 1, 2\n.text\nnop", {}, None),
    "code": ('nop\n.section .mydata,"ax",@progbits\nfn2:\nnop\nret\n.text\ncall fn2', {"fn2": 0}, None),
    "code-ends-with-call": ('nop\n.section .mydata,"ax",@progbits\nnop\ncall modsym\n.text\nnop', {}, "NotImplementedError"),
    "code-ends-with-jump-to-its-end": ('nop\n.section .mydata,"ax",@progbits\nje q_\nnop\nq_:\n.text\nnop', {"q_": 3}, "NotImplementedError"),
    "two-labels-at-end": ("nop\n.section .mydata,\"aw\",@progbits\n.byte 1\ne1:\ne2:\n.text\nleaq e1(%rip), %rax\nleaq e2(%rip), %rbx", {"e1": 1, "e2": 1}, None),
}


def harness(ctx):
    import logging
    logging.getLogger("gtirb_rewriting").setLevel(logging.CRITICAL)
    names = sorted(SHAPES)
    shape = names[ctx.choose(len(names), "other-section-shape")]
    exists = bool(ctx.choose(2, "section-exists-in-the-module"))
    text, labels, refusal = SHAPES[shape]
    ir, m = create_test_module(gtirb.Module.FileFormat.ELF, gtirb.Module.ISA.X64)
    _, tbi = add_text_section(m, address=0x1000)
    blk = add_code_block(tbi, b"\x90\xc3")
    add_edge(ir.cfg, blk, add_proxy_block(m), gtirb.EdgeType.Return)
    modsym = add_symbol(m, "modsym", blk)
    old_iv = None
    if exists:
        sec, old_iv = add_data_section(m, address=0x4000)
        sec.name = ".mydata"
        old_blk = add_data_block(old_iv, b"\xaa\xbb")
    a = Assembler(m)
    a.assemble(text)
    res = a.finalize()
    osec = res.sections[".mydata"]
    data0 = bytes(osec.data)
    blocks0 = [(b, b.offset, b.size) for b in osec.blocks]
    exprs0 = dict(osec.symbolic_expressions)
    sizes0 = dict(osec.symbolic_expression_sizes)
    align0 = dict(osec.alignment)
    snap = {id(i): (bytes(i.contents), sorted((b.offset, b.size) for b in i.blocks), dict(i.symbolic_expressions)) for i in m.byte_intervals}
    ivs0 = set(m.byte_intervals)
    sects0 = {s.name for s in m.sections}
    sizes_tab = _auxdata.symbolic_expression_sizes.get_or_insert(m)
    tag = "add_other_section_contents"
    note = "%s, section %s" % (shape, "exists" if exists else "is new")
    with make_modify_cache(m, []) as cache:
        try:
            ED._add_other_section_contents(cache, res, osec, m, sizes_tab)
            raised = None
        except NotImplementedError as ex:
            raised = ex
        ctx.cover("enumerated")
        new_ivs = [i for i in m.byte_intervals if i not in ivs0]
        if refusal or raised:
            ctx.prove(tag + "/R/NotImplementedError-exactly-for-the-documented-shapes-and-nothing-was-added",
                      z3.BoolVal((raised is not None) == (refusal is not None) and (raised is None or not new_ivs)), note=note)
            if raised is not None:
                return
        ok_n = len(new_ivs) == 1 and new_ivs[0].section is not None and new_ivs[0].section.name == ".mydata" and new_ivs[0].section.module is m \
            and ({s.name for s in m.sections} == sects0 | {".mydata"}) and len([s for s in m.sections if s.name == ".mydata"]) == 1
        ctx.prove(tag + "/N/exactly-one-new-interval-in-the-section-of-that-name", z3.BoolVal(bool(ok_n)), note=note)
        untouched = all(snap[id(i)] == (bytes(i.contents), sorted((b.offset, b.size) for b in i.blocks), dict(i.symbolic_expressions)) for i in ivs0)
        ctx.prove(tag + "/N/every-other-interval-untouched", z3.BoolVal(untouched and all(i.module is m for i in ivs0)), note=note)
        if not ok_n:
            return
        bi = new_ivs[0]
        want_blocks = [(b, o, s_) for b, o, s_ in blocks0 if s_]
        ok_b = bytes(bi.contents) == data0 and bi.size == len(data0) and sorted((b.offset, b.size) for b in bi.blocks) == sorted((o, s_) for _, o, s_ in want_blocks) \
            and all(b.byte_interval is bi for b, _, _ in want_blocks) and all(b.size > 0 and b.offset + b.size <= bi.size for b in bi.blocks)
        ctx.prove(tag + "/B/contents-and-non-empty-blocks-of-the-patch-section-at-their-offsets", z3.BoolVal(bool(ok_b)), note=note)
        bad_l = []
        for s_ in res.symbols:
            if s_.name in labels:
                r = cache.reference_cache.get_referent(s_) if hasattr(cache.reference_cache, "get_referent") else s_.referent
                r = r if r is not None else s_.referent
                pos = (r.offset + (r.size if s_.at_end else 0)) if isinstance(r, gtirb.ByteBlock) and r.byte_interval is bi else None
                if pos != labels[s_.name] or (isinstance(r, gtirb.ByteBlock) and r.size == 0):
                    bad_l.append("%s at %s, expected %d" % (s_.name, pos, labels[s_.name]))
        ctx.prove(tag + "/L/labels-designate-their-position-in-the-new-interval", z3.BoolVal(not bad_l and len([s_ for s_ in res.symbols if s_.name in labels]) == len(labels)), note=note + ": " + "; ".join(bad_l))
        ok_x = dict(bi.symbolic_expressions) == exprs0 and all(sizes_tab.get(gtirb.Offset(bi, o)) == sz for o, sz in sizes0.items()) \
            and all((not hasattr(e, "symbol")) or e.symbol is not None for e in exprs0.values())
        if shape == "data+expression":
            e = list(bi.symbolic_expressions.items())
            ok_x = ok_x and len(e) == 1 and e[0][0] == 1 and e[0][1].symbol is modsym and e[0][1].offset == 4
        ctx.prove(tag + "/X/expressions-and-sizes-keyed-by-the-new-interval-naming-the-modules-symbols", z3.BoolVal(bool(ok_x)), note=note)
        known = True
        for b, _, _ in want_blocks:
            try:
                cache.adjacent_blocks(b)
            except KeyError:
                known = False
        at = _auxdata.alignment.get(m) or {}
        ctx.prove(tag + "/O/ordering-knows-the-new-blocks-and-alignment-is-recorded", z3.BoolVal(known and all(at.get(k) == v for k, v in align0.items() if getattr(k, "size", 1))), note=note)
    if exists:
        ctx.prove(tag + "/N/the-existing-interval-of-that-section-is-still-there", z3.BoolVal(old_iv in m.byte_intervals and bytes(old_iv.contents) == b"\xaa\xbb"), note=note)


def jobs(tier="quick", seed=0):
    yield Job("K/other-section-contents", harness, kind="E", func="gtirb_rewriting._modify.edit:_add_other_section_contents", expect_cover=("enumerated",))
