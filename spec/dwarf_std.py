"""Independent specification of the DWARF encodings, transcribed from the DWARF standard
(v4/v5): section 7.6 (LEB128), 7.7.1 / Table 7.9 (DW_OP encodings), 6.4.2 and Table 7.29
(call frame instructions).  NOT derived from gtirb_rewriting/dwarf/dwarf2.py.

Operand forms:  u1 u2 u4 u8 / s1 s2 s4 s8  fixed-size (target byte order), addr = unsigned of
address size, uleb / sleb, expr = ULEB128 length followed by that many bytes of DWARF
expression (DW_FORM_exprloc / block).
An entry (name, first_byte, count, forms): `count` > 1 means the first operand is embedded in
the opcode byte (DW_OP_lit0..31, DW_OP_reg0..31, DW_OP_breg0..31; DW_CFA_offset / DW_CFA_restore
carry a 6-bit register in the low bits of the opcode whose high two bits are 0x2 / 0x3).
"""

OP = [
    ("addr", 0x03, 1, ["addr"]), ("deref", 0x06, 1, []),
    ("const1u", 0x08, 1, ["u1"]), ("const1s", 0x09, 1, ["s1"]),
    ("const2u", 0x0A, 1, ["u2"]), ("const2s", 0x0B, 1, ["s2"]),
    ("const4u", 0x0C, 1, ["u4"]), ("const4s", 0x0D, 1, ["s4"]),
    ("const8u", 0x0E, 1, ["u8"]), ("const8s", 0x0F, 1, ["s8"]),
    ("constu", 0x10, 1, ["uleb"]), ("consts", 0x11, 1, ["sleb"]),
    ("dup", 0x12, 1, []), ("drop", 0x13, 1, []), ("over", 0x14, 1, []), ("pick", 0x15, 1, ["u1"]),
    ("swap", 0x16, 1, []), ("rot", 0x17, 1, []), ("xderef", 0x18, 1, []), ("abs", 0x19, 1, []),
    ("and", 0x1A, 1, []), ("div", 0x1B, 1, []), ("minus", 0x1C, 1, []), ("mod", 0x1D, 1, []),
    ("mul", 0x1E, 1, []), ("neg", 0x1F, 1, []), ("not", 0x20, 1, []), ("or", 0x21, 1, []),
    ("plus", 0x22, 1, []), ("plus_uconst", 0x23, 1, ["uleb"]), ("shl", 0x24, 1, []), ("shr", 0x25, 1, []),
    ("shra", 0x26, 1, []), ("xor", 0x27, 1, []), ("bra", 0x28, 1, ["s2"]), ("eq", 0x29, 1, []),
    ("ge", 0x2A, 1, []), ("gt", 0x2B, 1, []), ("le", 0x2C, 1, []), ("lt", 0x2D, 1, []), ("ne", 0x2E, 1, []),
    ("skip", 0x2F, 1, ["s2"]),
    ("lit", 0x30, 32, ["fused"]), ("reg", 0x50, 32, ["fused"]), ("breg", 0x70, 32, ["fused", "sleb"]),
    ("regx", 0x90, 1, ["uleb"]), ("fbreg", 0x91, 1, ["sleb"]), ("bregx", 0x92, 1, ["uleb", "sleb"]),
    ("piece", 0x93, 1, ["uleb"]), ("deref_size", 0x94, 1, ["u1"]), ("xderef_size", 0x95, 1, ["u1"]),
    ("nop", 0x96, 1, []), ("push_object_address", 0x97, 1, []), ("call2", 0x98, 1, ["u2"]),
    ("call4", 0x99, 1, ["u4"]), ("form_tls_address", 0x9B, 1, []), ("call_frame_cfa", 0x9C, 1, []),
    ("bit_piece", 0x9D, 1, ["uleb", "uleb"]), ("stack_value", 0x9F, 1, []),
]

CFA = [
    ("nop", 0x00, 1, []), ("set_loc", 0x01, 1, ["addr"]), ("advance_loc1", 0x02, 1, ["u1"]),
    ("advance_loc2", 0x03, 1, ["u2"]), ("advance_loc4", 0x04, 1, ["u4"]),
    ("offset_extended", 0x05, 1, ["uleb", "uleb"]), ("restore_extended", 0x06, 1, ["uleb"]),
    ("undefined", 0x07, 1, ["uleb"]), ("same_value", 0x08, 1, ["uleb"]), ("register", 0x09, 1, ["uleb", "uleb"]),
    ("remember_state", 0x0A, 1, []), ("restore_state", 0x0B, 1, []), ("def_cfa", 0x0C, 1, ["uleb", "uleb"]),
    ("def_cfa_register", 0x0D, 1, ["uleb"]), ("def_cfa_offset", 0x0E, 1, ["uleb"]),
    ("def_cfa_expression", 0x0F, 1, ["expr"]), ("expression", 0x10, 1, ["uleb", "expr"]),
    ("offset_extended_sf", 0x11, 1, ["uleb", "sleb"]), ("def_cfa_sf", 0x12, 1, ["uleb", "sleb"]),
    ("def_cfa_offset_sf", 0x13, 1, ["sleb"]), ("val_offset", 0x14, 1, ["uleb", "uleb"]),
    ("val_offset_sf", 0x15, 1, ["uleb", "sleb"]), ("val_expression", 0x16, 1, ["uleb", "expr"]),
    ("advance_loc", 0x40, 64, ["fused"]), ("offset", 0x80, 64, ["fused", "uleb"]), ("restore", 0xC0, 64, ["fused"]),
]


def table(which):
    """first byte -> (name, base opcode, count, forms)"""
    t = {}
    for name, base, count, forms in (OP if which == "op" else CFA):
        for i in range(count):
            assert base + i not in t
            t[base + i] = (name, base, count, forms)
    return t


FIXED = {"u1": (1, False), "u2": (2, False), "u4": (4, False), "u8": (8, False),
         "s1": (1, True), "s2": (2, True), "s4": (4, True), "s8": (8, True)}


def form_range(form, count, ptr_size):
    """(lo, hi) half-open range of the values the form can represent; None = unbounded side"""
    if form == "fused":
        return 0, count
    if form in FIXED:
        n, signed = FIXED[form]
        return (-(1 << (8 * n - 1)), 1 << (8 * n - 1)) if signed else (0, 1 << (8 * n))
    if form == "addr":
        return 0, (1 << (8 * ptr_size)) if ptr_size is not None else None
    if form == "uleb":
        return 0, None
    if form == "sleb":
        return None, None
    raise KeyError(form)


# ---- LEB128 (section 7.6, Figures 46/47 algorithms), as total recursive functions on python ints
def uleb(n):
    assert n >= 0
    b = n % 128
    n //= 128
    return [b] if n == 0 else [b + 128] + uleb(n)


def sleb(n):
    b = n % 128
    n = n // 128                      # arithmetic shift
    if (n == 0 and b < 64) or (n == -1 and b >= 64):
        return [b]
    return [b + 128] + sleb(n)


def fixed(v, n, signed, byteorder):
    u = v + (1 << (8 * n)) if (signed and v < 0) else v
    ds = [(u >> (8 * i)) & 0xFF for i in range(n)]
    return ds if byteorder == "little" else ds[::-1]
