"""Abstract machine for the assembly text gtirb-rewriting generates around patches (C16) and for calls (C17).

State: register file reg: Array Int->Int indexed by the ABI's register index (position in abi.all_registers()),
sp (Int, unbounded), flags (Int), mem: Array Int->Int (one value per *access address*), plus the log of stores
(address, width) and of loads (address, width, "was stored by us" condition).  Word size w = abi.pointer_size().

A line of generated text is concrete except for holes HOLE_OPEN k HOLE_CLOSE standing for the k-th formatted symbolic
value (a symbolic register: pyvc SymReg, or a symbolic integer).  Semantics per instruction form are written from the
ISA manuals (Intel SDM vol.2: PUSH/POP/PUSHF/POPF/LEA/MOV/AND/SUB/ADD/CALL; Arm ARM: STP/LDP/STR/LDR pre/post index,
MRS/MSR NZCV, MOV/MOVZ/MOVK, ADRP/ADD; MIPS32: ADDIU/SW/LW/JAL).  This table is trusted (DESIGN.md 4.3).  A line that
matches no form raises Unmodelled: the obligation is undecided, never a pass.
"""
import re

import z3

from pyvc.sym import HOLE_CLOSE, HOLE_OPEN, SymInt, zint


class Unmodelled(Exception):
    pass


class SymReg:
    """a symbolic register of an ABI: index into abi.all_registers()"""

    def __init__(self, idx, abi_regs):
        self.idx, self.regs = idx, abi_regs

    def __format__(self, spec):
        from pyvc.sym import hole
        return hole(self, spec)

    def __str__(self):
        from pyvc.sym import hole
        return hole(self, "")

    def __bool__(self):
        return True

    @property
    def name(self):
        return str(self)

    def __eq__(self, o):
        from pyvc.sym import mk_bool
        if isinstance(o, SymReg):
            return mk_bool(zint(self.idx) == zint(o.idx))
        if hasattr(o, "sizes"):
            for i, r in enumerate(self.regs):
                if r == o:
                    return mk_bool(zint(self.idx) == i)
            return False
        return False

    def __ne__(self, o):
        r = self.__eq__(o)
        from pyvc.sym import SymBool, mk_bool
        return mk_bool(z3.Not(r.term)) if isinstance(r, SymBool) else not r

    def __hash__(self):
        from pyvc.core import Unsupported
        raise Unsupported("hash of a symbolic register")

    def __repr__(self):
        return "SymReg(%s)" % (self.idx,)


class Machine:
    def __init__(self, ctx, abi, syntax):
        self.ctx, self.abi, self.syntax = ctx, abi, syntax
        self.w = abi.pointer_size()
        self.regs = abi.all_registers()
        self.names = {}
        for i, r in enumerate(self.regs):
            for sz, nm in r.sizes.items():
                self.names[nm.lower()] = (i, sz, r.default_size)
        spn = abi.stack_register()
        self.sp_names = {n.lower() for n in spn.sizes.values()}
        self.reg = ctx.array("reg0")
        self.reg0 = self.reg
        self.sp = ctx.int("sp0")
        self.sp0 = self.sp
        self.flags = ctx.int("flags0")
        self.flags0 = self.flags
        self.mem = ctx.array("mem0")
        self.mem0 = self.mem
        self.stores = []        # (addr, width)
        self.loads = []         # (addr, width, own: z3 Bool)
        self.sp_aligned_at_access = []
        self.holes = ctx.holes
        self.calls = []         # (target, sp at call)
        self.log = []
        self.sp_is_reg = None
        for i, r in enumerate(self.regs):
            if any(n.lower() in self.sp_names for n in r.sizes.values()):
                self.sp_is_reg = i

    # ---- operand helpers
    def hole_of(self, tok):
        m = re.fullmatch(re.escape(HOLE_OPEN) + r"(\d+)" + re.escape(HOLE_CLOSE), tok)
        return self.holes[int(m.group(1))] if m else None

    def reg_index(self, tok):
        """register operand (literal name or hole) -> ('sp',) | ('r', index term) ; full-width only"""
        h = self.hole_of(tok)
        if h is not None:
            v, spec = h
            if not isinstance(v, SymReg):
                raise Unmodelled("hole is not a register: %r" % (v,))
            if spec not in ("", v.regs[0].default_size):
                raise Unmodelled("sub-register of a symbolic register: %s" % spec)
            return ("r", zint(v.idx))
        n = tok.lower()
        if n in self.sp_names:
            if n != self.abi.stack_register().name.lower():
                raise Unmodelled("partial stack pointer " + tok)
            return ("sp",)
        if n in self.names:
            i, sz, dflt = self.names[n]
            if sz != dflt:
                raise Unmodelled("sub-register " + tok)
            return ("r", z3.IntVal(i))
        raise Unmodelled("unknown register " + tok)

    def get(self, r):
        return self.sp if r[0] == "sp" else z3.Select(self.reg, r[1])

    def set(self, r, v):
        if r[0] == "sp":
            self.sp = v
        else:
            self.reg = z3.Store(self.reg, r[1], v)

    def store(self, addr, v, width=None):
        width = width or self.w
        self.mem = z3.Store(self.mem, addr, v)
        self.stores.append((addr, width))

    def load(self, addr, width=None):
        width = width or self.w
        own = z3.Or([addr == a for a, wd in self.stores if wd == width] + [z3.BoolVal(False)])
        self.loads.append((addr, width, own))
        return z3.Select(self.mem, addr)

    def push(self, v):
        self.sp = self.sp - self.w
        self.store(self.sp, v)

    def pop(self):
        v = self.load(self.sp)
        self.sp = self.sp + self.w
        return v

    def imm(self, tok):
        tok = tok.strip()
        h = self.hole_of(tok)
        if h is not None:
            v, spec = h
            if isinstance(v, SymReg):
                raise Unmodelled("register where an immediate is expected")
            if spec not in ("", "d"):
                raise Unmodelled("formatted immediate " + spec)
            return zint(v)
        try:
            return z3.IntVal(int(tok, 0))
        except ValueError:
            raise Unmodelled("immediate " + tok)

    # ---- body of the patch: anything the patch is allowed to do
    def havoc_body(self, declared, flags_declared, extra_regs=()):
        """declared: z3 predicate over register index (the registers the patch may change).  The patch may write any
        memory strictly below its entry sp and returns with sp restored (assumption on patch authors)."""
        c = self.ctx
        h = c.array("havoc_reg", inp=False)
        j = z3.Int("j")
        self.reg = z3.Lambda([j], z3.If(declared(j), z3.Select(h, j), z3.Select(self.reg, j)))
        if flags_declared:
            self.flags = c.int("havoc_flags", inp=False)
        hm = c.array("havoc_mem", inp=False)
        a = z3.Int("a")
        spb = self.sp
        self.mem = z3.Lambda([a], z3.If(a < spb, z3.Select(hm, a), z3.Select(self.mem, a)))

    # ---- execution
    def run(self, text):
        for raw in text.strip().splitlines():
            line = raw.strip()
            if not line or line.startswith("#"):
                continue
            self.log.append(line)
            self.step(line)

    def step(self, line):
        getattr(self, "step_" + self.syntax)(line)

    # AT&T x86 (prologues/epilogues)
    def step_att(self, line):
        t = line.split(None, 1)
        op = t[0]
        args = [a.strip() for a in t[1].split(",")] if len(t) > 1 else []
        sfx = "q" if self.w == 8 else "d"
        R = lambda tok: self.reg_index(tok[1:]) if tok.startswith("%") else (_ for _ in ()).throw(Unmodelled("operand " + tok))
        if op in ("push" + ("q" if self.w == 8 else ""), "push" + ("q" if self.w == 8 else "l")) and len(args) == 1:
            return self.push(self.get(R(args[0])))
        if op in ("pop" + ("q" if self.w == 8 else ""), "pop" + ("q" if self.w == 8 else "l")) and len(args) == 1:
            return self.set(R(args[0]), self.pop())
        if op == "pushf" + sfx and not args:
            return self.push(self.flags)
        if op == "popf" + sfx and not args:
            self.flags = self.pop()
            return
        if op in ("lea" + ("q" if self.w == 8 else ""), "leal") and len(args) == 2:
            m = re.fullmatch(r"([+-]?(?:0x)?[0-9a-fA-F]+)\((%\w+)\)", args[0])
            if m:
                return self.set(R(args[1]), self.get(R(m.group(2))) + int(m.group(1), 0))
        if op in ("mov" + ("q" if self.w == 8 else ""), "movl") and len(args) == 2 and args[0].startswith("%") and args[1].startswith("%"):
            return self.set(R(args[1]), self.get(R(args[0])))
        if op in ("and" + ("q" if self.w == 8 else ""), "andl") and len(args) == 2 and args[0].startswith("$") and args[1].startswith("%"):
            k = int(args[0][1:], 0)
            if k < 0 and (-k) & (-k - 1) == 0:           # and with -2^m : clear the low m bits  (x - x mod 2^m)
                v = self.get(R(args[1]))
                self.flags = self.ctx.int("flags_after_and", inp=False)
                return self.set(R(args[1]), v - v % (-k))
        raise Unmodelled("AT&T line: " + line)

    # ARM64
    def step_arm64(self, line):
        X = lambda tok: self.reg_index(tok)
        m = re.fullmatch(r"stp (\S+), (\S+), \[sp, #-16\]!", line)
        if m:
            self.sp = self.sp - 16
            self.sp_aligned_at_access.append(self.sp % 16 == 0)
            self.store(self.sp, self.get(X(m.group(1))), 8)
            self.store(self.sp + 8, self.get(X(m.group(2))), 8)
            return
        m = re.fullmatch(r"ldp (\S+), (\S+), \[sp\], #16", line)
        if m:
            self.sp_aligned_at_access.append(self.sp % 16 == 0)
            a, b = self.load(self.sp, 8), self.load(self.sp + 8, 8)
            # LDP with the same register twice is CONSTRAINED UNPREDICTABLE
            ra, rb = X(m.group(1)), X(m.group(2))
            self.set(ra, a)
            self.set(rb, b)
            self.sp = self.sp + 16
            return
        m = re.fullmatch(r"str (\S+), \[sp, #-16\]!", line)
        if m:
            self.sp = self.sp - 16
            self.sp_aligned_at_access.append(self.sp % 16 == 0)
            self.store(self.sp, self.get(X(m.group(1))), 8)
            return
        m = re.fullmatch(r"ldr (\S+), \[sp\], #16", line)
        if m:
            self.sp_aligned_at_access.append(self.sp % 16 == 0)
            self.set(X(m.group(1)), self.load(self.sp, 8))
            self.sp = self.sp + 16
            return
        m = re.fullmatch(r"mrs (\S+), nzcv", line)
        if m:
            return self.set(X(m.group(1)), self.flags)
        m = re.fullmatch(r"msr nzcv, (\S+)", line)
        if m:
            self.flags = self.get(X(m.group(1)))
            return
        raise Unmodelled("ARM64 line: " + line)

    # MIPS32
    def step_mips(self, line):
        X = lambda tok: self.reg_index(tok[1:]) if tok.startswith("$") else (_ for _ in ()).throw(Unmodelled("operand " + tok))
        m = re.fullmatch(r"addiu (\S+), (\S+), (\S+)", line)
        if m:
            return self.set(X(m.group(1)), self.get(X(m.group(2))) + self.imm(m.group(3)))
        m = re.fullmatch(r"sw (\S+), (\S+)\((\S+)\)", line)
        if m:
            return self.store(self.get(X(m.group(3))) + self.imm(m.group(2)), self.get(X(m.group(1))), 4)
        m = re.fullmatch(r"lw (\S+), (\S+)\((\S+)\)", line)
        if m:
            return self.set(X(m.group(1)), self.load(self.get(X(m.group(3))) + self.imm(m.group(2)), 4))
        raise Unmodelled("MIPS line: " + line)


# ------------------------------------------------------------------------------------------------ C17: call sequences
ADDR = z3.Function("symbol_address", z3.StringSort(), z3.IntSort())          # address a symbol name designates
MEMAT = z3.Function("memory_at_symbol", z3.StringSort(), z3.IntSort())       # the word stored there (unrelated to ADDR)


class CallMachine(Machine):
    """adds Intel-syntax x86 and the ARM64 forms CallPatch emits.  Records, at the call instruction: sp, the register
    file and memory, so that the calling convention can be stated on them.  `operand_errors` collects operands the
    assembler cannot encode (out-of-range immediates, malformed numbers): each is a z3 condition that must be false."""

    def __init__(self, ctx, abi, syntax, callee_pops=None):
        Machine.__init__(self, ctx, abi, syntax)
        self.at_call = None
        self.operand_errors = []        # (description, z3 condition under which the operand is NOT encodable)
        self.callee_pops = callee_pops  # bytes the callee removes from the stack (callee-cleanup conventions)
        self.wbits = 8 * self.w

    def sym_operand(self, tok):
        """'name[rip]' or 'name' (a bare symbol) -> symbol name, else None"""
        t = tok.strip()
        if t.endswith("[rip]"):
            t = t[:-5]
        if re.fullmatch(r"[A-Za-z_.$][\w.$@]*", t) and t.lower() not in self.names and t.lower() not in self.sp_names:
            return t
        return None

    def int_operand(self, tok, what, lo=None, hi=None, radix_prefix=""):
        """an integer operand as the assembler would read the text; records range / syntax conditions"""
        tok = tok.strip()
        h = self.hole_of(tok[len(radix_prefix):]) if tok.startswith(radix_prefix) else None
        if h is None and radix_prefix:
            h0 = self.hole_of(tok)
            if h0 is not None:
                raise Unmodelled("expected prefix %r before the number in %r" % (radix_prefix, what))
        if h is not None:
            v, spec = h
            if isinstance(v, SymReg):
                raise Unmodelled("register where a number is expected")
            t = zint(v)
            if spec == "x":
                # format(v, 'x') prints a minus sign for negative numbers: '0x' + '-5' is not a number
                self.operand_errors.append(("%s: hexadecimal text of a negative number" % what, t < 0))
            elif spec not in ("", "d"):
                raise Unmodelled("format spec " + spec)
            elif radix_prefix:
                raise Unmodelled("decimal hole after a radix prefix")
        else:
            try:
                t = z3.IntVal(int(tok, 0))
            except ValueError:
                raise Unmodelled("number " + tok)
        if lo is not None:
            self.operand_errors.append(("%s: immediate below %d" % (what, lo), t < lo))
        if hi is not None:
            self.operand_errors.append(("%s: immediate above %d" % (what, hi - 1), t >= hi))
        return t

    def value_operand(self, tok, what, lo, hi):
        """source operand of mov/push: immediate or memory-at-symbol; returns (value term, kind)"""
        s = self.sym_operand(tok)
        if s is not None:
            return MEMAT(z3.StringVal(s)), ("load", s)          # Intel syntax: a bare symbol / sym[rip] is a memory operand
        m = re.fullmatch(r"offset\s+(\S+)", tok.strip(), re.I)
        if m and self.sym_operand(m.group(1)):
            return ADDR(z3.StringVal(m.group(1))), ("addr", m.group(1))
        return self.int_operand(tok, what, lo, hi), ("imm",)

    def do_call(self, target):
        self.at_call = dict(sp=self.sp, reg=self.reg, mem=self.mem, target=target)
        # the callee: may change caller-saved state; returns; pops `callee_pops` bytes if the convention says so
        if self.callee_pops is not None:
            self.sp = self.sp + self.callee_pops

    def step_intel(self, line):
        t = line.split(None, 1)
        op = t[0].lower()
        args = [a.strip() for a in t[1].split(",")] if len(t) > 1 else []
        W = self.wbits
        if op in ("sub", "add") and len(args) == 2:
            r = self.reg_index(args[0])
            k = self.int_operand(args[1], line, -(1 << 31), 1 << 31)
            self.flags = self.ctx.int("flags_after_arith", inp=False)
            return self.set(r, self.get(r) - k if op == "sub" else self.get(r) + k)
        if op == "mov" and len(args) == 2:
            r = self.reg_index(args[0])
            # mov r64, imm64 / mov r32, imm32: any value representable in the register
            v, kind = self.value_operand(args[1], line, -(1 << (W - 1)), 1 << W)
            self.last_src = kind
            return self.set(r, v)
        if op == "push" and len(args) == 1:
            # push imm32 (sign-extended to the operand size); push m64/m32
            v, kind = self.value_operand(args[0], line, -(1 << 31), (1 << 31) if W == 64 else (1 << 32))
            self.last_src = kind
            return self.push(v)
        if op == "call" and len(args) == 1 and self.sym_operand(args[0]):
            return self.do_call(self.sym_operand(args[0]))
        raise Unmodelled("Intel line: " + line)

    def step_arm64(self, line):
        X = lambda tok: self.reg_index(tok)
        two64 = 1 << 64
        if not line.startswith(("movz ", "movk ", "movn ")):
            self.lanes = {}               # lanes are only remembered across an uninterrupted movz/movk sequence
        m = re.fullmatch(r"(sub|add) sp, sp, #(\S+)", line)
        if m:
            k = self.int_operand(m.group(2), line, 0, 1 << 24)      # add/sub (immediate): 12 bits, optionally shifted by 12
            self.operand_errors.append((line + ": immediate not encodable as imm12 / imm12<<12",
                                        z3.And(k >= 4096, z3.Or(k % 4096 != 0, k >= (1 << 24)))))
            self.sp = self.sp - k if m.group(1) == "sub" else self.sp + k
            return
        m = re.fullmatch(r"mov (\S+), #(\S+)", line)
        if m:
            tok = m.group(2)
            if tok.startswith("-0x"):
                v = -self.int_operand(tok[1:], line, radix_prefix="0x")          # '-' applied to a well-formed hexadecimal number
            elif tok.startswith("0x"):
                v = self.int_operand(tok, line, radix_prefix="0x")
            else:
                v = self.int_operand(tok, line)
            # MOV (wide immediate / inverted wide immediate) for |v| <= 0xFFFF is always encodable
            self.operand_errors.append((line + ": mov immediate outside the MOVZ/MOVN 16-bit forms used here", z3.Or(v < -0xFFFF, v > 0xFFFF)))
            return self.set(X(m.group(1)), v % two64)
        m = re.fullmatch(r"movz (\S+), #(\S+)", line)
        if m:
            v = self.int_operand(m.group(2), line, 0, 1 << 16, radix_prefix="0x" if m.group(2).startswith("0x") else "")
            # remember the four 16-bit lanes of a register built by movz/movk (keeps later movk free of div/mod terms)
            self.lanes = getattr(self, "lanes", {})
            self.lanes[m.group(1)] = [v, z3.IntVal(0), z3.IntVal(0), z3.IntVal(0)]
            return self.set(X(m.group(1)), v)
        m = re.fullmatch(r"movn (\S+), #(\S+)", line)
        if m:
            # MOVN Xd, #imm16 (shift 0): Xd = NOT(imm16), i.e. lane 0 = 0xFFFF - imm16 and the other three lanes all ones
            v = self.int_operand(m.group(2), line, 0, 1 << 16, radix_prefix="0x" if m.group(2).startswith("0x") else "")
            self.lanes = getattr(self, "lanes", {})
            self.lanes[m.group(1)] = [0xFFFF - v, z3.IntVal(0xFFFF), z3.IntVal(0xFFFF), z3.IntVal(0xFFFF)]
            return self.set(X(m.group(1)), two64 - 1 - v)
        m = re.fullmatch(r"movk (\S+), #(\S+), lsl #(\d+)", line)
        if m:
            v = self.int_operand(m.group(2), line, 0, 1 << 16, radix_prefix="0x" if m.group(2).startswith("0x") else "")
            s = int(m.group(3))
            if s not in (0, 16, 32, 48):
                raise Unmodelled("movk shift " + line)
            r = X(m.group(1))
            lanes = getattr(self, "lanes", {}).get(m.group(1))
            if lanes is not None:
                # MOVK replaces exactly lane s/16 (each lane is a value in [0, 2^16) by the operand range obligations)
                lanes[s // 16] = v
                return self.set(r, z3.Sum([l * (1 << (16 * i)) for i, l in enumerate(lanes)]))
            old = self.get(r)
            return self.set(r, old - ((old / (1 << s)) % (1 << 16)) * (1 << s) + v * (1 << s))
        m = re.fullmatch(r"adrp (\S+), (\S+)", line)
        if m:
            self.pending_adrp = (m.group(1), m.group(2))
            return self.set(X(m.group(1)), ADDR(z3.StringVal(m.group(2))) - ADDR(z3.StringVal(m.group(2))) % 4096)
        m = re.fullmatch(r"add (\S+), (\S+), #:lo12:(\S+)", line)
        if m:
            return self.set(X(m.group(1)), self.get(X(m.group(2))) + ADDR(z3.StringVal(m.group(3))) % 4096)
        m = re.fullmatch(r"str (\S+), \[sp, #(\S+)\]", line)
        if m:
            k = self.int_operand(m.group(2), line, 0, 32768)
            self.sp_aligned_at_access.append(self.sp % 16 == 0)
            return self.store(self.sp + k, self.get(X(m.group(1))), 8)
        m = re.fullmatch(r"bl (\S+)", line)
        if m:
            return self.do_call(m.group(1))
        # pseudo-lines emitted by the *contract stubs* of _load_immediate / _load_symbol (modular verification)
        m = re.fullmatch(r"LOADIMM (\S+), (\S+)", line)
        if m:
            return self.set(X(m.group(1)), self.int_operand(m.group(2), line) % two64)
        m = re.fullmatch(r"LOADSYM (\S+), (\S+)", line)
        if m:
            return self.set(X(m.group(1)), ADDR(z3.StringVal(m.group(2))))
        return Machine.step_arm64(self, line)
