"""Abstract machine for the assembly text gtirb-rewriting generates around patches (C16) and for calls (C17).

State: register file reg: Array Int->Int indexed by the ABI's register index (position in abi.all_registers()),
sp (Int, unbounded), flags (Int), mem: Array Int->Int (one value per *access address*), plus the log of stores
(address, width) and of loads (address, width, "was stored by us" condition).  Word size w = abi.pointer_size().

A line of generated text is concrete except for holes HOLE_OPEN k HOLE_CLOSE standing for the k-th formatted symbolic
value (a symbolic register: pyvc SymReg, or a symbolic integer).  Semantics per instruction form are written from the
ISA manuals (Intel SDM vol.2: PUSH/POP/PUSHF/POPF/LEA/MOV/AND/SUB/ADD/CALL; Arm ARM: STP/LDP/STR/LDR pre/post index,
MRS/MSR NZCV, MOV/MOVZ/MOVK, ADRP/ADD; MIPS32: ADDIU/SW/LW/JAL).  This table is trusted (DESIGN.md 4.3).  A line that
matches no form raises Unmodelled: the obligation is undecided, never a pass.
"""
import re

import z3

from pyvc.sym import HOLE_CLOSE, HOLE_OPEN, SymInt, zint


class Unmodelled(Exception):
    pass


class SymReg:
    """a symbolic register of an ABI: index into abi.all_registers()"""

    def __init__(self, idx, abi_regs):
        self.idx, self.regs = idx, abi_regs

    def __format__(self, spec):
        from pyvc.sym import hole
        return hole(self, spec)

    def __str__(self):
        from pyvc.sym import hole
        return hole(self, "")

    def __bool__(self):
        return True

    @property
    def name(self):
        return str(self)

    def __eq__(self, o):
        from pyvc.sym import mk_bool
        if isinstance(o, SymReg):
            return mk_bool(zint(self.idx) == zint(o.idx))
        if hasattr(o, "sizes"):
            for i, r in enumerate(self.regs):
                if r == o:
                    return mk_bool(zint(self.idx) == i)
            return False
        return False

    def __ne__(self, o):
        r = self.__eq__(o)
        from pyvc.sym import SymBool, mk_bool
        return mk_bool(z3.Not(r.term)) if isinstance(r, SymBool) else not r

    def __hash__(self):
        from pyvc.core import Unsupported
        raise Unsupported("hash of a symbolic register")

    def __repr__(self):
        return "SymReg(%s)" % (self.idx,)


class Machine:
    def __init__(self, ctx, abi, syntax):
        self.ctx, self.abi, self.syntax = ctx, abi, syntax
        self.w = abi.pointer_size()
        self.regs = abi.all_registers()
        self.names = {}
        for i, r in enumerate(self.regs):
            for sz, nm in r.sizes.items():
                self.names[nm.lower()] = (i, sz, r.default_size)
        spn = abi.stack_register()
        self.sp_names = {n.lower() for n in spn.sizes.values()}
        self.reg = ctx.array("reg0")
        self.reg0 = self.reg
        self.sp = ctx.int("sp0")
        self.sp0 = self.sp
        self.flags = ctx.int("flags0")
        self.flags0 = self.flags
        self.mem = ctx.array("mem0")
        self.mem0 = self.mem
        self.stores = []        # (addr, width)
        self.loads = []         # (addr, width, own: z3 Bool)
        self.sp_aligned_at_access = []
        self.holes = ctx.holes
        self.calls = []         # (target, sp at call)
        self.log = []
        self.sp_is_reg = None
        for i, r in enumerate(self.regs):
            if any(n.lower() in self.sp_names for n in r.sizes.values()):
                self.sp_is_reg = i

    # ---- operand helpers
    def hole_of(self, tok):
        m = re.fullmatch(re.escape(HOLE_OPEN) + r"(\d+)" + re.escape(HOLE_CLOSE), tok)
        return self.holes[int(m.group(1))] if m else None

    def reg_index(self, tok):
        """register operand (literal name or hole) -> ('sp',) | ('r', index term) ; full-width only"""
        h = self.hole_of(tok)
        if h is not None:
            v, spec = h
            if not isinstance(v, SymReg):
                raise Unmodelled("hole is not a register: %r" % (v,))
            if spec not in ("", v.regs[0].default_size):
                raise Unmodelled("sub-register of a symbolic register: %s" % spec)
            return ("r", zint(v.idx))
        n = tok.lower()
        if n in self.sp_names:
            if n != self.abi.stack_register().name.lower():
                raise Unmodelled("partial stack pointer " + tok)
            return ("sp",)
        if n in self.names:
            i, sz, dflt = self.names[n]
            if sz != dflt:
                raise Unmodelled("sub-register " + tok)
            return ("r", z3.IntVal(i))
        raise Unmodelled("unknown register " + tok)

    def get(self, r):
        return self.sp if r[0] == "sp" else z3.Select(self.reg, r[1])

    def set(self, r, v):
        if r[0] == "sp":
            self.sp = v
        else:
            self.reg = z3.Store(self.reg, r[1], v)

    def store(self, addr, v, width=None):
        width = width or self.w
        self.mem = z3.Store(self.mem, addr, v)
        self.stores.append((addr, width))

    def load(self, addr, width=None):
        width = width or self.w
        own = z3.Or([addr == a for a, wd in self.stores if wd == width] + [z3.BoolVal(False)])
        self.loads.append((addr, width, own))
        return z3.Select(self.mem, addr)

    def push(self, v):
        self.sp = self.sp - self.w
        self.store(self.sp, v)

    def pop(self):
        v = self.load(self.sp)
        self.sp = self.sp + self.w
        return v

    def imm(self, tok):
        tok = tok.strip()
        h = self.hole_of(tok)
        if h is not None:
            v, spec = h
            if isinstance(v, SymReg):
                raise Unmodelled("register where an immediate is expected")
            if spec not in ("", "d"):
                raise Unmodelled("formatted immediate " + spec)
            return zint(v)
        try:
            return z3.IntVal(int(tok, 0))
        except ValueError:
            raise Unmodelled("immediate " + tok)

    # ---- body of the patch: anything the patch is allowed to do
    def havoc_body(self, declared, flags_declared, extra_regs=()):
        """declared: z3 predicate over register index (the registers the patch may change).  The patch may write any
        memory strictly below its entry sp and returns with sp restored (assumption on patch authors)."""
        c = self.ctx
        h = c.array("havoc_reg", inp=False)
        j = z3.Int("j")
        self.reg = z3.Lambda([j], z3.If(declared(j), z3.Select(h, j), z3.Select(self.reg, j)))
        if flags_declared:
            self.flags = c.int("havoc_flags", inp=False)
        hm = c.array("havoc_mem", inp=False)
        a = z3.Int("a")
        spb = self.sp
        self.mem = z3.Lambda([a], z3.If(a < spb, z3.Select(hm, a), z3.Select(self.mem, a)))

    # ---- execution
    def run(self, text):
        for raw in text.strip().splitlines():
            line = raw.strip()
            if not line or line.startswith("#"):
                continue
            self.log.append(line)
            self.step(line)

    def step(self, line):
        getattr(self, "step_" + self.syntax)(line)

    # AT&T x86 (prologues/epilogues)
    def step_att(self, line):
        t = line.split(None, 1)
        op = t[0]
        args = [a.strip() for a in t[1].split(",")] if len(t) > 1 else []
        sfx = "q" if self.w == 8 else "d"
        R = lambda tok: self.reg_index(tok[1:]) if tok.startswith("%") else (_ for _ in ()).throw(Unmodelled("operand " + tok))
        if op in ("push" + ("q" if self.w == 8 else ""), "push" + ("q" if self.w == 8 else "l")) and len(args) == 1:
            return self.push(self.get(R(args[0])))
        if op in ("pop" + ("q" if self.w == 8 else ""), "pop" + ("q" if self.w == 8 else "l")) and len(args) == 1:
            return self.set(R(args[0]), self.pop())
        if op == "pushf" + sfx and not args:
            return self.push(self.flags)
        if op == "popf" + sfx and not args:
            self.flags = self.pop()
            return
        if op in ("lea" + ("q" if self.w == 8 else ""), "leal") and len(args) == 2:
            m = re.fullmatch(r"([+-]?(?:0x)?[0-9a-fA-F]+)\((%\w+)\)", args[0])
            if m:
                return self.set(R(args[1]), self.get(R(m.group(2))) + int(m.group(1), 0))
        if op in ("mov" + ("q" if self.w == 8 else ""), "movl") and len(args) == 2 and args[0].startswith("%") and args[1].startswith("%"):
            return self.set(R(args[1]), self.get(R(args[0])))
        if op in ("and" + ("q" if self.w == 8 else ""), "andl") and len(args) == 2 and args[0].startswith("$") and args[1].startswith("%"):
            k = int(args[0][1:], 0)
            if k < 0 and (-k) & (-k - 1) == 0:           # and with -2^m : clear the low m bits  (x - x mod 2^m)
                v = self.get(R(args[1]))
                self.flags = self.ctx.int("flags_after_and", inp=False)
                return self.set(R(args[1]), v - v % (-k))
        raise Unmodelled("AT&T line: " + line)

    # ARM64
    def step_arm64(self, line):
        X = lambda tok: self.reg_index(tok)
        m = re.fullmatch(r"stp (\S+), (\S+), \[sp, #-16\]!", line)
        if m:
            self.sp = self.sp - 16
            self.sp_aligned_at_access.append(self.sp % 16 == 0)
            self.store(self.sp, self.get(X(m.group(1))), 8)
            self.store(self.sp + 8, self.get(X(m.group(2))), 8)
            return
        m = re.fullmatch(r"ldp (\S+), (\S+), \[sp\], #16", line)
        if m:
            self.sp_aligned_at_access.append(self.sp % 16 == 0)
            a, b = self.load(self.sp, 8), self.load(self.sp + 8, 8)
            # LDP with the same register twice is CONSTRAINED UNPREDICTABLE
            ra, rb = X(m.group(1)), X(m.group(2))
            self.set(ra, a)
            self.set(rb, b)
            self.sp = self.sp + 16
            return
        m = re.fullmatch(r"str (\S+), \[sp, #-16\]!", line)
        if m:
            self.sp = self.sp - 16
            self.sp_aligned_at_access.append(self.sp % 16 == 0)
            self.store(self.sp, self.get(X(m.group(1))), 8)
            return
        m = re.fullmatch(r"ldr (\S+), \[sp\], #16", line)
        if m:
            self.sp_aligned_at_access.append(self.sp % 16 == 0)
            self.set(X(m.group(1)), self.load(self.sp, 8))
            self.sp = self.sp + 16
            return
        m = re.fullmatch(r"mrs (\S+), nzcv", line)
        if m:
            return self.set(X(m.group(1)), self.flags)
        m = re.fullmatch(r"msr nzcv, (\S+)", line)
        if m:
            self.flags = self.get(X(m.group(1)))
            return
        raise Unmodelled("ARM64 line: " + line)

    # MIPS32
    def step_mips(self, line):
        X = lambda tok: self.reg_index(tok[1:]) if tok.startswith("$") else (_ for _ in ()).throw(Unmodelled("operand " + tok))
        m = re.fullmatch(r"addiu (\S+), (\S+), (\S+)", line)
        if m:
            return self.set(X(m.group(1)), self.get(X(m.group(2))) + self.imm(m.group(3)))
        m = re.fullmatch(r"sw (\S+), (\S+)\((\S+)\)", line)
        if m:
            return self.store(self.get(X(m.group(3))) + self.imm(m.group(2)), self.get(X(m.group(1))), 4)
        m = re.fullmatch(r"lw (\S+), (\S+)\((\S+)\)", line)
        if m:
            return self.set(X(m.group(1)), self.load(self.get(X(m.group(3))) + self.imm(m.group(2)), 4))
        raise Unmodelled("MIPS line: " + line)
