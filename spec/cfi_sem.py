"""Independent semantics of CFI directives on an abstract procedure state.

Written from DWARF v4/v5 section 6.4.2 (call frame instructions) and the GAS manual 7.12 (CFI
directives), NOT from gtirb_rewriting/dwarf/cfi_eval.py.

Abstract state (all components are z3 terms or python functions returning z3 terms):
  in_proc : bool                        -- between .cfi_startproc and .cfi_endproc
  retcol  : Int                         -- return address column (CIE)
  pers, lsda : (present, encoding, symbol-id)
  cfa     : (tag, reg, off, expr)       tag 0 = no rule yet, 1 = register+offset, 2 = expression
  rule(r) : (tag, a, e)                 register rule of the current row for column r
            tag 0 = none recorded, 1 undefined, 2 same_value, 3 offset(a), 4 val_offset(a),
                5 register(a), 6 expression(e), 7 val_expression(e)
  init_rule(r), init_cfa               -- the rules established by the CIE's initial instructions
  stack   : sequence of rows (cfa, rule) -- DW_CFA_remember_state / restore_state
Decisions recorded as assumptions of the property check (see DESIGN.md 4.2):
  * remember/restore_state save and restore the CFA rule together with the register rules (what GAS, libgcc and
    LLVM implement; DWARF's text only mentions register rules);
  * .cfi_rel_offset r, n  ==  offset(r, N + n) where offset(N) is r's current rule, an error otherwise
    (behaviour pinned by the repository's own tests; DWARF has no such instruction);
  * "initial rules" = the rules in force after the directives located at the .cfi_startproc position.
Errors: 'state' = CFIStateError, 'value' = ValueError, None = no error.
"""
import z3

NONE, UNDEF, SAME, OFFSET, VALOFFSET, INREG, ATEXPR, ISEXPR = range(8)
CFA_NONE, CFA_REGOFF, CFA_EXPR = 0, 1, 2
DW_EH_PE_omit = 0xFF

ARITY = {
    ".cfi_startproc": 0, ".cfi_endproc": 0, ".cfi_personality": 1, ".cfi_lsda": 1, ".cfi_return_column": 1,
    ".cfi_def_cfa": 2, ".cfi_def_cfa_register": 1, ".cfi_def_cfa_offset": 1, ".cfi_adjust_cfa_offset": 1,
    ".cfi_undefined": 1, ".cfi_same_value": 1, ".cfi_register": 2, ".cfi_restore": 1, ".cfi_val_offset": 2,
    ".cfi_offset": 2, ".cfi_rel_offset": 2, ".cfi_remember_state": 0, ".cfi_restore_state": 0,
}


class Pre:
    """accessors of the abstract pre-state (filled in by the harness from the symbolic heap state)"""
    in_proc = None          # python bool (the harness splits on it)
    retcol = None
    pers = None             # opaque python object or None
    lsda = None
    cfa = None              # (tag, reg, off, expr)
    rule = None             # r -> (tag, a, e)
    init_cfa = None
    init_rule = None
    stack_len = None        # z3 Int
    stack_cfa = None        # i -> cfa tuple
    stack_rule = None       # (i, r) -> rule tuple


class Post:
    def __init__(self):
        self.error = None           # None | ("state"|"value", z3 condition)   error raised exactly when condition holds
        self.in_proc = True
        self.fresh_proc = False     # state reset to a new procedure (startproc)
        self.retcol = None          # None = unchanged, else term
        self.pers = "same"          # "same" | "none" | ("set", encoding)
        self.lsda = "same"
        self.cfa = None             # None = unchanged, else tuple
        self.rule = None            # None = unchanged, else function r -> tuple
        self.push = False           # remember_state
        self.pop = False            # restore_state


def ite3(c, a, b):
    return tuple(z3.If(c, x, y) for x, y in zip(a, b))


def step(name, args, pre, has_symbol=True, default_retcol=None):
    """semantics of one directive in a state where pre.in_proc is a python bool"""
    p = Post()
    if name == ".cfi_startproc":
        if pre.in_proc:
            p.error = ("state", z3.BoolVal(True))           # nested procedure
        p.fresh_proc = True
        p.retcol = default_retcol
        return p
    if not pre.in_proc:
        p.error = ("state", z3.BoolVal(True))               # directive outside a procedure
        return p
    if name == ".cfi_endproc":
        p.in_proc = False
        return p
    if name in (".cfi_personality", ".cfi_lsda"):
        (enc,) = args
        omit = enc == DW_EH_PE_omit
        val = "none" if omit else ("set", enc)
        if not omit and not has_symbol:
            p.error = ("value", z3.BoolVal(True))           # pointer without a symbol
        if name == ".cfi_personality":
            p.pers = val
        else:
            p.lsda = val
        return p
    if name == ".cfi_return_column":
        p.retcol = args[0]
        return p
    if name == ".cfi_def_cfa":
        p.cfa = (z3.IntVal(CFA_REGOFF), args[0], args[1], z3.IntVal(0))
        return p
    if name in (".cfi_def_cfa_register", ".cfi_def_cfa_offset", ".cfi_adjust_cfa_offset"):
        # "This operation is valid only if the current CFA rule is defined to use a register and offset."
        tag, reg, off, ex = pre.cfa
        p.error = ("state", tag != CFA_REGOFF)
        if name == ".cfi_def_cfa_register":
            p.cfa = (z3.IntVal(CFA_REGOFF), args[0], off, z3.IntVal(0))
        elif name == ".cfi_def_cfa_offset":
            p.cfa = (z3.IntVal(CFA_REGOFF), reg, args[0], z3.IntVal(0))
        else:
            p.cfa = (z3.IntVal(CFA_REGOFF), reg, off + args[0], z3.IntVal(0))
        return p
    z = z3.IntVal(0)

    def setrule(r, new):
        return lambda q: ite3(q == r, new, pre.rule(q))
    if name == ".cfi_undefined":
        p.rule = setrule(args[0], (z3.IntVal(UNDEF), z, z))
    elif name == ".cfi_same_value":
        p.rule = setrule(args[0], (z3.IntVal(SAME), z, z))
    elif name == ".cfi_register":
        p.rule = setrule(args[0], (z3.IntVal(INREG), args[1], z))
    elif name == ".cfi_offset":
        p.rule = setrule(args[0], (z3.IntVal(OFFSET), args[1], z))
    elif name == ".cfi_val_offset":
        p.rule = setrule(args[0], (z3.IntVal(VALOFFSET), args[1], z))
    elif name == ".cfi_rel_offset":
        t, a, e = pre.rule(args[0])
        p.error = ("state", t != OFFSET)
        p.rule = setrule(args[0], (z3.IntVal(OFFSET), a + args[1], z))
    elif name == ".cfi_restore":
        # "change the rule for the indicated register to the rule assigned it by the initial_instructions in the CIE"
        p.rule = setrule(args[0], pre.init_rule(args[0]))
    elif name == ".cfi_remember_state":
        p.push = True
    elif name == ".cfi_restore_state":
        p.error = ("state", pre.stack_len <= 0)
        p.pop = True
    else:
        raise KeyError(name)
    return p


# escaped call frame instructions the evaluator documents as supported
def step_inst(kind, reg, expr_id, pre):
    p = Post()
    z = z3.IntVal(0)
    if kind == "def_cfa_expression":
        p.cfa = (z3.IntVal(CFA_EXPR), z, z, expr_id)
    elif kind == "expression":
        p.rule = lambda q: ite3(q == reg, (z3.IntVal(ATEXPR), z, expr_id), pre.rule(q))
    elif kind == "val_expression":
        p.rule = lambda q: ite3(q == reg, (z3.IntVal(ISEXPR), z, expr_id), pre.rule(q))
    elif kind == "nop":
        pass
    else:
        raise KeyError(kind)
    return p
