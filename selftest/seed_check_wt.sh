#!/bin/bash
# usage: selftest/seed_check_wt.sh <seed-id> [worktree]  -- like seed_check.sh but applies the seed in a scratch worktree of /repo (created on demand under /tmp,
# one per caller: WT=/tmp/seedwt-<n>) and points the check at it through PYTHONPATH, so that several seeds can be evaluated in parallel and /repo stays clean
set -u
S=$1; WT=${2:-/tmp/seedwt-$$}; D=/verif/seeded/$S
P=$(python3 -c "import json;print(json.load(open('$D/meta.json'))['property'])")
if [ ! -d $WT ]; then git -C /repo worktree add --detach -q $WT HEAD && cp /repo/src/gtirb_rewriting/version.py $WT/src/gtirb_rewriting/; fi
git -C $WT checkout -q -- . ; git -C $WT checkout -q --detach $(git -C /repo rev-parse HEAD) 2>/dev/null
git -C $WT apply $D/patch.diff || { echo "$S: patch does not apply"; exit 3; }
cd /verif
PYTHONHASHSEED=0 PYTHONDONTWRITEBYTECODE=1 PYVC_EVIDENCE_DIR=/tmp/pyvc-seed-evidence-$(basename $WT) PYTHONPATH=/verif:$WT/src .venv/bin/python -m pyvc.cli $P quick > /tmp/seedwt-$S.log 2>&1
rc=$?
echo "$S: $P exit=$rc violations=$(grep -c '^VIOLATION' /tmp/seedwt-$S.log)"
git -C $WT checkout -q -- .
