#!/bin/bash
# usage: selftest/wave_eval.sh <worktree-prefix e.g. /tmp/w5-> [props...]  -- confirms each seeded change of a wave and runs its property's check;
# prints one verdict line per seed and appends it to /tmp/wave-verdicts.txt
cd "$(dirname "$0")/.."
PFX=$1; shift
PROPS="${@:-C01 C02 C03 C04 C05 C06 C07 C08 C09 C10 C11 C12 C13 C14 C15 C16 C17 C18 C19 C20}"
for P in $PROPS; do
  [ -f $PFX$P/seed_out/patch.diff ] || { echo "$P no-patch"; continue; }
  out=$(WTP=$PFX selftest/seed_eval.sh $P 2>&1)
  suite=$(echo "$out" | grep -m1 "passed\|failed" | cut -c1-40)
  dw=$(echo "$out" | grep -m1 "^exit=" ); dwo=$(echo "$out" | grep "^exit=" | sed -n 2p)
  chk=$(echo "$out" | grep -m1 "^$P exit=" | cut -c1-120)
  line="$P suite[$suite] demo-with[$dw] demo-without[$dwo] check[$chk]"
  echo "$line"; echo "$line" >> /tmp/wave-verdicts.txt
done
