#!/bin/bash
# usage: selftest/wave_eval_par.sh <worktree-prefix e.g. /tmp/w10-> [jobs]  -- like wave_eval.sh, but the checks are pointed at each seed's OWN worktree (where the
# change is already applied) through PYTHONPATH, so /repo is never touched and several seeds are evaluated at a time; verdict lines go to /tmp/wave-verdicts.txt
cd "$(dirname "$0")/.."
PFX=$1; J=${2:-4}
one() {
  P=$1; PFX=$2; WT=$PFX$P; OUT=$WT/seed_out
  [ -f $OUT/patch.diff ] || { echo "$P no-patch"; return; }
  cd $WT
  suite=$(PYTHONPATH=$WT/src /venv/bin/python -m pytest -q -p no:cacheprovider --timeout=900 --deselect tests/test_e2e.py 2>&1 | tail -1 | cut -c1-40)
  git diff -- src | diff -q - $OUT/patch.diff >/dev/null || echo "WARNING $P: worktree diff differs from patch.diff"
  dw=$(cd $OUT && PYTHONPATH=$WT/src /venv/bin/python demo.py >/dev/null 2>&1; echo "exit=$?")
  git apply -R $OUT/patch.diff; dwo=$(cd $OUT && PYTHONPATH=$WT/src /venv/bin/python demo.py >/dev/null 2>&1; echo "exit=$?"); git apply $OUT/patch.diff
  cd /verif
  PYTHONHASHSEED=0 PYTHONDONTWRITEBYTECODE=1 PYVC_EVIDENCE_DIR=/tmp/pyvc-seed-evidence-$P PYTHONPATH=/verif:$WT/src .venv/bin/python -m pyvc.cli $P quick > /tmp/seed-$P-$P.log 2>&1
  rc=$?
  line="$P suite[$suite] demo-with[$dw] demo-without[$dwo] check[$P exit=$rc violations=$(grep -c '^VIOLATION' /tmp/seed-$P-$P.log) $(grep -m1 '^VIOLATION' /tmp/seed-$P-$P.log | cut -c1-120)]"
  echo "$line"; echo "$line" >> /tmp/wave-verdicts.txt
}
export -f one
printf "%s\n" C01 C02 C03 C04 C05 C06 C07 C08 C09 C10 C11 C12 C13 C14 C15 C16 C17 C18 C19 C20 | xargs -P $J -I{} bash -c "one {} $PFX"
