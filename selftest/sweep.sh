#!/bin/bash
# dev helper: usage selftest/sweep.sh <tier> <seed> [props...] -- runs the checks with evidence redirected (never commit evidence of a sweep)
cd "$(dirname "$0")/.."
T=$1; S=$2; shift 2
PROPS="${@:-$(python3 -c "import json;print(' '.join(sorted(json.load(open('contracts/registry.json')))))")}"
for p in $PROPS; do
  s=$(date +%s); VERIF_SEED=$S PYVC_EVIDENCE_DIR=/tmp/pyvc-sweep-evidence ./check $p $T > /tmp/sweep-$T-$S-$p.log 2>&1; rc=$?; e=$(date +%s)
  echo "$p tier=$T seed=$S exit=$rc $((e-s))s $(tail -1 /tmp/sweep-$T-$S-$p.log | cut -c1-150)"
  [ $rc -ne 0 ] && grep -E "^(VIOLATION|UNDECIDED|CHECKER-ERROR)" /tmp/sweep-$T-$S-$p.log | head -3 | cut -c1-300
done
