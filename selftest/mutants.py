#!/usr/bin/env python3
"""dev-time self-test (not a registered check): apply small property-breaking edits to /repo's working tree,
run the property's quick check, expect exit 1 with a VIOLATION line, and revert (git checkout).
usage: selftest/mutants.py [--tests] [ids...]"""
import json, os, subprocess, sys
R = os.path.dirname(os.path.dirname(os.path.abspath(__file__)))
M = json.load(open(os.path.join(R, "selftest", "mutants.json")))

def sh(cmd, **kw):
    return subprocess.run(cmd, shell=True, capture_output=True, text=True, **kw)

def main():
    args = [a for a in sys.argv[1:] if not a.startswith("--")]
    tests = "--tests" in sys.argv
    assert sh("git -C /repo status --porcelain").stdout.strip() == "", "/repo not clean"
    res = []
    for m in M:
        if args and not any(a in m["id"] for a in args):
            continue
        p = os.path.join("/repo", m["file"])
        src = open(p).read()
        if src.count(m["old"]) != 1:
            res.append((m["id"], "SKIP: pattern occurs %d times" % src.count(m["old"])))
            continue
        try:
            open(p, "w").write(src.replace(m["old"], m["new"]))
            t = ""
            if tests:
                r = sh("cd /repo && /venv/bin/python -m pytest -q -x -p no:cacheprovider --timeout=900 --deselect tests/test_e2e.py 2>&1 | tail -2")
                t = " tests:" + r.stdout.strip().splitlines()[-1][:60]
            r = sh("cd %s && PYVC_EVIDENCE_DIR=/tmp/pyvc-mutant-evidence ./check %s quick" % (R, m["property"]))
            v = [l for l in r.stdout.splitlines() if l.startswith("VIOLATION")]
            obl = []
            for l in v:
                try:
                    obl.append(json.load(open(l.split("replay=")[1].split()[0]))["obligation"])
                except Exception:
                    pass
            want = m.get("expect_obligation")
            miss = "" if r.returncode == 1 else "  <-- MISSED: " + r.stdout.strip().splitlines()[-1][:200]
            if want and not any(want in o for o in obl):
                miss += "  <-- expected an obligation containing %r, got %s" % (want, obl[:4])
            res.append((m["id"], "exit=%d violations=%d%s %s %s" % (r.returncode, len(v), t, miss, obl[:3] if "--show" in sys.argv else "")))
        finally:
            sh("git -C /repo checkout -- .")
    for r in res:
        print(*r)

main()
