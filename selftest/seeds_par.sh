#!/bin/bash
# usage: selftest/seeds_par.sh <jobs> <seed-id>...   -- runs seed_check_wt.sh for every given archived seed, <jobs> at a time, one scratch worktree per slot
# (/tmp/seedwt-slot<k>, removed at the end); verdict lines on stdout ("<ID>: <PROP> exit=<code> violations=<n>"; exit=1 means caught)
cd "$(dirname "$0")/.."
J=$1; shift
printf "%s\n" "$@" | xargs -P $J --process-slot-var=SLOT -I{} bash -c 'selftest/seed_check_wt.sh {} /tmp/seedwt-slot$SLOT'
for k in $(seq 0 $((J-1))); do [ -d /tmp/seedwt-slot$k ] && git -C /repo worktree remove --force /tmp/seedwt-slot$k; done
rm -rf /tmp/pyvc-seed-evidence-seedwt-slot*
