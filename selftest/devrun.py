#!/usr/bin/env python3
"""dev helper: run the jobs of one contract module (optionally filtered by substring) in-process-pool and print a summary.
usage: PYTHONPATH=/verif .venv/bin/python selftest/devrun.py contracts.kernel_join [substr] [--serial]"""
import sys, json, multiprocessing as mp
sys.path.insert(0, "/verif")
from pyvc import run

def main():
    modname = sys.argv[1]
    sub = [a for a in sys.argv[2:] if not a.startswith("--")]
    import importlib
    mod = importlib.import_module(modname)
    args = [(modname, j.id, "quick", 0) for j in mod.jobs("quick", 0) if not sub or any(s in j.id for s in sub)]
    if "--serial" in sys.argv:
        outs = [run._run_job(a) for a in args]
    else:
        with mp.Pool(14) as p:
            outs = p.map(run._run_job, args)
    tot = fail = 0
    for o in outs:
        st = {}
        for n, ob in o["obligations"].items():
            st[ob["status"]] = st.get(ob["status"], 0) + 1
            tot += 1
        bad = {n: ob for n, ob in o["obligations"].items() if ob["status"] not in ("proved", "passed-bounded")}
        print(o["id"], st, "paths", o["paths"], "%.1fs" % o["wall_s"], "UNSUP" if o["unsupported"] else "", "ERR" if o["errors"] else "")
        for n, ob in list(bad.items())[:6]:
            fail += 1
            print("    FAILED", n, "|", (ob.get("note") or "")[:150], "|", json.dumps(ob.get("model"))[:300])
        for u in o["unsupported"][:3]:
            print("    UNSUPPORTED", str(u)[:300])
        for e in o["errors"][:2]:
            print("    ERROR", str(e)[-900:])
    print("total obligations", tot, "failed", fail)
main()
