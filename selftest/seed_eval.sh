#!/bin/bash
# usage: selftest/seed_eval.sh <PROP> [extra props to run]   -- confirms a seeded change (in /tmp/wt-<PROP>/seed_out) and runs the checks against it
set -u
P=$1; shift; EXTRA="$@"
WT=${WTP:-/tmp/wt-}$P; OUT=$WT/seed_out
[ -f $OUT/patch.diff ] || { echo "no patch"; exit 2; }
cd $WT
echo "--- suite with change:"; PYTHONPATH=$WT/src /venv/bin/python -m pytest -q -p no:cacheprovider --timeout=900 --deselect tests/test_e2e.py 2>&1 | tail -1
echo "--- demo with change:"; (cd $OUT && PYTHONPATH=$WT/src /venv/bin/python demo.py 2>&1 | tail -3; echo "exit=${PIPESTATUS[0]}")
git diff -- src | diff -q - $OUT/patch.diff >/dev/null || echo "WARNING: worktree diff differs from patch.diff"
git apply -R $OUT/patch.diff; echo "--- demo without change:"; (cd $OUT && PYTHONPATH=$WT/src /venv/bin/python demo.py 2>&1 | tail -2; echo "exit=${PIPESTATUS[0]}"); git apply $OUT/patch.diff
echo "--- checks against the change:"
[ -z "$(git -C /repo status --porcelain)" ] || { echo "/repo dirty"; exit 3; }
git -C /repo apply $OUT/patch.diff || { echo "patch does not apply to /repo"; exit 3; }
for Q in $P $EXTRA; do (cd /verif && PYVC_EVIDENCE_DIR=/tmp/pyvc-seed-evidence ./check $Q quick > /tmp/seed-$P-$Q.log 2>&1; echo "$Q exit=$? violations=$(grep -c '^VIOLATION' /tmp/seed-$P-$Q.log) $(grep -m1 '^VIOLATION' /tmp/seed-$P-$Q.log | cut -c1-160)"; tail -1 /tmp/seed-$P-$Q.log | cut -c1-200); done
git -C /repo checkout -- .
