#!/usr/bin/env python3
"""usage: selftest/wave_archive.py <worktree-prefix> <suffix e.g. 4> <wave note>  -- archives seed_out of every worktree as seeded/<P>-<suffix>/ using the verdicts in
/tmp/wave-verdicts.txt (last line per property), then the caller removes the worktrees"""
import json, os, re, shutil, sys
pfx, suf, note = sys.argv[1], sys.argv[2], sys.argv[3]
verd = {}
for l in open("/tmp/wave-verdicts.txt"):
    verd[l.split()[0]] = l.strip()
for p in ["C%02d" % i for i in range(1, 21)]:
    src = "%s%s/seed_out" % (pfx, p)
    if not os.path.exists(src + "/patch.diff"):
        continue
    d = "/verif/seeded/%s-%s" % (p, suf)
    os.makedirs(d, exist_ok=True)
    for fn in ("patch.diff", "demo.py", "notes.md"):
        shutil.copy(src + "/" + fn, d)
    v = verd.get(p, "")
    m = re.search(r"check\[%s exit=(\d)" % p, v)
    code = m.group(1) if m else "?"
    first = {"1": "caught", "0": "missed", "2": "undecided (exit 2)", "3": "checker error (exit 3)"}.get(code, "not evaluated")
    files = sorted(set(re.findall(r"^\+\+\+ b/(\S+)", open(src + "/patch.diff").read(), re.M)))
    json.dump({"id": "%s-%s" % (p, suf), "property": p, "change": "see notes.md (files: %s)" % ", ".join(files), "needs_to_manifest": "see notes.md",
               "confirmed": "by selftest/seed_eval.sh: %s" % v, "checks_run": ["./check %s quick" % p], "detected_by": [p] if code == "1" else [],
               "history": "%s at first evaluation (%s)" % (first, note), "author": "independent sub-agent given only the property text and a scratch worktree"},
              open(d + "/meta.json", "w"), indent=1)
    print(p, first)
