#!/bin/bash
# dev helper: run every registered check (quick) on the current tree; optional REBASE=1 to rebaseline
cd "$(dirname "$0")/.."
for p in $(python3 -c "import json;print(' '.join(sorted(json.load(open('contracts/registry.json')))))"); do
  if [ -n "${REBASE:-}" ]; then export PYVC_REBASELINE=1; fi
  s=$(date +%s); ./check $p quick > /tmp/runall-$p.log 2>&1; rc=$?; e=$(date +%s)
  echo "$p exit=$rc $((e-s))s $(tail -1 /tmp/runall-$p.log | cut -c1-150)"
  [ $rc -ne 0 ] && grep -E "^(VIOLATION|UNDECIDED|CHECKER-ERROR)" /tmp/runall-$p.log | head -3 | cut -c1-300
done
