#!/bin/bash
# usage: selftest/seed_check.sh <seed-id> [props...]  -- applies seeded/<id>/patch.diff to /repo, runs the named checks (default: the seed's property), undoes it.
# also runs the seed's demo against /repo with and without the change when DEMO=1
set -u
S=$1; shift; D=/verif/seeded/$S
P=$(python3 -c "import json;print(json.load(open('$D/meta.json'))['property'])")
PROPS="${@:-$P}"
[ -z "$(git -C /repo status --porcelain)" ] || { echo "/repo dirty"; exit 3; }
git -C /repo apply $D/patch.diff || { echo "patch does not apply"; exit 3; }
trap 'git -C /repo checkout -- .' EXIT
if [ -n "${DEMO:-}" ]; then (cd $D && PYTHONPATH=/repo/src /venv/bin/python demo.py 2>&1 | tail -2; echo "demo exit=${PIPESTATUS[0]}"); fi
for Q in $PROPS; do (cd /verif && PYVC_EVIDENCE_DIR=/tmp/pyvc-seed-evidence ./check $Q ${TIER:-quick} > /tmp/seed-$S-$Q.log 2>&1; echo "$S: $Q exit=$? violations=$(grep -c '^VIOLATION' /tmp/seed-$S-$Q.log) $(grep -m1 '^VIOLATION' /tmp/seed-$S-$Q.log | cut -c1-160)"; tail -1 /tmp/seed-$S-$Q.log | cut -c1-200); done
