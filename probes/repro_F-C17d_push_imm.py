import gtirb, capstone
from gtirb_rewriting.assembler import Assembler
from gtirb_rewriting.assembly import X86Syntax
from gtirb_test_helpers import create_test_module
md = capstone.Cs(capstone.CS_ARCH_X86, capstone.CS_MODE_64)
md32 = capstone.Cs(capstone.CS_ARCH_X86, capstone.CS_MODE_32)
for isa, d in ((gtirb.Module.ISA.X64, md),(gtirb.Module.ISA.IA32, md32)):
  for v in (2147483647, 2147483648, 4294967295, -2147483648, -2147483649, 4294967296):
    ir, m = create_test_module(gtirb.Module.FileFormat.ELF if isa==gtirb.Module.ISA.X64 else gtirb.Module.FileFormat.PE, isa)
    a = Assembler(m)
    try:
        a.assemble(f"push {v}", X86Syntax.INTEL); r = a.finalize()
        print(isa.name, v, [(i.mnemonic, i.op_str, bytes(i.bytes).hex()) for i in d.disasm(bytes(r.text_section.data), 0)])
    except Exception as e: print(isa.name, v, 'ERR', type(e).__name__, e)
