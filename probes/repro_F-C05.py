import gtirb, gtirb_rewriting as gr
from gtirb_rewriting import _auxdata
from gtirb_test_helpers import add_data_block, add_symbol, add_data_section, create_test_module
from gtirb_rewriting import RewritingContext, Patch, patch_constraints
def run(off):
    ir, m = create_test_module(gtirb.Module.FileFormat.ELF, gtirb.Module.ISA.X64)
    _, bi = add_data_section(m, address=0x2000)
    d1 = add_data_block(bi, b"\x01\x02")
    @patch_constraints()
    def p(ctx): return ".string \"hi\""
    ctx = RewritingContext(m, [])
    ctx.insert_at(d1, off, Patch.from_function(p))
    ctx.apply()
    enc = _auxdata.encodings.get(m) or {}
    live = set(m.byte_blocks)
    print("off", off, "blocks", sorted((b.address, b.size, type(b).__name__) for b in live),
          "encodings:", [(k.address if k in live else "DANGLING(not in module)", v) for k, v in enc.items()])
    try:
        import io; buf = io.BytesIO(); ir.save_protobuf_file(buf); print("  serializes ok")
    except Exception as e: print("  serialization FAILED:", type(e).__name__, e)
for off in (0, 1, 2): run(off)
