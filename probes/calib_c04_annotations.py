# Throwaway calibration for C04: annotations (symexprs, interval- and block-keyed comments/padding/sizes) at every offset,
# all edit sets of <=2 modifications in the middle block of three data blocks. Oracle: listing edit on annotated bytes.
import itertools, logging, collections, gtirb
import gtirb_rewriting as gr
from gtirb_rewriting import _auxdata, RewritingContext
from gtirb_test_helpers import add_data_block, add_symbol, add_data_section, create_test_module
logging.disable(logging.CRITICAL)
N = 3
def build(keyed):
    ir, m = create_test_module(gtirb.Module.FileFormat.ELF, gtirb.Module.ISA.X64)
    _, bi = add_data_section(m, address=0x2000)
    blocks = [add_data_block(bi, bytes([0x10 * (j + 1) + i for i in range(N)])) for j in range(3)]
    sym = add_symbol(m, "s", blocks[0])
    comments = {}; sizes = {}; padding = {}
    for p in range(3 * N):
        bi.symbolic_expressions[p] = gtirb.SymAddrConst(p, sym)
        b = blocks[p // N]
        key = gtirb.Offset(bi, p) if keyed == "interval" else gtirb.Offset(b, p % N)
        comments[key] = "c%d" % p; sizes[key] = 100 + p; padding[key] = 200 + p
    _auxdata.comments.set(m, comments); _auxdata.symbolic_expression_sizes.set(m, sizes); _auxdata.padding.set(m, padding)
    return ir, m, bi, blocks
def absolute(m, table):
    out = {}
    for k, v in table.items():
        e = k.element_id
        base = e.address if e.address is not None else None
        out.setdefault(base + k.displacement - 0x2000, []).append(v)
    return out
atoms = []
for o in range(N + 1):
    atoms.append(("ins", o, 0))
    for l in range(1, N - o + 1): atoms.append(("rep", o, l)); atoms.append(("del", o, l))
stats = collections.Counter(); ex = {}
n = 0
for keyed in ("interval", "block"):
  for k in (1, 2):
    for combo in itertools.combinations(atoms, k):
        sel = sorted(combo, key=lambda a: a[1]); last = 0; ok = True
        for (_, o, l) in sel:
            if o < last: ok = False
            last = o + l
        if not ok: continue
        if any(kind == "del" and o == 0 and l == N for kind, o, l in sel) and k > 1: continue
        ir, m, bi, blocks = build(keyed)
        ctx = RewritingContext(m, [])
        for idx, (kind, o, l) in enumerate(sel):
            if kind == "ins": ctx.insert_at(blocks[1], o, bytes([0xA0 + idx] * 2))
            elif kind == "rep": ctx.replace_at(blocks[1], o, l, bytes([0xB0 + idx] * 2))
            else: ctx.delete_at(blocks[1], o, l)
        n += 1; desc = "%s-keyed %s" % (keyed, sel)
        try: ctx.apply()
        except Exception as e:
            stats["EXC " + type(e).__name__] += 1; ex.setdefault("EXC " + type(e).__name__, desc); continue
        # oracle: map original position p -> new position or None
        newpos = {}; shift = 0; cur = 0
        mods = [(N + o, l, 0 if kind == "del" else 2) for (kind, o, l) in sel]
        for p in range(3 * N):
            d = 0; dead = False
            for (o, l, ins) in mods:
                if p >= o + l: d += ins - l
                elif p >= o: dead = True
            newpos[p] = None if dead else p + d
        nbi = next(iter(m.byte_intervals))
        exp_sym = {newpos[p]: p for p in range(3 * N) if newpos[p] is not None}
        got_sym = {k: v.offset for k, v in nbi.symbolic_expressions.items()}
        if got_sym != exp_sym: stats["symexpr mismatch"] += 1; ex.setdefault("symexpr mismatch", desc + " got %s exp %s" % (got_sym, exp_sym))
        for name, tbl, f in (("comments", _auxdata.comments, lambda p: "c%d" % p), ("sizes", _auxdata.symbolic_expression_sizes, lambda p: 100 + p), ("padding", _auxdata.padding, lambda p: 200 + p)):
            t = tbl.get(m) or {}
            live = set(m.byte_blocks) | set(m.byte_intervals)
            if any(k.element_id not in live for k in t): stats[name + " dangling key"] += 1; ex.setdefault(name + " dangling key", desc)
            got = absolute(m, {k: v for k, v in t.items() if k.element_id in live})
            exp = {newpos[p]: [f(p)] for p in range(3 * N) if newpos[p] is not None}
            if got != exp:
                stats[name + " mismatch"] += 1; ex.setdefault(name + " mismatch", desc + " got %s exp %s" % (sorted(got.items()), sorted(exp.items())))
print("scenarios", n)
for k, v in sorted(stats.items(), key=lambda kv: -kv[1]): print("%4d  %s\n        e.g. %s" % (v, k, ex[k]))
