import time
from z3 import *
Ref = DeclareSort('Ref')
Edge = Datatype('Edge'); Edge.declare('mk', ('src', Ref), ('tgt', Ref), ('ty', IntSort()), ('cond', BoolSort()), ('direct', BoolSort())); Edge = Edge.create()
ES = ArraySort(Edge, BoolSort())
cfg = Const('cfg', ES); block, newb = Consts('block newb', Ref)
e = Const('e', Edge)
FT = 2
# middle split: for out_edge in tuple(block.outgoing_edges): update_edge(out_edge, cfg, source=new_block)
# for-each rule result (per-element post): every edge with src==block is replaced by same edge with src=newb
cfg1 = Lambda([e], Or(And(cfg[e], Edge.src(e) != block),
                      And(Edge.src(e) == newb, cfg[Edge.mk(block, Edge.tgt(e), Edge.ty(e), Edge.cond(e), Edge.direct(e))])))
ft = Edge.mk(block, newb, FT, False, True)
cfg2 = Store(cfg1, ft, True)
# fresh newb: no edge mentions it before
fresh = ForAll([e], Implies(cfg[e], And(Edge.src(e) != newb, Edge.tgt(e) != newb)))
# postconditions
x = Const('x', Edge)
post = And(
  # head has exactly one out-edge: the fallthrough
  ForAll([x], Implies(And(cfg2[x], Edge.src(x) == block), x == ft)),
  # tail's out-edges are exactly the head's old ones
  ForAll([x], Implies(Edge.src(x) == newb, cfg2[x] == cfg[Edge.mk(block, Edge.tgt(x), Edge.ty(x), Edge.cond(x), Edge.direct(x))])),
  # in-edges of everything except newb unchanged, edges of other sources unchanged
  ForAll([x], Implies(And(Edge.src(x) != block, Edge.src(x) != newb), cfg2[x] == cfg[x])))
s = Solver(); s.set('timeout', 30000); s.add(block != newb, fresh, Not(post))
t = time.time(); print('split edges:', s.check(), round(time.time() - t, 3))
# mutant: forget self-loop handling? e.g. edge block->block becomes newb->block (expected) ; check in-edge to block preserved target
# geometry + for-each over blocks in edit_byte_interval
off = Array('off', Ref, IntSort()); inbi = Array('inbi', Ref, BoolSort()); static = Array('static', Ref, BoolSort())
o, delta = Ints('o delta'); b = Const('b', Ref)
off2 = Lambda([b], If(And(inbi[b], off[b] >= o, Not(static[b])), off[b] + delta, off[b]))
y = Const('y', Ref)
post2 = ForAll([y], off2[y] == off[y] + If(And(inbi[y], off[y] >= o, Not(static[y])), delta, 0))
s = Solver(); s.add(Not(post2)); t = time.time(); print('offset shift:', s.check(), round(time.time() - t, 3))
