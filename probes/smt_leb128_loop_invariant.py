import time
from z3 import *
# uleb spec as recursive function producing array-backed seq is awkward; instead spec by length & digits:
# ulen(n) = 1 if n<128 else 1+ulen(n/128);  udig(n,j) = j-th byte
ulen = RecFunction('ulen', IntSort(), IntSort())
n = Int('n')
RecAddDefinition(ulen, [n], If(n < 128, 1, 1 + ulen(n / 128)))
udig = RecFunction('udig', IntSort(), IntSort(), IntSort())
j = Int('j')
RecAddDefinition(udig, [n, j], If(j <= 0, If(n < 128, n % 128, 128 + n % 128), udig(n / 128, j - 1)))
# loop: r (len rn, arr ra), i ; invariant: i>=0 /\ rn>=0 /\ ulen(i0) == rn + ulen(i) /\ forall q<rn: ra[q]==udig(i0,q) /\ forall q>=0: udig(i0, rn+q) == udig(i, q)
i0, i, rn = Ints('i0 i rn'); ra = Array('ra', IntSort(), IntSort()); q = Int('q')
def inv(i, rn, ra):
    return And(i >= 0, rn >= 0, ulen(i0) == rn + ulen(i),
               ForAll([q], Implies(And(0<=q, q<rn), ra[q] == udig(i0, q))),
               ForAll([q], Implies(q >= 0, udig(i0, rn + q) == udig(i, q))))
# body
b = i % 128; i2 = i / 128
# exit branch: i2 == 0: r.append(b): post: rn+1 == ulen(i0) and all digits match
s = Solver(); s.set('timeout', 60000)
ra2 = Store(ra, rn, b)
w = Int('w')
post_exit = And(rn + 1 == ulen(i0), Implies(And(0<=w, w<rn+1), ra2[w] == udig(i0, w)))
s.add(i0 >= 0, inv(i, rn, ra), i2 == 0, Not(post_exit))
t=time.time(); print('exit:', s.check(), round(time.time()-t,2))
# continue branch: i2 != 0: r.append(128|b) -> 128+b ; invariant preserved
s = Solver(); s.set('timeout', 60000)
ra3 = Store(ra, rn, 128 + b)
# negate inv(i2, rn+1, ra3) skolemized
w2 = Int('w2'); w3 = Int('w3')
neg = Or(Not(i2 >= 0), ulen(i0) != rn + 1 + ulen(i2),
         And(0<=w2, w2<rn+1, ra3[w2] != udig(i0, w2)),
         And(w3 >= 0, udig(i0, rn + 1 + w3) != udig(i2, w3)))
s.add(i0 >= 0, inv(i, rn, ra), i2 != 0, neg)
t=time.time(); print('preserve:', s.check(), round(time.time()-t,2))
# with hints: split disjuncts into separate queries + explicit instantiations
for name, goal, hints in [
  ('len', ulen(i0) != rn + 1 + ulen(i2), [ulen(i) == If(i<128, 1, 1+ulen(i/128))]),
  ('digits', And(0<=w2, w2<rn+1, ra3[w2] != udig(i0, w2)), [udig(i0, rn + 0) == udig(i, 0), udig(i,0) == If(i<128, i%128, 128+i%128)]),
  ('tail', And(w3 >= 0, udig(i0, rn + 1 + w3) != udig(i2, w3)), [udig(i0, rn + (w3+1)) == udig(i, w3+1), udig(i, w3+1) == udig(i/128, w3)]),
]:
    s = Solver(); s.set('timeout', 60000)
    s.add(i0 >= 0, inv(i, rn, ra), i2 != 0, goal)
    # hints must themselves be consequences: instantiations of inv forall / definitional unfoldings
    s.add(*hints)
    t=time.time(); print(name, s.check(), round(time.time()-t,2))
