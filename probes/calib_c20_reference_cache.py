import random, itertools, gtirb
from gtirb_rewriting._modify.cache import ReferenceCache, RefNode
from gtirb_test_helpers import create_test_module, add_text_section, add_code_block, add_symbol
def view(cache, syms):
    out = {}
    for s in syms:
        if s in cache._referents:
            n = cache._referents[s]
            assert s in n.symbols and s.referent is None, "rep: indirect symbol must have referent None and be in node.symbols"
            root = n; steps = 0
            while isinstance(root.parent, RefNode):
                assert root in root.parent.children, "rep: child link"
                root = root.parent; steps += 1; assert steps < 1000, "cycle"
            blk = root.parent
            pair = cache._references.get(blk)
            assert pair is not None and (root is pair[0] or root is pair[1]), "rep: root must be registered"
            out[s.name] = (blk.uuid, root is pair[1])
        else:
            out[s.name] = (s.referent.uuid if s.referent else None, s.at_end)
    return out
def run(seed, nops):
    rnd = random.Random(seed)
    ir, m = create_test_module(gtirb.Module.FileFormat.ELF, gtirb.Module.ISA.X64)
    _, bi = add_text_section(m, address=0x1000)
    blocks = [add_code_block(bi, b"\x90") for _ in range(3)]
    syms = []
    for i in range(4):
        s = add_symbol(m, "s%d" % i, rnd.choice(blocks)); s.at_end = rnd.random() < 0.4; syms.append(s)
    model = {s.name: (s.referent.uuid, s.at_end) for s in syms}
    c = ReferenceCache(); trace = []
    for _ in range(nops):
        op = rnd.choice(["ret", "ret", "ret", "refs", "refs1", "get", "set", "apply"])
        if op == "ret":
            b, t, e = rnd.choice(blocks), rnd.choice(blocks), rnd.random() < 0.5
            trace.append((op, blocks.index(b), blocks.index(t), e))
            c.retarget_references(b, t, e)
            model = {k: ((t.uuid, e) if v[0] == b.uuid else v) for k, v in model.items()}
        elif op in ("refs", "refs1"):
            b = rnd.choice(blocks); trace.append((op, blocks.index(b)))
            g = c.get_references(b)
            got = [next(g, None)] if op == "refs1" else list(g)
            got = [x for x in got if x is not None]
            exp = {k for k, v in model.items() if v[0] == b.uuid}
            names = [x.name for x in got]
            if op == "refs" and (set(names) != exp or len(names) != len(set(names))): return ("refs mismatch", trace, names, exp)
            for x in got:
                if (x.referent.uuid, x.at_end) != model[x.name]: return ("yielded symbol not direct/right", trace)
        elif op == "get":
            s = rnd.choice(syms); trace.append((op, s.name)); r = c.get_referent(s)
            if (r.uuid if r else None, s.at_end) != model[s.name]: return ("get_referent wrong", trace, model[s.name])
        elif op == "set":
            s, b, e = rnd.choice(syms), rnd.choice(blocks), rnd.random() < 0.5; trace.append((op, s.name, blocks.index(b), e))
            c.set_referent(s, b, e); model[s.name] = (b.uuid, e)
        else:
            trace.append((op,)); c.apply()
            if c._referents or c._references: return ("apply left state", trace)
        try: v = view(c, syms)
        except AssertionError as ex: return ("rep invariant: %s" % ex, trace)
        if v != model: return ("view != model", trace, v, model)
    return None
bad = 0
for seed in range(20000):
    r = run(seed, 8)
    if r:
        bad += 1
        if bad <= 3: print(seed, r)
print("histories", 20000, "bad", bad)
